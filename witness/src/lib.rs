//! K8 compile-fail witnesses: type-level facts of litep2p's public API that rules C18 / C01 rely on.
//! Each `compile_fail,E....` block is paired with a compiling twin that differs only by the offending line, so a witness whose
//! path is merely wrong cannot pass. Run by `cargo +nightly test --doc` (the stable toolchain ignores the error code).

/// C18 R18.1: a `PeerId` cannot be built from an arbitrary multihash literal outside the crate (private field).
/// ```compile_fail,E0451
/// let mh = litep2p::PeerId::random();
/// let mh: &litep2p::types::multihash::Multihash<64> = mh.as_ref();
/// let _forged = litep2p::PeerId { multihash: *mh };
/// ```
/// twin (compiles): the checked constructor is the way in
/// ```
/// let p = litep2p::PeerId::random();
/// let mh: &litep2p::types::multihash::Multihash<64> = p.as_ref();
/// let _ok = litep2p::PeerId::from_multihash(*mh);
/// ```
pub struct PeerIdFieldIsPrivate;

/// C18 R18.1: the stored multihash cannot be mutated from outside (private field).
/// ```compile_fail,E0616
/// let mut p = litep2p::PeerId::random();
/// let q = litep2p::PeerId::random();
/// let mh: &litep2p::types::multihash::Multihash<64> = q.as_ref();
/// p.multihash = *mh;
/// ```
/// twin (compiles)
/// ```
/// let mut p = litep2p::PeerId::random();
/// let q = litep2p::PeerId::random();
/// p = q;
/// let _ = p;
/// ```
pub struct PeerIdFieldNotAssignable;

/// C01 R01.4: the Noise handshake internals (and with them `NoiseSocket::new`) are not nameable from outside the crate.
/// ```compile_fail,E0603
/// use litep2p::crypto::noise::NoiseSocket;
/// ```
/// twin (compiles): the public part of the crypto module is nameable
/// ```
/// use litep2p::crypto::ed25519::Keypair;
/// let _ = Keypair::generate();
/// ```
pub struct NoiseModuleIsPrivate;
