use crate::json::J;
use rustc_abi::{FieldIdx, VariantIdx, FIRST_VARIANT};
use rustc_hir::def::DefKind;
use rustc_hir::def_id::{DefId, LocalDefId};
use rustc_middle::mir::{
    self, AggregateKind, BasicBlockData, Body, Const, Operand, Place, PlaceElem, Rvalue,
    StatementKind, TerminatorKind, VarDebugInfoContents,
};
use rustc_middle::ty::print::with_no_trimmed_paths;
use rustc_middle::ty::{self, GenericArgsRef, Instance, Ty, TyCtxt, TypingEnv};
use rustc_span::{ExpnKind, Span};
use std::io::Write;

pub fn dump_crate<'tcx>(tcx: TyCtxt<'tcx>, out_dir: &str, crate_name: &str) {
    let mut buf = String::with_capacity(64 << 20);
    let mut n_fn = 0usize;
    let mut n_cor = 0usize;
    let mut n_blocks = 0usize;
    with_no_trimmed_paths!({
        // pass 1: bodies (before anything can steal mir_built)
        let owners: Vec<LocalDefId> = tcx.hir_body_owners().collect();
        // clone every body first: printing types / resolving instances below may force
        // borrowck of other functions (opaque hidden types), which steals their mir_built
        let mut bodies: Vec<(LocalDefId, Body<'tcx>)> = Vec::new();
        for def in owners {
            let kind = tcx.def_kind(def);
            match kind {
                DefKind::Fn | DefKind::AssocFn | DefKind::Closure => {}
                _ => continue, // consts/statics/anon consts: not needed as bodies
            }
            // Building the MIR of one function can force borrowck of *another* one (auto-trait leakage of an `async fn`'s
            // opaque future, e.g. `Box::pin(Self::helper(..))` coerced to a `Send` boxed future), which steals that function's
            // `mir_built` before this loop reaches it. Fall back to `mir_promoted` (same CFG after promotion of constants).
            let steal = tcx.mir_built(def);
            if !steal.is_stolen() {
                let body = steal.borrow().clone();
                bodies.push((def, body));
                continue;
            }
            let (promoted, _) = tcx.mir_promoted(def);
            if !promoted.is_stolen() {
                let body = promoted.borrow().clone();
                eprintln!("litep2p-verif-driver: mir_built of {:?} was stolen, using mir_promoted", def);
                bodies.push((def, body));
            } else {
                eprintln!("litep2p-verif-driver: no MIR available for {:?} (mir_built and mir_promoted stolen)", def);
            }
        }
        for (def, body) in bodies.iter() {
            let def = *def;
            let (rec, sum) = fn_record(tcx, def, body);
            if body.coroutine.is_some() {
                n_cor += 1;
            }
            n_blocks += body.basic_blocks.len();
            n_fn += 1;
            rec.write(&mut buf);
            buf.push('\n');
            sum.write(&mut buf);
            buf.push('\n');
        }
        // pass 2: ADTs, impls
        for def in tcx.hir_crate_items(()).definitions() {
            let kind = tcx.def_kind(def);
            match kind {
                DefKind::Struct | DefKind::Enum | DefKind::Union => {
                    adt_record(tcx, def.to_def_id()).write(&mut buf);
                    buf.push('\n');
                }
                DefKind::Impl { .. } => {
                    impl_record(tcx, def).write(&mut buf);
                    buf.push('\n');
                }
                _ => {}
            }
        }
        // pass 3: constants (may trigger const-eval, hence last)
        for def in tcx.hir_crate_items(()).definitions() {
            let kind = tcx.def_kind(def);
            if matches!(kind, DefKind::Const { .. } | DefKind::AssocConst { .. }) {
                if let Some(j) = const_record(tcx, def) {
                    j.write(&mut buf);
                    buf.push('\n');
                }
            }
        }
    });
    J::Obj(vec![
        ("t", J::s("meta")),
        ("crate", J::s(crate_name)),
        ("n_fn", J::Int(n_fn as i128)),
        ("n_coroutine", J::Int(n_cor as i128)),
        ("n_blocks", J::Int(n_blocks as i128)),
    ])
    .write(&mut buf);
    buf.push('\n');
    let path = format!("{}/facts-{}.jsonl", out_dir, crate_name);
    let tmp = format!("{}.tmp.{}", path, std::process::id());
    let mut f = std::fs::File::create(&tmp).expect("create facts");
    f.write_all(buf.as_bytes()).expect("write facts");
    drop(f);
    std::fs::rename(&tmp, &path).expect("rename facts");
}

// Rename canonicalisation (DESIGN.md section 8.2): the analysis compares the tree with a committed baseline of names; when a private field or
// a function was merely renamed, the facts are written under the baseline names so that the rules (which name fields and functions) see
// the same program. LPV_ALIASES names a file with lines `F\t<adt path>\t<variant>\t<current field>\t<baseline field>` and
// `N\t<current def path>\t<baseline def path>`.
struct Aliases {
    fields: std::collections::HashMap<(String, String, String), String>,
    fns: Vec<(String, String)>,
}

static ALIASES: std::sync::OnceLock<Aliases> = std::sync::OnceLock::new();

fn aliases() -> &'static Aliases {
    ALIASES.get_or_init(|| {
        let mut a = Aliases { fields: std::collections::HashMap::new(), fns: Vec::new() };
        if let Ok(path) = std::env::var("LPV_ALIASES") {
            if let Ok(text) = std::fs::read_to_string(&path) {
                for line in text.lines() {
                    let f: Vec<&str> = line.split('\t').collect();
                    if f.len() == 5 && f[0] == "F" {
                        a.fields.insert((f[1].to_string(), f[2].to_string(), f[3].to_string()), f[4].to_string());
                    } else if f.len() == 3 && f[0] == "N" {
                        a.fns.push((f[1].to_string(), f[2].to_string()));
                    }
                }
            }
        }
        a
    })
}

fn alias_field(adt: &str, variant: &str, name: String) -> String {
    let a = aliases();
    if a.fields.is_empty() {
        return name;
    }
    match a.fields.get(&(adt.to_string(), variant.to_string(), name.clone())) {
        Some(b) => b.clone(),
        None => name,
    }
}

fn dps<'tcx>(tcx: TyCtxt<'tcx>, d: DefId) -> String {
    let s = tcx.def_path_str(d);
    let a = aliases();
    for (cur, base) in a.fns.iter() {
        if s == *cur {
            return base.clone();
        }
        if s.len() > cur.len() && s.starts_with(cur.as_str()) && s[cur.len()..].starts_with("::{") {
            return format!("{}{}", base, &s[cur.len()..]);
        }
    }
    s
}

fn span_info<'tcx>(tcx: TyCtxt<'tcx>, span: Span) -> (i128, J) {
    // line of the outermost call site (user code) + expansion backtrace
    let mut ex = Vec::new();
    let mut outer = span;
    for e in span.macro_backtrace() {
        match e.kind {
            ExpnKind::Macro(_, name) => ex.push(J::s(format!("m:{}", name))),
            ExpnKind::Desugaring(k) => ex.push(J::s(format!("d:{:?}", k))),
            ExpnKind::AstPass(_) => ex.push(J::s("a")),
            ExpnKind::Root => {}
        }
        outer = e.call_site;
    }
    // desugarings are not reported by macro_backtrace; check ctxt directly
    if ex.is_empty() && span.from_expansion() {
        let ed = span.ctxt().outer_expn_data();
        match ed.kind {
            ExpnKind::Desugaring(k) => ex.push(J::s(format!("d:{:?}", k))),
            ExpnKind::Macro(_, name) => ex.push(J::s(format!("m:{}", name))),
            _ => ex.push(J::s("x")),
        }
        outer = ed.call_site;
    } else if let Some(k) = span.desugaring_kind() {
        let tag = format!("d:{:?}", k);
        let dup = matches!(ex.first(), Some(J::Str(s)) if *s == tag);
        if !dup {
            ex.insert(0, J::Str(tag));
        }
    }
    let sm = tcx.sess.source_map();
    let line = if outer.is_dummy() { 0 } else { sm.lookup_char_pos(outer.lo()).line as i128 };
    (line, if ex.is_empty() { J::Null } else { J::Arr(ex) })
}

fn file_of<'tcx>(tcx: TyCtxt<'tcx>, span: Span) -> (String, i128, i128) {
    let sm = tcx.sess.source_map();
    if span.is_dummy() {
        return (String::new(), 0, 0);
    }
    let lo = sm.lookup_char_pos(span.lo());
    let hi = sm.lookup_char_pos(span.hi());
    let name = format!("{}", lo.file.name.prefer_local_unconditionally());
    (name, lo.line as i128, hi.line as i128)
}

fn ty_s<'tcx>(t: Ty<'tcx>) -> String {
    t.to_string()
}

struct Cx<'a, 'tcx> {
    tcx: TyCtxt<'tcx>,
    body: &'a Body<'tcx>,
    env: TypingEnv<'tcx>,
    calls: Vec<J>,
    aggs: Vec<String>,
}

fn field_name<'tcx>(tcx: TyCtxt<'tcx>, pty: mir::PlaceTy<'tcx>, f: FieldIdx) -> String {
    match pty.ty.kind() {
        ty::Adt(adt, _) => {
            let v = pty.variant_index.unwrap_or(FIRST_VARIANT);
            if adt.is_enum() || adt.is_struct() || adt.is_union() {
                if let Some(var) = adt.variants().get(v) {
                    if let Some(fd) = var.fields.get(f) {
                        return alias_field(&tcx.def_path_str(adt.did()), &var.name.to_string(), fd.name.to_string());
                    }
                }
            }
            let _ = tcx;
            format!("{}", f.as_usize())
        }
        _ => format!("{}", f.as_usize()),
    }
}

impl<'a, 'tcx> Cx<'a, 'tcx> {
    fn place(&self, p: &Place<'tcx>) -> J {
        let mut v = vec![J::Int(p.local.as_usize() as i128)];
        let mut pty = mir::PlaceTy::from_ty(self.body.local_decls[p.local].ty);
        for elem in p.projection.iter() {
            let s = match elem {
                PlaceElem::Deref => "*".to_string(),
                PlaceElem::Field(f, _) => {
                    let n = field_name(self.tcx, pty, f);
                    if n.is_empty() {
                        // a field that only groups former fields of the outer struct (alias to the empty name): transparent
                        pty = pty.projection_ty(self.tcx, elem);
                        continue;
                    }
                    format!(".{}", n)
                }
                PlaceElem::Index(l) => format!("[_{}]", l.as_usize()),
                PlaceElem::ConstantIndex { offset, from_end, .. } => {
                    format!("[c{}{}]", if from_end { "-" } else { "" }, offset)
                }
                PlaceElem::Subslice { from, to, from_end } => {
                    format!("[s{}..{}{}]", from, if from_end { "-" } else { "" }, to)
                }
                PlaceElem::Downcast(name, idx) => match name {
                    Some(n) => format!("@{}", n),
                    None => format!("@#{}", idx.as_usize()),
                },
                PlaceElem::OpaqueCast(_) => "~".to_string(),
                PlaceElem::UnwrapUnsafeBinder(_) => "~u".to_string(),
            };
            v.push(J::Str(s));
            pty = pty.projection_ty(self.tcx, elem);
        }
        J::Arr(v)
    }

    fn place_ty(&self, p: &Place<'tcx>) -> String {
        ty_s(p.ty(&self.body.local_decls, self.tcx).ty)
    }

    fn konst(&self, c: &Const<'tcx>) -> J {
        let ty = c.ty();
        let mut o: Vec<(&'static str, J)> = vec![("ty", J::s(ty_s(ty)))];
        if let ty::FnDef(did, args) = ty.kind() {
            o.push(("fn", J::s(dps(self.tcx, *did))));
            o.push(("args", J::Arr(args.iter().map(|a| J::s(a.to_string())).collect())));
            return J::Obj(vec![("k", J::Obj(o))]);
        }
        match c {
            Const::Unevaluated(uv, _) => {
                if uv.promoted.is_none() {
                    o.push(("cdef", J::s(dps(self.tcx, uv.def))));
                } else {
                    o.push(("promoted", J::Bool(true)));
                }
            }
            Const::Val(v, _) => {
                if let Some(si) = v.try_to_scalar_int() {
                    push_scalar(&mut o, si, ty);
                } else {
                    o.push(("s", J::s(trunc(format!("{}", c)))));
                }
            }
            Const::Ty(_, ct) => {
                if let Some(s) = ct.try_to_scalar() {
                    if let Ok(si) = s.try_to_scalar_int() {
                        push_scalar(&mut o, si, ty);
                    }
                } else {
                    o.push(("s", J::s(trunc(format!("{}", c)))));
                }
            }
        }
        J::Obj(vec![("k", J::Obj(o))])
    }

    fn operand(&self, o: &Operand<'tcx>) -> J {
        match o {
            Operand::Copy(p) => J::Obj(vec![("c", self.place(p))]),
            Operand::Move(p) => J::Obj(vec![("m", self.place(p))]),
            Operand::Constant(c) => self.konst(&c.const_),
            #[allow(unreachable_patterns)]
            _ => J::Obj(vec![("k", J::Obj(vec![("ty", J::s("?")), ("s", J::s("runtime-checks"))]))]),
        }
    }

    fn adt_variant(&self, did: DefId, v: VariantIdx) -> (String, String, Vec<J>) {
        let adt = self.tcx.adt_def(did);
        let var = adt.variant(v);
        (
            dps(self.tcx, did),
            var.name.to_string(),
            var.fields
                .iter()
                .map(|f| J::s(alias_field(&self.tcx.def_path_str(did), &var.name.to_string(), f.name.to_string())))
                .collect(),
        )
    }

    fn rvalue(&mut self, rv: &Rvalue<'tcx>) -> J {
        match rv {
            Rvalue::Use(o, ..) => J::Obj(vec![("r", J::s("use")), ("o", self.operand(o))]),
            Rvalue::Ref(_, bk, p) => J::Obj(vec![
                ("r", J::s("ref")),
                ("p", self.place(p)),
                ("mut", J::Bool(matches!(bk, mir::BorrowKind::Mut { .. }))),
            ]),
            Rvalue::RawPtr(_, p) => J::Obj(vec![("r", J::s("ref")), ("p", self.place(p)), ("raw", J::Bool(true))]),
            Rvalue::CopyForDeref(p) => {
                J::Obj(vec![("r", J::s("use")), ("o", J::Obj(vec![("c", self.place(p))]))])
            }
            Rvalue::Cast(kind, o, ty) => J::Obj(vec![
                ("r", J::s("cast")),
                ("kind", J::s(format!("{:?}", kind))),
                ("o", self.operand(o)),
                ("ty", J::s(ty_s(*ty))),
            ]),
            Rvalue::BinaryOp(op, ab) => J::Obj(vec![
                ("r", J::s("bin")),
                ("op", J::s(format!("{:?}", op))),
                ("a", self.operand(&ab.0)),
                ("b", self.operand(&ab.1)),
            ]),
            Rvalue::UnaryOp(op, o) => J::Obj(vec![
                ("r", J::s("un")),
                ("op", J::s(format!("{:?}", op))),
                ("o", self.operand(o)),
            ]),
            Rvalue::Discriminant(p) => {
                let pty = p.ty(&self.body.local_decls, self.tcx).ty;
                let mut vars = Vec::new();
                let mut adt_name = J::Null;
                if let ty::Adt(adt, _) = pty.kind() {
                    adt_name = J::s(dps(self.tcx, adt.did()));
                    if adt.is_enum() {
                        for (vi, d) in adt.discriminants(self.tcx) {
                            vars.push((format!("{}", d.val), J::s(adt.variant(vi).name.to_string())));
                        }
                    }
                }
                J::Obj(vec![
                    ("r", J::s("discr")),
                    ("p", self.place(p)),
                    ("adt", adt_name),
                    ("vars", J::Map(vars)),
                ])
            }
            Rvalue::Aggregate(kind, ops) => {
                let opsj: Vec<J> = ops.iter().map(|o| self.operand(o)).collect();
                match &**kind {
                    AggregateKind::Adt(did, v, _, _, _) => {
                        let (adt, var, fields) = self.adt_variant(*did, *v);
                        self.aggs.push(format!("{}::{}", adt, var));
                        J::Obj(vec![
                            ("r", J::s("agg")),
                            ("adt", J::s(adt)),
                            ("var", J::s(var)),
                            ("fields", J::Arr(fields)),
                            ("ops", J::Arr(opsj)),
                        ])
                    }
                    AggregateKind::Tuple => J::Obj(vec![("r", J::s("agg")), ("adt", J::s("(tuple)")), ("ops", J::Arr(opsj))]),
                    AggregateKind::Array(_) => J::Obj(vec![("r", J::s("agg")), ("adt", J::s("[array]")), ("ops", J::Arr(opsj))]),
                    AggregateKind::Closure(did, _) | AggregateKind::CoroutineClosure(did, _) => J::Obj(vec![
                        ("r", J::s("agg")),
                        ("adt", J::s("{closure}")),
                        ("closure", J::s(dps(self.tcx, *did))),
                        ("ops", J::Arr(opsj)),
                    ]),
                    AggregateKind::Coroutine(did, _) => J::Obj(vec![
                        ("r", J::s("agg")),
                        ("adt", J::s("{coroutine}")),
                        ("closure", J::s(dps(self.tcx, *did))),
                        ("ops", J::Arr(opsj)),
                    ]),
                    AggregateKind::RawPtr(..) => J::Obj(vec![("r", J::s("agg")), ("adt", J::s("(rawptr)")), ("ops", J::Arr(opsj))]),
                }
            }
            Rvalue::Repeat(o, _) => J::Obj(vec![("r", J::s("repeat")), ("o", self.operand(o))]),
            other => J::Obj(vec![("r", J::s("other")), ("s", J::s(trunc(format!("{:?}", other))))]),
        }
    }

    fn callee(&mut self, func: &Operand<'tcx>) -> J {
        if let Operand::Constant(c) = func {
            if let ty::FnDef(did, args) = c.const_.ty().kind() {
                let def = dps(self.tcx, *did);
                let (res, res_local) = self.resolve(*did, args);
                let trait_of = self.tcx.trait_of_assoc(*did).map(|t| dps(self.tcx, t));
                let self_ty = if trait_of.is_some() || self.tcx.impl_of_assoc(*did).is_some() {
                    args.types().next().map(|t| ty_s(t))
                } else {
                    None
                };
                let mut o = vec![
                    ("def", J::s(def.clone())),
                    ("local", J::Bool(did.is_local())),
                    ("args", J::Arr(args.iter().map(|a| J::s(a.to_string())).collect())),
                ];
                if let Some(t) = trait_of {
                    o.push(("trait", J::s(t)));
                }
                if let Some(s) = self_ty {
                    o.push(("self", J::s(s)));
                }
                if let Some(r) = &res {
                    o.push(("res", J::s(r.clone())));
                    o.push(("res_local", J::Bool(res_local)));
                }
                self.calls.push(J::Arr(vec![J::s(def), J::opt_s(res)]));
                return J::Obj(o);
            }
        }
        J::Obj(vec![("ind", self.operand(func))])
    }

    fn resolve(&self, did: DefId, args: GenericArgsRef<'tcx>) -> (Option<String>, bool) {
        let tcx = self.tcx;
        let args = tcx.erase_and_anonymize_regions(args);
        let args = match tcx.try_normalize_erasing_regions(self.env, ty::Unnormalized::new_wip(args)) {
            Ok(a) => a,
            Err(_) => args,
        };
        match Instance::try_resolve(tcx, self.env, did, args) {
            Ok(Some(inst)) => {
                let d = inst.def_id();
                (Some(dps(tcx, d)), d.is_local())
            }
            _ => (None, false),
        }
    }

    fn block(&mut self, bb: &BasicBlockData<'tcx>) -> J {
        let mut stmts = Vec::new();
        for st in &bb.statements {
            match &st.kind {
                StatementKind::Assign(b) => {
                    let (lhs, rv) = &**b;
                    let (ln, ex) = span_info(self.tcx, st.source_info.span);
                    let rvj = self.rvalue(rv);
                    stmts.push(J::Obj(vec![
                        ("lhs", self.place(lhs)),
                        ("rv", rvj),
                        ("ln", J::Int(ln)),
                        ("ex", ex),
                    ]));
                }
                StatementKind::SetDiscriminant { place, variant_index } => {
                    let (ln, ex) = span_info(self.tcx, st.source_info.span);
                    stmts.push(J::Obj(vec![
                        ("lhs", self.place(place)),
                        ("rv", J::Obj(vec![("r", J::s("setdiscr")), ("v", J::Int(variant_index.as_usize() as i128))])),
                        ("ln", J::Int(ln)),
                        ("ex", ex),
                    ]));
                }
                _ => {}
            }
        }
        let term = bb.terminator();
        let (ln, ex) = span_info(self.tcx, term.source_info.span);
        let mut t: Vec<(&'static str, J)> = Vec::new();
        let bbj = |b: mir::BasicBlock| J::Int(b.as_usize() as i128);
        match &term.kind {
            TerminatorKind::Goto { target } => {
                t.push(("k", J::s("goto")));
                t.push(("t", bbj(*target)));
            }
            TerminatorKind::SwitchInt { discr, targets } => {
                t.push(("k", J::s("switch")));
                t.push(("o", self.operand(discr)));
                let mut tv = Vec::new();
                for (v, b) in targets.iter() {
                    tv.push(J::Arr(vec![J::Int(v as i128), bbj(b)]));
                }
                t.push(("targets", J::Arr(tv)));
                t.push(("otherwise", bbj(targets.otherwise())));
            }
            TerminatorKind::Return => t.push(("k", J::s("return"))),
            TerminatorKind::Unreachable => t.push(("k", J::s("unreachable"))),
            TerminatorKind::UnwindResume => t.push(("k", J::s("resume"))),
            TerminatorKind::UnwindTerminate(_) => t.push(("k", J::s("terminate"))),
            TerminatorKind::CoroutineDrop => t.push(("k", J::s("coroutine_drop"))),
            TerminatorKind::Drop { place, target, .. } => {
                t.push(("k", J::s("drop")));
                t.push(("p", self.place(place)));
                t.push(("pty", J::s(self.place_ty(place))));
                t.push(("t", bbj(*target)));
            }
            TerminatorKind::Call { func, args, destination, target, fn_span, .. } => {
                t.push(("k", J::s("call")));
                let f = self.callee(func);
                t.push(("f", f));
                t.push(("args", J::Arr(args.iter().map(|a| self.operand(&a.node)).collect())));
                t.push(("dest", self.place(destination)));
                t.push(("t", match target { Some(b) => bbj(*b), None => J::Null }));
                let (fl, _) = span_info(self.tcx, *fn_span);
                t.push(("fln", J::Int(fl)));
            }
            TerminatorKind::TailCall { func, args, .. } => {
                t.push(("k", J::s("call")));
                let f = self.callee(func);
                t.push(("f", f));
                t.push(("args", J::Arr(args.iter().map(|a| self.operand(&a.node)).collect())));
                t.push(("dest", J::Arr(vec![J::Int(0)])));
                t.push(("t", J::Null));
                t.push(("tail", J::Bool(true)));
            }
            TerminatorKind::Assert { cond, expected, msg, target, .. } => {
                t.push(("k", J::s("assert")));
                t.push(("cond", self.operand(cond)));
                t.push(("expected", J::Bool(*expected)));
                t.push(("msg", J::s(trunc(format!("{:?}", msg)))));
                t.push(("t", bbj(*target)));
            }
            TerminatorKind::Yield { value, resume, resume_arg, drop } => {
                t.push(("k", J::s("yield")));
                t.push(("o", self.operand(value)));
                t.push(("t", bbj(*resume)));
                t.push(("resume_arg", self.place(resume_arg)));
                t.push(("drop", match drop { Some(b) => bbj(*b), None => J::Null }));
            }
            TerminatorKind::FalseEdge { real_target, imaginary_target } => {
                t.push(("k", J::s("goto")));
                t.push(("t", bbj(*real_target)));
                t.push(("imag", bbj(*imaginary_target)));
            }
            TerminatorKind::FalseUnwind { real_target, .. } => {
                t.push(("k", J::s("goto")));
                t.push(("t", bbj(*real_target)));
                t.push(("loop_head", J::Bool(true)));
            }
            TerminatorKind::InlineAsm { .. } => t.push(("k", J::s("asm"))),
        }
        t.push(("ln", J::Int(ln)));
        t.push(("ex", ex));
        J::Obj(vec![
            ("cleanup", J::Bool(bb.is_cleanup)),
            ("stmts", J::Arr(stmts)),
            ("term", J::Obj(t)),
        ])
    }
}

fn push_scalar<'tcx>(o: &mut Vec<(&'static str, J)>, si: ty::ScalarInt, ty: Ty<'tcx>) {
    let size = si.size();
    let bits = si.to_bits(size);
    let v: i128 = if ty.is_signed() { si.to_int(size) } else { bits as i128 };
    if ty.is_bool() {
        o.push(("v", J::Int(if bits != 0 { 1 } else { 0 })));
    } else if ty.is_integral() || ty.is_char() {
        o.push(("v", J::Int(v)));
    } else {
        o.push(("v", J::Int(bits as i128)));
    }
}

fn trunc(s: String) -> String {
    if s.len() > 300 {
        let mut e = 300;
        while !s.is_char_boundary(e) {
            e -= 1;
        }
        format!("{}…", &s[..e])
    } else {
        s
    }
}

fn fn_record<'tcx>(tcx: TyCtxt<'tcx>, def: LocalDefId, body: &Body<'tcx>) -> (J, J) {
    let did = def.to_def_id();
    let path = dps(tcx, did);
    let kind = tcx.def_kind(def);
    let (file, lo, hi) = file_of(tcx, body.span);
    let env = TypingEnv::post_analysis(tcx, def);
    let mut cx = Cx { tcx, body, env, calls: Vec::new(), aggs: Vec::new() };

    let mut locals = Vec::new();
    for (_l, decl) in body.local_decls.iter_enumerated() {
        locals.push(J::s(ty_s(decl.ty)));
    }
    let mut names = Vec::new();
    for vdi in &body.var_debug_info {
        if let VarDebugInfoContents::Place(p) = &vdi.value {
            names.push(J::Arr(vec![J::s(vdi.name.to_string()), cx.place(p)]));
        }
    }
    let mut blocks = Vec::new();
    for (_b, data) in body.basic_blocks.iter_enumerated() {
        blocks.push(cx.block(data));
    }
    let parent = tcx.opt_parent(did).map(|p| dps(tcx, p));
    let mut o: Vec<(&'static str, J)> = vec![
        ("t", J::s("fn")),
        ("def", J::s(path.clone())),
        ("idx", J::Int(def.local_def_index.as_usize() as i128)),
        ("kind", J::s(format!("{:?}", kind))),
        ("file", J::s(file)),
        ("lo", J::Int(lo)),
        ("hi", J::Int(hi)),
        ("parent", J::opt_s(parent)),
        ("coroutine", J::Bool(body.coroutine.is_some())),
        ("argc", J::Int(body.arg_count as i128)),
        ("ret", J::s(ty_s(body.local_decls[mir::RETURN_PLACE].ty))),
    ];
    if matches!(kind, DefKind::Fn | DefKind::AssocFn) {
        o.push(("vis", J::s(format!("{:?}", tcx.visibility(did)))));
        o.push(("name", J::s(tcx.item_name(did).to_string())));
        if let Some(imp) = tcx.impl_of_assoc(did) {
            o.push(("self_ty", J::s(ty_s(tcx.type_of(imp).instantiate_identity().skip_norm_wip()))));
            if let Some(tr) = tcx.impl_opt_trait_ref(imp) {
                o.push(("impl_trait", J::s(dps(tcx, tr.skip_binder().def_id))));
            }
        } else if let Some(tr) = tcx.trait_of_assoc(did) {
            o.push(("in_trait", J::s(dps(tcx, tr))));
        }
    }
    o.push(("locals", J::Arr(locals)));
    o.push(("names", J::Arr(names)));
    o.push(("blocks", J::Arr(blocks)));
    let mut aggs = std::mem::take(&mut cx.aggs);
    aggs.sort();
    aggs.dedup();
    let sum = J::Obj(vec![
        ("t", J::s("sum")),
        ("def", J::s(path)),
        ("idx", J::Int(def.local_def_index.as_usize() as i128)),
        ("calls", J::Arr(std::mem::take(&mut cx.calls))),
        ("aggs", J::Arr(aggs.into_iter().map(J::Str).collect())),
    ]);
    (J::Obj(o), sum)
}

fn adt_record<'tcx>(tcx: TyCtxt<'tcx>, did: DefId) -> J {
    let adt = tcx.adt_def(did);
    let mut vars = Vec::new();
    for v in adt.variants().iter() {
        let mut fields = Vec::new();
        for f in v.fields.iter() {
            fields.push(J::Obj(vec![
                ("name", J::s(alias_field(&tcx.def_path_str(did), &v.name.to_string(), f.name.to_string()))),
                ("ty", J::s(ty_s(tcx.type_of(f.did).instantiate_identity().skip_norm_wip()))),
                ("vis", J::s(format!("{:?}", f.vis))),
            ]));
        }
        vars.push(J::Obj(vec![("name", J::s(v.name.to_string())), ("fields", J::Arr(fields))]));
    }
    let (file, lo, _) = file_of(tcx, tcx.def_span(did));
    J::Obj(vec![
        ("t", J::s("adt")),
        ("def", J::s(dps(tcx, did))),
        ("kind", J::s(format!("{:?}", adt.adt_kind()))),
        ("vis", J::s(format!("{:?}", tcx.visibility(did)))),
        ("file", J::s(file)),
        ("lo", J::Int(lo)),
        ("variants", J::Arr(vars)),
    ])
}

fn impl_record<'tcx>(tcx: TyCtxt<'tcx>, def: LocalDefId) -> J {
    let did = def.to_def_id();
    let self_ty = ty_s(tcx.type_of(did).instantiate_identity().skip_norm_wip());
    let tr = tcx.impl_opt_trait_ref(did).map(|t| dps(tcx, t.skip_binder().def_id));
    let mut items = Vec::new();
    for it in tcx.associated_items(did).in_definition_order() {
        if matches!(it.kind, ty::AssocKind::Fn { .. }) {
            items.push(J::Arr(vec![J::s(it.name().to_string()), J::s(dps(tcx, it.def_id))]));
        }
    }
    J::Obj(vec![
        ("t", J::s("impl")),
        ("self_ty", J::s(self_ty)),
        ("trait", J::opt_s(tr)),
        ("items", J::Arr(items)),
    ])
}

fn const_record<'tcx>(tcx: TyCtxt<'tcx>, def: LocalDefId) -> Option<J> {
    let did = def.to_def_id();
    if tcx.generics_of(did).count() != 0 {
        return None;
    }
    if let Some(p) = tcx.opt_parent(did) {
        if matches!(tcx.def_kind(p), DefKind::Impl { .. } | DefKind::Trait) && tcx.generics_of(p).count() != 0 {
            return None;
        }
    }
    let ty = tcx.type_of(did).instantiate_identity().skip_norm_wip();
    if !(ty.is_integral() || ty.is_bool()) {
        return None;
    }
    let val = tcx.const_eval_poly(did).ok()?;
    let si = val.try_to_scalar_int()?;
    let mut o: Vec<(&'static str, J)> = vec![("t", J::s("const")), ("def", J::s(dps(tcx, did))), ("ty", J::s(ty_s(ty)))];
    push_scalar(&mut o, si, ty);
    Some(J::Obj(o))
}
