// lpv-driver: rustc_private driver that dumps per-function MIR facts (mir_built, i.e.
// pre-borrowck / pre-coroutine-transform MIR) of one crate as JSON lines.
//
// Used as RUSTC_WORKSPACE_WRAPPER: argv = [driver, rustc, <rustc args...>].
// Environment: LPV_OUT = output directory (facts-<crate>.jsonl is written there),
//              LPV_CRATE = crate name to dump (default "litep2p").
#![feature(rustc_private)]
#![allow(clippy::all)]

extern crate rustc_abi;
extern crate rustc_data_structures;
extern crate rustc_driver;
extern crate rustc_hir;
extern crate rustc_index;
extern crate rustc_interface;
extern crate rustc_middle;
extern crate rustc_session;
extern crate rustc_span;

mod dump;
mod json;

use rustc_driver::{Callbacks, Compilation};
use rustc_interface::interface;
use rustc_middle::ty::TyCtxt;

struct Cb {
    krate: String,
    out: Option<String>,
}

impl Callbacks for Cb {
    fn after_expansion<'tcx>(&mut self, _c: &interface::Compiler, tcx: TyCtxt<'tcx>) -> Compilation {
        let name = tcx.crate_name(rustc_hir::def_id::LOCAL_CRATE).to_string();
        if let Some(out) = &self.out {
            if name == self.krate {
                dump::dump_crate(tcx, out, &name);
            }
        }
        Compilation::Continue
    }
}

fn main() {
    let mut args: Vec<String> = std::env::args().collect();
    // wrapper mode: drop our own argv[0]; argv[1] (path of rustc) becomes argv[0]
    if args.len() > 1 && (args[1].ends_with("rustc") || args[1].contains("/rustc")) {
        args.remove(0);
    }
    let krate = std::env::var("LPV_CRATE").unwrap_or_else(|_| "litep2p".to_string());
    let out = std::env::var("LPV_OUT").ok();
    let mut cb = Cb { krate, out };
    let code = rustc_driver::catch_with_exit_code(|| rustc_driver::run_compiler(&args, &mut cb));
    std::process::exit(match code {
        c if c == std::process::ExitCode::SUCCESS => 0,
        _ => 1,
    });
}
