"""Reader for integer `const` items of *dependency* crates (private modules are not visible to the driver).

The crate version is the one pinned in /repo/Cargo.lock; the source is the extracted registry copy under
$CARGO_HOME/registry/src/*/<name>-<version>/.  Only `const NAME: ty = <integer literal / simple product>;` is understood."""
import glob
import os
import re

from extract import REPO


def locked_versions(name, repo=REPO):
    out = []
    cur = None
    with open(os.path.join(repo, "Cargo.lock")) as f:
        for line in f:
            line = line.strip()
            if line.startswith("name = "):
                cur = line.split('"')[1]
            elif line.startswith("version = ") and cur == name:
                out.append(line.split('"')[1])
    return out


def crate_dir(name, version):
    home = os.environ.get("CARGO_HOME") or os.path.expanduser("~/.cargo")
    for d in glob.glob(os.path.join(home, "registry", "src", "*", "%s-%s" % (name, version))):
        return d
    return None


def _eval(expr):
    expr = re.sub(r"_(?=\d)", "", expr.strip())
    expr = re.sub(r"(?<=\d)(usize|u64|u32|u16|u8|isize|i64|i32)", "", expr)
    if re.fullmatch(r"[0-9a-fA-Fx\s*+()-]+", expr):
        try:
            return int(eval(expr, {"__builtins__": {}}, {}))
        except Exception:
            return None
    return None


def consts(name, relpath, version=None):
    """{CONST_NAME: int} of the file `relpath` inside the locked version of crate `name` -> (dict, version, path)"""
    vs = [version] if version else locked_versions(name)
    for v in vs:
        d = crate_dir(name, v)
        if d is None:
            continue
        p = os.path.join(d, relpath)
        if not os.path.exists(p):
            continue
        out = {}
        src = open(p).read()
        for m in re.finditer(r"(?:pub(?:\([a-z]+\))?\s+)?const\s+([A-Z0-9_]+)\s*:\s*[A-Za-z0-9_]+\s*=\s*([^;]+);", src):
            val = _eval(m.group(2))
            if val is not None:
                out[m.group(1)] = val
        return out, v, p
    return {}, None, None


def source(name, relpath):
    for v in locked_versions(name):
        d = crate_dir(name, v)
        if d and os.path.exists(os.path.join(d, relpath)):
            return open(os.path.join(d, relpath)).read(), v
    return None, None
