#!/usr/bin/env python3
"""check runner: ./check <property> [--tier quick|thorough] [--replay path]

Loads the facts of /repo's current tree (re-extracting when the tree changed), runs the
rule module rules/<property>.py and writes evidence/<property>.json.
Exit 0: all obligations hold (known findings are printed as KNOWN-FINDING lines).
Exit 1: at least one violation not listed in known_findings.json (VIOLATION lines).
Exit 2: ANALYSIS-ERROR (the tree does not type-check; no verdict)."""
import importlib
import json
import os
import re
import sys
import time
import traceback

HERE = os.path.dirname(os.path.abspath(__file__))
VERIF = os.path.dirname(HERE)
sys.path.insert(0, HERE)
sys.path.insert(0, os.path.join(VERIF, "rules"))

import extract  # noqa: E402
import facts as F  # noqa: E402


class AnchorLost(Exception):
    pass


class Ctx:
    """What a rule module sees."""

    def __init__(self, prop, tier):
        self.prop = prop
        self.tier = tier
        self.obligations = []
        self._facts = {}
        self.assumptions = []
        self.bodies = set()
        self.notes = {}
        self.configs_used = []

    # ---- facts
    def facts(self, cfg="default"):
        if cfg not in self._facts:
            import normalise
            self._facts[cfg] = normalise.load(cfg)
            self.configs_used.append(cfg)
        return self._facts[cfg]

    def configs(self):
        """configurations analysed at this tier"""
        return ["default", "all"] if self.tier == "thorough" else ["default"]

    def fn(self, fx, key, rule, required=True):
        f = fx.fn(key)
        if f is None:
            if required:
                self.anchor(rule, "fn " + key, 0, 1, cfg=fx.cfg)
            return None
        self.bodies.add((fx.cfg, key))
        return f

    # ---- obligations
    def ob(self, rule, key, ok, site="", detail="", nontrivial=True, cfg="default", sample=True):
        """record one obligation. key must not contain line numbers."""
        full = "%s/%s/%s" % (self.prop, rule, key)
        if cfg != "default":
            full += "@" + cfg
        self.obligations.append({
            "rule": rule, "key": full, "ok": bool(ok), "site": site, "detail": detail,
            "nontrivial": nontrivial, "cfg": cfg,
        })
        return bool(ok)

    def anchor(self, rule, what, found, floor, cfg="default"):
        """anchors fail closed: fewer instances than counted by hand is a failed check"""
        ok = found >= floor
        self.ob(rule, "anchor:%s" % what, ok, detail="found %d, floor %d" % (found, floor),
                nontrivial=False, cfg=cfg)
        return ok

    def assume(self, text):
        if text not in self.assumptions:
            self.assumptions.append(text)

    def note(self, k, v):
        self.notes[k] = v


def load_known():
    p = os.path.join(VERIF, "known_findings.json")
    if not os.path.exists(p):
        return {"known": [], "fixed": []}
    with open(p) as f:
        return json.load(f)


def safe_name(key):
    return re.sub(r"[^A-Za-z0-9_.-]+", "_", key)[:150]


def run(prop, tier, seed=0, replay=None):
    t0 = time.time()
    ctx = Ctx(prop, tier)
    evdir = os.environ.get("LPV_EVIDENCE_DIR") or os.path.join(VERIF, "evidence")
    evidence_path = os.path.join(evdir, "%s.json" % prop)
    os.makedirs(os.path.dirname(evidence_path), exist_ok=True)
    try:
        mod = importlib.import_module(prop)
        mod.run(ctx)
    except extract.AnalysisError as e:
        print("ANALYSIS-ERROR %s" % e)
        ev = {
            "property_id": prop, "tier": tier, "seed": seed, "level": "other",
            "coverage": {"explanation": "no verdict: /repo does not type-check under the nightly front end: %s" % e,
                         "evaluations": 0, "distinct_nontrivial": 0},
            "wall_s": round(time.time() - t0, 2), "violations": 0,
        }
        with open(evidence_path, "w") as f:
            json.dump(ev, f, indent=1)
        return 2
    except Exception:
        traceback.print_exc()
        # a crashing rule is an anchor that could not be evaluated: fail closed
        ctx.ob("internal", "rule-crash:" + traceback.format_exc().strip().splitlines()[-1][:120], False,
               detail=traceback.format_exc()[-1500:], nontrivial=False)

    known = load_known()
    known_keys = {k["key"]: k for k in known.get("known", []) if k.get("property") == prop}
    viol = [o for o in ctx.obligations if not o["ok"]]
    if replay:
        with open(replay) as f:
            want = json.load(f).get("key")
        viol = [o for o in viol if o["key"] == want]
    new = [o for o in viol if o["key"] not in known_keys]
    old = [o for o in viol if o["key"] in known_keys]
    vdir = os.path.join(evdir, "violations", prop)
    for o in old:
        print("KNOWN-FINDING: property=%s %s -- %s [%s]" % (prop, o["key"], known_keys[o["key"]].get("what", ""), o["site"]))
    for o in new:
        os.makedirs(vdir, exist_ok=True)
        rp = os.path.join(vdir, safe_name(o["key"]) + ".json")
        with open(rp, "w") as f:
            json.dump(o, f, indent=1)
        print("VIOLATION property=%s replay=%s" % (prop, rp))
        print("  rule=%s key=%s site=%s\n  %s" % (o["rule"], o["key"], o["site"], o["detail"][:600]))

    nontriv = {o["key"] for o in ctx.obligations if o["nontrivial"]}
    samples = []
    seen_rules = {}
    for o in ctx.obligations:
        c = seen_rules.get(o["rule"], 0)
        if c < 3 and o["nontrivial"]:
            seen_rules[o["rule"]] = c + 1
            samples.append({"rule": o["rule"], "key": o["key"], "site": o["site"],
                            "verdict": "holds" if o["ok"] else ("known-finding" if o["key"] in known_keys else "VIOLATION"),
                            "detail": o["detail"][:300]})
    per_rule = {}
    for o in ctx.obligations:
        d = per_rule.setdefault(o["rule"], {"obligations": 0, "violations": 0})
        d["obligations"] += 1
        if not o["ok"]:
            d["violations"] += 1
    ev = {
        "property_id": prop,
        "tier": tier,
        "seed": seed,
        "level": "other",
        "coverage": {
            "explanation": getattr(mod, "EXPLANATION", "") if "mod" in dir() else "",
            "evaluations": len(ctx.obligations),
            "distinct_nontrivial": len(nontriv),
            "rule": "one evaluation = one rule obligation (a path/guard/provenance/who-may statement about a named "
                    "construct of the current source tree); non-trivial = the verdict needed a CFG reachability, "
                    "edge-cut, provenance or table computation (anchor-existence obligations are excluded); "
                    "distinct = distinct obligation keys",
            "samples": samples,
            "obligations": len(ctx.obligations),
            "discharged": len(ctx.obligations) - len(viol),
            "per_rule": per_rule,
            "bodies_analysed": len(ctx.bodies),
            "bodies": sorted({"%s:%s" % (c, k) for c, k in ctx.bodies})[:400],
            "configurations": ctx.configs_used,
            "facts": {c: {"functions": fx.meta.get("n_fn"), "coroutines": fx.meta.get("n_coroutine"),
                          "blocks": fx.meta.get("n_blocks")} for c, fx in ctx._facts.items()},
            "normalisation": {c: {"baseline": fx.normalisation.get("baseline"),
                                  "renamed_fields": fx.normalisation.get("renamed_fields", []),
                                  "renamed_fns": fx.normalisation.get("renamed_fns", []),
                                  "new_fns_inlined_into_their_callers": sorted(fx.hidden())[:60],
                                  "new_fns": len(fx.new_fns),
                                  "baseline_fns_missing": fx.normalisation.get("missing_fns", [])[:40]} for c, fx in ctx._facts.items()},
            "known_findings_reported": len(old),
            "notes": ctx.notes,
            "exhaustive": False,
        },
        "assumptions": ctx.assumptions + [
            "rustc nightly front end + MIR construction are correct; paths are MIR CFG paths without unwind edges",
            "semantics of std/tokio/futures/snow/prost APIs are as named by each rule",
        ],
        "wall_s": round(time.time() - t0, 2),
        "violations": len(new),
    }
    with open(evidence_path, "w") as f:
        json.dump(ev, f, indent=1)
    if os.environ.get("LPV_DUMP_OBS"):
        with open(os.environ["LPV_DUMP_OBS"], "w") as f:
            json.dump([{k: o[k] for k in ("rule", "key", "site", "ok")} for o in ctx.obligations], f)
    print("%s tier=%s obligations=%d discharged=%d known=%d violations=%d bodies=%d wall=%.1fs" % (
        prop, tier, len(ctx.obligations), len(ctx.obligations) - len(viol), len(old), len(new), len(ctx.bodies), time.time() - t0))
    return 1 if new else 0


def main():
    args = sys.argv[1:]
    if not args:
        print(__doc__)
        return 2
    prop = args[0]
    tier = os.environ.get("VERIF_TIER", "quick")
    replay = None
    i = 1
    while i < len(args):
        if args[i] == "--tier":
            tier = args[i + 1]
            i += 2
        elif args[i] == "--replay":
            replay = args[i + 1]
            i += 2
        else:
            i += 1
    seed = int(os.environ.get("VERIF_SEED", "0") or 0)
    return run(prop, tier, seed, replay)


if __name__ == "__main__":
    sys.exit(main())
