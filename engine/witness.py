"""K8 compile-fail witnesses (thorough tier): doctests of /verif/witness/src/lib.rs compiled against the *current* tree of the
analysed repository (a generated harness crate under .cache/witness path-depends on it; its Cargo.lock is copied from the repo).
`compile_fail,E0xxx` is honoured by `cargo +nightly test --doc`; each witness has a compiling twin."""
import os
import re
import shutil
import subprocess

from extract import REPO, CACHE, VERIF


def run():
    """-> {witness_name: {'compile_fail': bool, 'twin': bool}} , raw output tail"""
    d = os.path.join(CACHE, "witness")
    os.makedirs(os.path.join(d, "src"), exist_ok=True)
    with open(os.path.join(d, "Cargo.toml"), "w") as f:
        f.write('[package]\nname = "lpv-witness"\nversion = "0.1.0"\nedition = "2021"\npublish = false\n\n[dependencies]\nlitep2p = { path = "%s" }\n\n[workspace]\n' % REPO)
    shutil.copy(os.path.join(VERIF, "witness", "src", "lib.rs"), os.path.join(d, "src", "lib.rs"))
    shutil.copy(os.path.join(REPO, "Cargo.lock"), os.path.join(d, "Cargo.lock"))
    env = dict(os.environ, CARGO_NET_OFFLINE="true", CARGO_TARGET_DIR=os.path.join(CACHE, "target-witness"))
    env.pop("RUSTC_WORKSPACE_WRAPPER", None)
    p = subprocess.run(["cargo", "+nightly", "test", "--doc", "--offline"], cwd=d, env=env, stdout=subprocess.PIPE, stderr=subprocess.STDOUT, text=True)
    out = {}
    for m in re.finditer(r"test src/lib\.rs - (\w+) \(line \d+\)( - compile fail)? \.\.\. (\w+)", p.stdout):
        w = out.setdefault(m.group(1), {"compile_fail": None, "twin": None})
        w["compile_fail" if m.group(2) else "twin"] = (m.group(3) == "ok")
    return out, p.stdout[-1500:]
