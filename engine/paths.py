"""Interprocedural must-pass-through (K1) with exit-shape summaries and result refinement.

hit(S):   a call whose (declared or resolved) callee matches the regex S, or a call /
          `.await` poll of a crate-local body all of whose exits are hit-covered.
summary:  for a body f: {exit shape -> covered?} where covered means every path from the
          entry of f to an exit site of that shape passes a hit.  Computed with a depth
          bound (DESIGN section 2); recursion / unknown callees count as not covered.
refine:   when a callee is covered for some exit shapes only, the caller is explored once
          per uncovered shape with the switches that decide on the call's result pruned to
          the edges compatible with that shape (constructor chain matching through moves,
          downcast field reads, `Try::branch`, `Not`)."""
import re
from cfg import Call, op_place
from facts import norm

POLL_RX = re.compile(r"(^|::)Future::poll$|as (std|core)::future::Future>::poll$")
TRY_BRANCH_RX = re.compile(r"Try::branch$|as std::ops::Try>::branch$")

MAX_DEPTH = 4


def chain_of(shape):
    """'Ok.const:1' -> ['Ok', 'const:1']"""
    return shape.split(".")


class Inter:
    def __init__(self, fx, hit_rx, extra_hit=None, depth=MAX_DEPTH, opaque_rx=None):
        self.fx = fx
        self.hit_rx = re.compile(hit_rx) if isinstance(hit_rx, str) else hit_rx
        self.extra_hit = extra_hit      # optional predicate(fn, node) -> bool
        self.depth = depth
        self.opaque_rx = re.compile(opaque_rx) if opaque_rx else None
        self._sum = {}
        self._stack = []
        self.visited_bodies = set()

    # ---------------------------------------------------------------- callee lookup
    def callee_body(self, c):
        """crate-local body executed by call c (direct call, or poll of a local coroutine)"""
        for n in (c.res, c.raw_def):
            if not n:
                continue
            if self.fx.has(n):
                return self.fx.fn(n)
        # `x.into()` / `x.try_into()` run the blanket impl, whose body is the crate's own `From` / `TryFrom` impl for the two types
        m = re.search(r"(Try)?Into<.*>>?::(try_)?into$", c.name or "")
        ty = (c.f or {}).get("args") or []
        if m and len(ty) == 2:
            k = "<%s as std::convert::%sFrom<%s>>::%sfrom" % (ty[1], m.group(1) or "", ty[0], m.group(2) or "")
            if self.fx.has(k):
                return self.fx.fn(k)
        return None

    def is_hit_call(self, c):
        return c.matches(self.hit_rx)

    # ---------------------------------------------------------------- summaries
    def summary(self, fn, depth=None):
        """{shape: covered(bool)} for every exit shape of fn"""
        depth = self.depth if depth is None else depth
        key = fn.key
        if key in self._sum:
            return self._sum[key]
        if key in self._stack or depth < 0:
            return None   # recursion / too deep: unknown => caller treats as not covered
        self._stack.append(key)
        try:
            self.visited_bodies.add(key)
            res = {}
            bad = self.uncovered_exits(fn, [fn.entry], depth=depth - 1)
            bad_nodes = {}
            for node, shapes, path in bad:
                bad_nodes[node] = shapes
            for node, shapes in fn.exits():
                for s in shapes:
                    cov = node not in bad_nodes
                    res[s] = res.get(s, True) and cov
            self._sum[key] = res
            return res
        finally:
            self._stack.pop()

    # ---------------------------------------------------------------- core search
    def classify_call(self, fn, c, depth):
        """-> ('hit',) | ('pass',) | ('split', {shape: covered}, is_poll)"""
        if self.is_hit_call(c):
            return ("hit",)
        if self.extra_hit and self.extra_hit(fn, c.node):
            return ("hit",)
        if self.opaque_rx and c.matches(self.opaque_rx):
            return ("pass",)
        body = self.callee_body(c)
        if body is None or body.key == fn.key:
            return ("pass",)
        is_poll = bool(c.matches(POLL_RX)) and body.is_coroutine
        if body.is_coroutine and not is_poll:
            return ("pass",)
        s = self.summary(body, depth)
        if not s:
            return ("pass",)
        if all(s.values()):
            return ("hit",)
        if not any(s.values()):
            return ("pass",)
        return ("split", s, is_poll)

    def uncovered_exits(self, fn, starts, exit_cls=None, depth=None, after=False, stop=()):
        """exit sites of fn (of class exit_cls) reachable from `starts` without a hit.
        -> list of (exit_node, shapes, witness_path_nodes)"""
        depth = self.depth if depth is None else depth
        targets = dict(fn.exits(exit_cls))
        rets = set(fn.return_nodes())
        # state: (node, ctxid); ctx = frozenset of cut edges
        from collections import deque
        ctxs = {0: frozenset()}
        ctx_ids = {frozenset(): 0}
        par = {}
        dq = deque()
        stop = set(stop)

        def push(state, parent):
            if state not in par:
                par[state] = parent
                dq.append(state)

        if after:
            for s in starts:
                for n, l in fn.succs(s):
                    push((n, 0), None)
        else:
            for s in starts:
                push((s, 0), None)
        found = {}
        cls_cache = {}
        while dq:
            st = dq.popleft()
            node, cid = st
            cuts = ctxs[cid]
            if node in stop:
                continue
            if node in targets and node not in found:
                # exit site must still reach a Return without passing a hit afterwards:
                if self._reaches_return(fn, node, cuts, depth, cls_cache):
                    found[node] = st
            if fn.is_term(node) and fn.term(node[0])["k"] == "call":
                c = fn.call_at(node)
                k = cls_cache.get(node)
                if k is None:
                    k = self.classify_call(fn, c, depth)
                    cls_cache[node] = k
                if k[0] == "hit":
                    continue
                if k[0] == "split":
                    _, summ, is_poll = k
                    for shape, cov in summ.items():
                        if cov:
                            continue
                        chain = chain_of(shape)
                        if is_poll:
                            chain = ["Ready"] + chain
                        ncuts = frozenset(refine_cuts(fn, c, chain))
                        if ncuts not in ctx_ids:
                            ctx_ids[ncuts] = len(ctxs)
                            ctxs[ctx_ids[ncuts]] = ncuts
                        ncid = ctx_ids[ncuts]
                        for m, l in fn.succs(node):
                            if (node, l) not in ncuts:
                                push((m, ncid), st)
                    continue
            for m, l in fn.succs(node):
                if (node, l) in cuts:
                    continue
                push((m, cid), st)
        out = []
        for node, st in found.items():
            path = []
            cur = st
            while cur is not None:
                path.append(cur[0])
                cur = par.get(cur)
            out.append((node, targets[node], list(reversed(path))))
        return out

    def _reaches_return(self, fn, node, cuts, depth, cls_cache):
        """can a Return be reached from `node` (exclusive) without a hit"""
        seen = set()
        work = [n for n, l in fn.succs(node) if (node, l) not in cuts]
        if fn.is_term(node) and fn.term(node[0])["k"] == "return":
            return True
        while work:
            n = work.pop()
            if n in seen:
                continue
            seen.add(n)
            if fn.is_term(n):
                t = fn.term(n[0])
                if t["k"] == "return":
                    return True
                if t["k"] == "call":
                    k = cls_cache.get(n)
                    if k is None:
                        k = self.classify_call(fn, fn.call_at(n), depth)
                        cls_cache[n] = k
                    if k[0] == "hit":
                        continue
            for m, l in fn.succs(n):
                if (n, l) not in cuts:
                    work.append(m)
        return False


_HEAD = {"residual": "Err"}


def _combinator(c):
    """value-shape transfer functions of Option/Result combinators (constructor chain -> chain)"""
    n = c.name or ""
    def head(ch):
        return _HEAD.get(ch[0], ch[0])
    if re.search(r"option::Option::(ok_or|ok_or_else)$", n):
        return lambda ch: (["Ok"] + ch[1:]) if head(ch) == "Some" else (["Err", "?"] if head(ch) == "None" else None)
    if re.search(r"option::Option::(copied|cloned|as_ref|as_mut|take)$|result::Result::(as_ref|as_mut|copied|cloned|inspect_err|inspect)$", n):
        return lambda ch: list(ch)
    if re.search(r"result::Result::ok$", n):
        return lambda ch: (["Some"] + ch[1:]) if head(ch) == "Ok" else (["None"] if head(ch) == "Err" else None)
    if re.search(r"result::Result::err$", n):
        return lambda ch: (["None"]) if head(ch) == "Ok" else (["Some", "?"] if head(ch) == "Err" else None)
    if re.search(r"result::Result::map_err$", n):
        return lambda ch: list(ch) if head(ch) == "Ok" else (["Err", "?"] if head(ch) == "Err" else None)
    if re.search(r"result::Result::map$|option::Option::map$", n):
        return lambda ch: [head(ch), "?"] if head(ch) in ("Ok", "Some") else ([head(ch)] + ch[1:] if head(ch) in ("Err", "None") else None)
    if re.search(r"result::Result::is_ok$", n):
        return lambda ch: ["const:1"] if head(ch) == "Ok" else (["const:0"] if head(ch) == "Err" else None)
    if re.search(r"result::Result::is_err$", n):
        return lambda ch: ["const:0"] if head(ch) == "Ok" else (["const:1"] if head(ch) == "Err" else None)
    if re.search(r"option::Option::is_some$", n):
        return lambda ch: ["const:1"] if head(ch) == "Some" else (["const:0"] if head(ch) == "None" else None)
    if re.search(r"option::Option::is_none$", n):
        return lambda ch: ["const:0"] if head(ch) == "Some" else (["const:1"] if head(ch) == "None" else None)
    return None


def refine_cuts(fn, call, chain):
    """edges (switch_node, label) that are infeasible when `call` returned a value whose
    constructor chain is `chain` (e.g. ['Ready','Ok','const:1'])"""
    bound = {}   # local -> chain (list)
    refs = {}    # ref temp -> local it borrows (whole)
    dest = call.dest
    if len(dest) != 1:
        return set()
    bound[dest[0]] = list(chain)
    cuts = set()
    changed = True
    rounds = 0
    stmts = list(fn.assigns(live_only=False))
    calls = fn.calls(live_only=False)

    def chain_at(p):
        """chain of place p if resolvable from a bound local"""
        base = p[0]
        proj = p[1:]
        if base in refs and proj and proj[0] == "*":
            base = refs[base]
            proj = proj[1:]
        elif base in refs and not proj:
            base = refs[base]
        ch = bound.get(base)
        if ch is None:
            return None
        ch = list(ch)
        i = 0
        while i < len(proj):
            e = proj[i]
            if e.startswith("@"):
                if not ch or ch[0] != e[1:]:
                    return "infeasible"
                # following field (single payload field assumed)
                if i + 1 < len(proj) and proj[i + 1].startswith("."):
                    ch = ch[1:]
                    i += 2
                    continue
                return None
            if e == "*":
                i += 1
                continue
            return None
        return ch

    while changed and rounds < 12:
        changed = False
        rounds += 1
        for node, s in stmts:
            if len(s["lhs"]) != 1:
                continue
            x = s["lhs"][0]
            if x in bound or x in refs:
                continue
            if fn.single_def(x) is None:
                continue
            rv = s["rv"]
            if rv["r"] == "use":
                p = op_place(rv["o"])
                if p is None:
                    continue
                ch = chain_at(p)
                if ch and ch != "infeasible":
                    bound[x] = ch
                    changed = True
            elif rv["r"] == "ref":
                p = rv["p"]
                if len(p) == 1 and p[0] in bound:
                    refs[x] = p[0]
                    changed = True
                elif len(p) == 2 and p[1] == "*" and p[0] in refs:
                    refs[x] = refs[p[0]]
                    changed = True
            elif rv["r"] == "un" and rv["op"] == "Not":
                p = op_place(rv["o"])
                if p is not None and len(p) == 1 and p[0] in bound:
                    ch = bound[p[0]]
                    if ch and ch[0] in ("const:0", "const:1"):
                        bound[x] = ["const:%d" % (1 - int(ch[0][6:]))]
                        changed = True
        for c in calls:
            if len(c.dest) != 1 or c.dest[0] in bound:
                continue
            if fn.single_def(c.dest[0]) is None:
                continue
            comb = _combinator(c)
            if comb is not None and c.args:
                p = op_place(c.args[0])
                if p is None:
                    continue
                ch = chain_at(p)
                if ch and ch != "infeasible":
                    nch = comb(ch)
                    if nch is not None:
                        bound[c.dest[0]] = nch
                        changed = True
                continue
            if c.matches(TRY_BRANCH_RX) and c.args:
                p = op_place(c.args[0])
                if p is None:
                    continue
                ch = chain_at(p)
                if ch and ch != "infeasible":
                    head = ch[0]
                    if head in ("Ok", "Some"):
                        bound[c.dest[0]] = ["Continue"] + ch[1:]
                        changed = True
                    elif head in ("Err", "None", "residual"):
                        bound[c.dest[0]] = ["Break", "?"]
                        changed = True
                    elif head == "Ready":
                        # Poll<Result<..>>: Try for Poll maps Ready(Ok(x)) -> Continue(Ready(x))
                        pass
    # now prune switches
    for node in fn.all_nodes():
        if not fn.is_term(node):
            continue
        t = fn.term(node[0])
        if t["k"] != "switch":
            continue
        p = op_place(t["o"])
        if p is None or len(p) != 1:
            continue
        loc = p[0]
        if loc in bound:
            ch = bound[loc]
            if ch and ch[0].startswith("const:"):
                try:
                    v = int(ch[0][6:])
                except ValueError:
                    continue
                labels = [l for (n, l) in fn.succs(node)]
                keep = [l for l in labels if l[1] == v]
                if not keep:
                    keep = [l for l in labels if l[1] == "otherwise"]
                for l in labels:
                    if l not in keep:
                        cuts.add((node, l))
            continue
        d = fn.single_def(loc)
        if d is None or d[1] != "assign":
            continue
        rv = d[2]["rv"]
        if rv["r"] != "discr":
            continue
        ch = chain_at(rv["p"])
        if not ch or ch == "infeasible":
            continue
        head = ch[0]
        if head == "residual":
            head = "Err"
        vars_ = rv.get("vars", {})
        names = set(vars_.values())
        if head not in names:
            continue
        labels = [l for (n, l) in fn.succs(node)]
        want = None
        for v, nm in vars_.items():
            if nm == head:
                want = int(v)
        keep = [l for l in labels if l[1] == want]
        if not keep:
            keep = [l for l in labels if l[1] == "otherwise"]
        for l in labels:
            if l not in keep:
                cuts.add((node, l))
    return cuts


# ---------------------------------------------------------------------------------------
# region rules (K4 exactly-one-of, region must-hit, reachability under an assumed result)

def region_ends(fn, start):
    """nodes that end the region opened at `start`: function exits (Return terminators) and
    `start` itself (the enclosing loop came around)"""
    return set(fn.return_nodes()) | {start}


def region_uncovered(fn, start, hits, cuts=(), extra_ends=()):
    """witness path from `start` (exclusive) to a region end that avoids all `hits`, or None"""
    ends = region_ends(fn, start) | set(extra_ends)
    return fn.witness_path([start], ends, avoid=set(hits), cut=cuts, after=True)


def region_second_hit(fn, start, hits, cuts=()):
    """(h1, h2, path) if after hit h1 another hit is reachable before the region ends"""
    hits = set(hits)
    for h in sorted(hits):
        r = fn.witness_path([h], hits, avoid={start}, cut=cuts, after=True)
        if r is not None:
            return h, r[-1], r
    return None


def reachable_given(fn, call, chain, targets, stop_at_call=True):
    """nodes of `targets` reachable after `call` when its result has constructor chain `chain`"""
    cuts = refine_cuts(fn, call, chain)
    r = fn.reach([call.node], cut=cuts, after=True, stop=[call.node] if stop_at_call else ())
    return [t for t in targets if t in r], cuts
