"""K6: symbolic description of operands, comparison / discriminant / loop-range facts, and the set of facts that *dominate* a
site (hold on every CFG path from the function entry to the site).

A fact is a triple (A, rel, B) of operand descriptions with rel in < <= > >= == !=, or (X, 'is', Variant) for a discriminant,
or (I, 'in', 'A..B') for the induction variable of a `for` over a Range.  Descriptions use the variable names of the source
(debug info), field paths, constant names/values and `len(..)` / short call names for temporaries, never line numbers."""
import re
from cfg import op_place, Call
from guards import OPS, CALL_OPS, NEG, SWAP

MAXD = 7


def short_call(name):
    n = re.sub(r"<impl [^>]*>::", "", name or "?")
    parts = n.split("::")
    return "::".join(parts[-2:]) if len(parts) >= 2 else n


class Desc:
    def __init__(self, fn, expand=False):
        """expand: a *named* local that is assigned exactly once (a `let` binding of a sub-expression) is described by its definition
        instead of its name, so that binding a sub-expression to a local (or not) gives the same description"""
        self.fn = fn
        self.expand = expand
        self._memo = {}

    def place(self, p, depth=0):
        fn = self.fn
        base = p[0]
        proj = [x for x in p[1:]]
        nm = fn.names.get(base)
        if base == 1 and fn.upvar_names:
            pr = tuple(proj)
            for ln in range(len(pr), 0, -1):
                u = fn.upvar_names.get(pr[:ln])
                if u is not None:
                    return u + self._proj(pr[ln:])
        if nm and self.expand and not (1 <= base <= fn.argc) and depth < MAXD:
            d0 = fn.single_def(base)
            kinds = ("bin", "len") if self.expand == "computed" else ("use", "cast", "bin", "len", "ref")
            if d0 is not None and (d0[1] == "call" or (d0[1] == "assign" and d0[2]["rv"]["r"] in kinds)):
                nm = None
        if nm:
            return nm + self._proj(proj)
        if 1 <= base <= fn.argc:
            return (nm or "arg%d" % base) + self._proj(proj)
        if depth >= MAXD:
            return (nm or "_%d" % base) + self._proj(proj)
        d = fn.single_def(base)
        if d is None:
            return (nm or "_%d" % base) + self._proj(proj)
        node, kind, pl = d
        if kind == "call":
            c = Call(fn, node, pl)
            return self.call(c, depth + 1) + self._proj(proj)
        if kind == "assign":
            rv = pl["rv"]
            inner = self.rvalue(rv, depth + 1)
            if nm and rv["r"] not in ("use", "ref", "cast") and not self.expand:
                inner = nm
            if proj and proj[0] == "*" and inner.startswith("&"):
                return inner[1:] + self._proj(proj[1:])
            # checked arithmetic: (x, overflow).0
            if proj and proj[0] == ".0" and rv["r"] == "bin" and rv["op"].endswith("WithOverflow"):
                return inner + self._proj(proj[1:])
            return inner + self._proj(proj)
        return (nm or "_%d" % base) + self._proj(proj)

    def _proj(self, proj):
        out = ""
        for x in proj:
            if x == "*":
                continue
            out += x
        return out

    def op(self, o, depth=0):
        k = o.get("k")
        if k is not None:
            if "cdef" in k:
                return k["cdef"].split("::")[-1]
            if "v" in k:
                return str(k["v"])
            if "fn" in k:
                return "fn:" + short_call(k["fn"])
            s = k.get("s", "?")
            return "const<%s>" % s[:24]
        p = op_place(o)
        if p is None:
            return "?"
        return self.place(p, depth)

    def rvalue(self, rv, depth):
        r = rv["r"]
        if r in ("use", "cast"):
            return self.op(rv["o"], depth)
        if r == "ref":
            return "&" + self.place(rv["p"], depth)
        if r == "bin":
            op = rv["op"].replace("WithOverflow", "")
            sym = {"Add": "+", "Sub": "-", "Mul": "*", "Div": "/", "Rem": "%", "Shl": "<<", "Shr": ">>", "BitAnd": "&", "BitOr": "|", "BitXor": "^"}.get(op, op)
            return "(%s%s%s)" % (self.op(rv["a"], depth), sym, self.op(rv["b"], depth))
        if r == "un":
            return "%s(%s)" % (rv["op"], self.op(rv["o"], depth))
        if r == "agg":
            nm = rv["adt"].split("::")[-1]
            if "var" in rv:
                nm = rv["var"]
            return "%s(%s)" % (nm, ",".join(self.op(o, depth) for o in rv["ops"][:3]))
        if r == "discr":
            return "discr(%s)" % self.place(rv["p"], depth)
        if r == "len":
            return "len(%s)" % self.place(rv["p"], depth)
        return rv.get("s", r)[:20]

    def call(self, c, depth):
        nm = c.name or "?"
        if re.search(r"(^|::)len$", nm) and c.args:
            return "len(%s)" % self.op(c.args[0], depth).lstrip("&")
        if re.search(r"Deref(Mut)?>?::deref(_mut)?$|::as_ref$|::as_mut$|::borrow$|AsRef<.*>>::as_ref$|::as_slice$|::as_bytes$|Pin::(into_inner|get_mut|new|as_mut)$|::into$|convert::From<.*>>::from$|Clone>?::clone$", nm) and c.args:
            return self.op(c.args[0], depth)
        if re.search(r"ops::Index(Mut)?(<.*>)?>?::index(_mut)?$|slice::index::index(_mut)?$|array::index(_mut)?$", nm) and len(c.args) >= 2:
            return "%s[%s]" % (self.op(c.args[0], depth).lstrip("&"), self.op(c.args[1], depth))
        s = short_call(nm)
        if c.args:
            return "%s(%s)" % (s, self.op(c.args[0], depth).lstrip("&"))
        return s + "()"


def canon(a, rel, b):
    if rel in ("is", "in"):
        return (a, rel, b)
    if a > b:
        a, b, rel = b, a, SWAP[rel]
    return (a, rel, b)


def _nonempty_array_ref(fn, o, depth=0):
    """operand is a reference to an array of at least one element (possibly unsized to a slice): `b"/"`, `&[1, 2]`"""
    p = op_place(o)
    if p is None or depth > 5:
        k = o.get("k") if isinstance(o, dict) else None
        return False
    m = re.match(r"^&(?:'\w+ )?(?:mut )?\[[^;\]]+; (\d+)\]$", fn.locals[p[0]])
    if m:
        return int(m.group(1)) >= 1
    d = fn.single_def(p[0])
    if d is None or d[1] != "assign":
        return False
    rv = d[2]["rv"]
    if rv["r"] in ("use", "cast"):
        return _nonempty_array_ref(fn, rv["o"], depth + 1)
    if rv["r"] == "ref":
        q = rv["p"]
        return _nonempty_array_ref(fn, {"c": [q[0]]}, depth + 1) if q else False
    return False


class Facts6:
    """facts of one body"""

    def __init__(self, fn):
        self.fn = fn
        self.d = Desc(fn)
        self.dx = Desc(fn, expand=True)
        # third vocabulary: only locals that hold a *computed* value (`let copy_size = pending[offset..size].len()`) are replaced by
        # their definition; pattern bindings keep their names
        self.dc = Desc(fn, expand="computed")
        self._cmps = None
        self._dis = None
        self._loops = None

    def cmps(self):
        """[(tests, A, rel_when_true, B)]"""
        if self._cmps is None:
            fn = self.fn
            out = []
            for node, s in fn.assigns():
                rv = s["rv"]
                if rv["r"] == "bin" and rv["op"] in OPS and len(s["lhs"]) == 1:
                    tests = fn.bool_tests(s["lhs"][0])
                    if tests:
                        for da in (self.d, self.dx, self.dc):
                            for db in (self.d, self.dx, self.dc):
                                e = (tests, da.op(rv["a"]), OPS[rv["op"]], db.op(rv["b"]))
                                if e not in out:
                                    out.append(e)
            for c in fn.calls(r"cmp::Partial(Ord|Eq)(<.*>)?>?::(lt|le|gt|ge|eq|ne)$|::(lt|le|gt|ge|eq|ne)$"):
                m = c.name.rsplit("::", 1)[-1]
                if m in CALL_OPS and len(c.args) == 2 and len(c.dest) == 1:
                    tests = fn.bool_tests(c.dest[0])
                    if tests:
                        for da in (self.d, self.dx, self.dc):
                            for db in (self.d, self.dx, self.dc):
                                e = (tests, da.op(c.args[0]).lstrip("&"), CALL_OPS[m], db.op(c.args[1]).lstrip("&"))
                                if e not in out:
                                    out.append(e)
            # is_empty / is_some style predicates
            for c in fn.calls(r"::is_empty$"):
                tests = fn.bool_tests(c.dest[0]) if len(c.dest) == 1 else []
                if tests and c.args:
                    for d in (self.d, self.dx):
                        e = (tests, "len(%s)" % d.op(c.args[0]).lstrip("&"), "==", "0")
                        if e not in out:
                            out.append(e)
            self._cmps = out
        return self._cmps

    def discrs(self):
        if self._dis is None:
            fn = self.fn
            out = []
            for sw in fn.discr_switches():
                node, place, adt, m, other, other_vars = sw
                out.append((sw, self.d.place(place)))
                if self.dx.place(place) != self.d.place(place):
                    out.append((sw, self.dx.place(place)))
            self._dis = out
        return self._dis

    def loops(self):
        """induction variables of `for i in a..b`: [(next_call, switch, var_desc, range_desc)]"""
        if self._loops is None:
            fn = self.fn
            out = []
            for c in fn.calls(r"iter::range::(<impl .*>::)?next$|Range<.*> as .*Iterator>::next$|ops::Range.*::next$"):
                # the iterator local
                it = None
                a = c.args[0] if c.args else None
                if a is None:
                    continue
                org = fn.origin(a).lstrip("&")
                m = re.match(r"^_(\d+)$", org)
                if not m:
                    continue
                itl = int(m.group(1))
                # find the Range aggregate feeding into_iter -> itl
                rng = None
                work = [itl]
                seen = set()
                while work:
                    l = work.pop()
                    if l in seen:
                        continue
                    seen.add(l)
                    for node, kind, pl in fn.defs().get(l, []):
                        if kind == "assign" and pl["rv"]["r"] == "agg" and pl["rv"]["adt"].endswith("ops::Range"):
                            rng = pl["rv"]
                        elif kind == "assign" and pl["rv"]["r"] == "use":
                            p = op_place(pl["rv"]["o"])
                            if p:
                                work.append(p[0])
                        elif kind == "call":
                            cc = Call(fn, node, pl)
                            if cc.matches(r"IntoIterator>?::into_iter$|Iterator>?::rev$") and cc.args:
                                p = op_place(cc.args[0])
                                if p:
                                    work.append(p[0])
                if rng is None:
                    continue
                sws = [sw for sw in fn.discr_switches() if sw[1][0] in fn.copies_of(c.dest[0]) and len(sw[1]) == 1]
                if not sws:
                    continue
                out.append((c, sws[0], "%s..%s" % (self.d.op(rng["ops"][0]), self.d.op(rng["ops"][1]))))
                rx = "%s..%s" % (self.dx.op(rng["ops"][0]), self.dx.op(rng["ops"][1]))
                if rx != out[-1][2]:
                    out.append((c, sws[0], rx))
            self._loops = out
        return self._loops

    def dominating(self, site):
        """set of facts that hold on every path from entry to `site`"""
        fn = self.fn
        out = set()
        for tests, a, rel, b in self.cmps():
            for sw, t, f in tests:
                if sw == site:
                    continue
                if fn.only_via(site, sw, [t]):
                    out.add(canon(a, rel, b))
                elif fn.only_via(site, sw, [f]):
                    out.add(canon(a, NEG[rel], b))
        for sw, pd in self.discrs():
            if sw[0] == site:
                continue
            for v in list(sw[3].keys()) + list(sw[5]):
                e = fn.variant_edges(sw, v)
                if e and len(e) == 1 and fn.only_via(site, sw[0], e):
                    # only a fact if no other variant shares the edge
                    sharers = [w for w in list(sw[3].keys()) + list(sw[5]) if w != v and set(fn.variant_edges(sw, w)) & set(e)]
                    if not sharers:
                        out.add((pd, "is", v))
        # `s.starts_with(P)` / `s.ends_with(P)` holds for a non-empty constant pattern P  =>  s is not empty
        for c in fn.calls(r"slice::(<impl \[T\]>::)?(starts_with|ends_with)$|str::(<impl str>::)?(starts_with|ends_with)$"):
            if len(c.args) != 2 or len(c.dest) != 1 or not _nonempty_array_ref(fn, c.args[1]):
                continue
            for sw, t, f in fn.bool_tests(c.dest[0]):
                if sw != site and fn.only_via(site, sw, [t]):
                    for d in (self.d, self.dx):
                        out.add(canon("0", "!=", "len(%s)" % d.op(c.args[0]).lstrip("&")))
        # `s.last()` / `s.first()` is Some  =>  s is not empty (whether tested with `== Some(..)`, `matches!`, `if let Some(..)`)
        for f in list(out):
            a, rel, b = f
            for x, y in ((a, b), (b, a)):
                m = re.match(r"^slice::(last|first)\((.*)\)$", x)
                if m and ((rel == "==" and isinstance(y, str) and y.startswith("Some(")) or (rel == "is" and y == "Some")):
                    out.add(canon("0", "!=", "len(%s)" % m.group(2)))
        for c, sw, rng in self.loops():
            e = fn.variant_edges(sw, "Some")
            if e and fn.only_via(site, sw[0], e):
                var = None
                for node, s in fn.assigns():
                    if s["rv"]["r"] == "use":
                        p = op_place(s["rv"]["o"])
                        if p and p[0] == c.dest[0] and "@Some" in "".join(map(str, p[1:])) and len(s["lhs"]) == 1:
                            var = fn.names.get(s["lhs"][0]) or "_%d" % s["lhs"][0]
                if var:
                    out.add((var, "in", rng))
                    # i in A..B  =>  i < B;  i < min(X, ..)  =>  i < X
                    hi = rng.split("..", 1)[1] if ".." in rng else None
                    if hi:
                        out.add(canon(var, "<", hi))
                        m = re.match(r"^cmp::min\((.*)\)$", hi)
                        if m:
                            out.add(canon(var, "<", m.group(1)))
        # an index handed out by an iterator over a slice is inside the slice: `for (i, x) in s.iter()..enumerate()`, and the Some
        # payload of `s.iter()..position(..)` (adaptors in between may only drop items)
        for c in fn.calls(r"Iterator>?::position$|Iterator>?::next$"):
            if not c.args or len(c.dest) != 1:
                continue
            is_pos = c.name.endswith("::position")
            rs = fn.roots(c.args[0])
            calls_ = [r[1] for r in rs if r[0] in ("call", "mutcall")]
            src = [x for x in calls_ if re.search(r"slice::(<impl \[T\]>::)?iter$|Vec(<.*>)?::iter$", x)]
            # (adaptors that can only drop items keep the index inside the slice; anything that adds items does not)
            if not src or any(re.search(r"Iterator>?::(chain|flat_map|flatten|cycle|scan|intersperse|zip)$|iter::(repeat|repeat_with|successors|from_fn|once)", x) for x in calls_):
                continue
            if not is_pos and not any(x.endswith("::enumerate") for x in calls_):
                continue
            ic = [k for k in fn.calls(r"slice::(<impl \[T\]>::)?iter$|Vec(<.*>)?::iter$") if ("call", k.name) in rs]
            if len(ic) != 1:
                continue
            for sw in fn.discr_switches():
                if not (sw[1] and sw[1][0] in (fn.copies_of(c.dest[0]) | {c.dest[0]}) and len(sw[1]) == 1):
                    continue
                e = [l for l in fn.variant_edges(sw, "Some") if l not in fn.variant_edges(sw, "None")]
                if not e or sw[0] == site or not fn.only_via(site, sw[0], e):
                    continue
                want = "@Some.0" if is_pos else "@Some.0.0"
                for node, s_ in fn.assigns():
                    if s_["rv"]["r"] == "use" and len(s_["lhs"]) == 1:
                        p = op_place(s_["rv"]["o"])
                        if p and p[0] in (fn.copies_of(c.dest[0]) | {c.dest[0]}) and "".join(map(str, p[1:])) == want:
                            var = fn.names.get(s_["lhs"][0]) or "_%d" % s_["lhs"][0]
                            for d in (self.d, self.dx):
                                out.add(canon(var, "<", "len(%s)" % d.op(ic[0].args[0]).lstrip("&")))
        return out
