"""Fact extraction: runs the rustc_private driver over /repo's current working tree.

Facts are cached under /verif/.cache/facts/<cfg>-<treehash>.jsonl, keyed by a hash of
every build input (sources, manifests, driver binary, feature configuration)."""
import fcntl
import glob
import hashlib
import os
import shutil
import subprocess
import sys
import time

VERIF = os.path.dirname(os.path.dirname(os.path.abspath(__file__)))
REPO = os.environ.get("LPV_REPO", "/repo")
CACHE = os.path.join(VERIF, ".cache")
DRIVER = os.path.join(VERIF, "driver", "target", "release", "lpv-driver")

CONFIGS = {
    "default": [],
    "all": ["--all-features"],
}


class AnalysisError(Exception):
    pass


def _sysroot():
    return subprocess.check_output(["rustc", "+nightly", "--print", "sysroot"], text=True).strip()


def tree_hash(cfg, repo=REPO):
    h = hashlib.sha256()
    h.update(cfg.encode())
    files = []
    for root, dirs, names in os.walk(os.path.join(repo, "src")):
        dirs.sort()
        for n in sorted(names):
            files.append(os.path.join(root, n))
    for n in ("build.rs", "Cargo.toml", "Cargo.lock"):
        p = os.path.join(repo, n)
        if os.path.exists(p):
            files.append(p)
    files.append(DRIVER)
    for p in files:
        h.update(p.encode())
        with open(p, "rb") as f:
            h.update(hashlib.sha256(f.read()).digest())
    return h.hexdigest()[:20]


def ensure_driver():
    if not os.path.exists(DRIVER):
        subprocess.check_call(
            ["cargo", "+nightly", "build", "--release", "--offline", "--manifest-path",
             os.path.join(VERIF, "driver", "Cargo.toml")],
            env=dict(os.environ, CARGO_NET_OFFLINE="true"))


def facts_path(cfg, repo=REPO, crate="litep2p", aliases=None):
    """Return the path of the fact file for the current tree, extracting if necessary.  `aliases`: lines of the rename
    canonicalisation (engine/normalise.py) handed to the driver; they are part of the cache key."""
    ensure_driver()
    os.makedirs(os.path.join(CACHE, "facts"), exist_ok=True)
    th = tree_hash(cfg, repo)
    afile = None
    if aliases:
        text = "".join(l + "\n" for l in sorted(aliases))
        ah = hashlib.sha256(text.encode()).hexdigest()[:12]
        afile = os.path.join(CACHE, "facts", "aliases-%s.txt" % ah)
        if not os.path.exists(afile):
            with open(afile + ".tmp%d" % os.getpid(), "w") as f:
                f.write(text)
            os.rename(afile + ".tmp%d" % os.getpid(), afile)
        th = th + "-a" + ah
    out = os.path.join(CACHE, "facts", "%s-%s.jsonl" % (cfg, th))
    if os.path.exists(out):
        os.utime(out)
        return out
    lock = open(os.path.join(CACHE, "extract-%s.lock" % cfg), "w")
    fcntl.flock(lock, fcntl.LOCK_EX)
    try:
        if os.path.exists(out):
            return out
        _extract(cfg, repo, crate, out, afile)
        _prune()
        return out
    finally:
        fcntl.flock(lock, fcntl.LOCK_UN)
        lock.close()


def _extract(cfg, repo, crate, out, afile=None):
    t0 = time.time()
    target = os.path.join(CACHE, "target-%s" % cfg)
    os.makedirs(target, exist_ok=True)
    # force cargo to re-run the wrapper for the workspace member (no stale replay)
    for prof in glob.glob(os.path.join(target, "debug", ".fingerprint", crate + "-*")):
        shutil.rmtree(prof, ignore_errors=True)
    tmpdir = os.path.join(CACHE, "facts", "tmp-%s-%d" % (cfg, os.getpid()))
    shutil.rmtree(tmpdir, ignore_errors=True)
    os.makedirs(tmpdir)
    env = dict(os.environ)
    env.update({
        "LD_LIBRARY_PATH": _sysroot() + "/lib",
        "RUSTFLAGS": "-Zmir-opt-level=0 -Awarnings",
        "RUSTC_WORKSPACE_WRAPPER": DRIVER,
        "LPV_OUT": tmpdir,
        "LPV_CRATE": crate,
        "CARGO_TARGET_DIR": target,
        "CARGO_NET_OFFLINE": "true",
    })
    env.pop("RUSTC_WRAPPER", None)
    env.pop("LPV_ALIASES", None)
    if afile:
        env["LPV_ALIASES"] = afile
    cmd = ["cargo", "+nightly", "check", "--offline", "--lib"] + CONFIGS[cfg]
    p = subprocess.run(cmd, cwd=repo, env=env, stdout=subprocess.PIPE, stderr=subprocess.STDOUT, text=True)
    produced = os.path.join(tmpdir, "facts-%s.jsonl" % crate)
    if p.returncode != 0 or not os.path.exists(produced):
        first = ""
        for line in p.stdout.splitlines():
            if line.startswith("error") or "panicked" in line:
                first = line
                break
        shutil.rmtree(tmpdir, ignore_errors=True)
        raise AnalysisError("cargo check (%s) failed: %s" % (cfg, first or p.stdout[-400:]))
    os.rename(produced, out)
    shutil.rmtree(tmpdir, ignore_errors=True)
    sys.stderr.write("[extract] %s facts in %.1fs -> %s\n" % (cfg, time.time() - t0, out))


def _prune(keep=24):
    for cfg in CONFIGS:
        fs = sorted(glob.glob(os.path.join(CACHE, "facts", cfg + "-*.jsonl")), key=os.path.getmtime, reverse=True)
        for f in fs[keep:]:
            try:
                os.remove(f)
            except OSError:
                pass


if __name__ == "__main__":
    for c in sys.argv[1:] or ["default"]:
        print(facts_path(c))
