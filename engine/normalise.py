"""Baseline-relative normalisation of the facts (DESIGN.md section 8.2).

The rules name functions and fields.  They were confirmed against one tree (the *baseline*: `rules/baseline/<cfg>.json`, regenerated
with tools/gen_baseline.py whenever /repo moves by one of our own commits).  A later tree may differ from the baseline by edits that
do not change behaviour but change names or the place where code lives:

  * a private field or a function is renamed            -> the facts are re-extracted under the baseline names (driver, LPV_ALIASES);
  * code is moved into a new helper function (sync or async) -> calls to functions that do not exist in the baseline are inlined into
    their callers when the caller's CFG is built (engine/inline.py), and the helper is hidden from crate-wide iterations when every
    use of it could be absorbed that way.

On the baseline tree itself the normalisation is the identity.  What was applied is recorded in the evidence (`normalisation`)."""
import json
import os
import re

import extract
import facts as F
from facts import norm

VERIF = os.path.dirname(os.path.dirname(os.path.abspath(__file__)))
BASE_DIR = os.path.join(VERIF, "rules", "baseline")
CLOSURE_RX = re.compile(r"::\{closure#\d+\}")


def signature(rec):
    return [rec.get("kind"), rec.get("coroutine"), rec.get("argc"), list(rec["locals"][1:rec["argc"] + 1]), rec.get("ret")]


def snapshot(fx):
    """the part of a fact file that the comparison needs"""
    fns = {}
    for k in fx.fn_keys_raw():
        rec = json.loads(fx._raw[k])
        s = fx.sums.get(k, {})
        calls = sorted({norm(r or d) for d, r in s.get("calls", []) if (r or d)})
        fns[k] = {"sig": signature(rec), "parent": rec.get("parent"), "file": rec.get("file"), "calls": calls, "nb": len(rec["blocks"])}
    adts = {}
    for d, r in fx.adts.items():
        adts[d] = [[v["name"], [[f["name"], f["ty"]] for f in v["fields"]]] for v in r["variants"]]
    return {"fns": fns, "adts": adts}


def load_baseline(cfg):
    p = os.path.join(BASE_DIR, cfg + ".json")
    if not os.path.exists(p):
        return None
    with open(p) as f:
        return json.load(f)


def _jaccard(a, b):
    a, b = set(a), set(b)
    if not a and not b:
        return 1.0
    return len(a & b) / float(len(a | b))


def compare(cur, base):
    """-> (alias_lines, report).  cur / base: snapshots."""
    lines = []
    rep = {"renamed_fields": [], "renamed_fns": [], "new_fns": [], "missing_fns": []}
    # ---- fields: same ADT, same variant, same number of fields, same types position by position, different names
    for d, bvars in base["adts"].items():
        cvars = cur["adts"].get(d)
        if cvars is None:
            continue
        cv = {v[0]: v[1] for v in cvars}
        for vname, bfields in bvars:
            cfields = cv.get(vname)
            if cfields is None or cfields == bfields:
                continue
            bnames = [f[0] for f in bfields]
            cnames = [f[0] for f in cfields]
            gone = [n for n in bnames if n not in cnames]
            new = [n for n in cnames if n not in bnames]
            if not gone or not new:
                continue
            pairs = []
            if len(bfields) == len(cfields):
                for (bn, bt), (cn, ct) in zip(bfields, cfields):
                    if bn != cn and bn in gone and cn in new and bt == ct:
                        pairs.append((cn, bn))
            else:
                # a field was added or removed as well: pair the remaining ones by unique type
                bt = {n: t for n, t in bfields}
                ct = {n: t for n, t in cfields}
                for g in gone:
                    cands = [n for n in new if ct[n] == bt[g]]
                    if len(cands) == 1 and len([x for x in gone if bt[x] == bt[g]]) == 1:
                        pairs.append((cands[0], g))
            for cn, bn in pairs:
                lines.append("F\t%s\t%s\t%s\t%s" % (d, vname, cn, bn))
                rep["renamed_fields"].append("%s::%s.%s (baseline: .%s)" % (d, vname, cn, bn))
            # fields moved into a new private struct that the variant now holds in one field (`pending_out: PendingOut { frames, .. }`):
            # the grouping field is made transparent and the inner fields take the baseline names
            paired_b = {bn for _, bn in pairs}
            paired_c = {cn for cn, _ in pairs}
            gone2 = [g for g in gone if g not in paired_b]
            bt = {n: t for n, t in bfields}
            for cn, ctype in cfields:
                if cn not in new or cn in paired_c or not gone2:
                    continue
                tname = re.sub(r"<.*$", "", ctype)
                if tname in base["adts"] or tname not in cur["adts"] or len(cur["adts"][tname]) != 1:
                    continue
                ivar, ifields = cur["adts"][tname][0]
                m = {}
                for g in gone2:
                    cands = [fn_ for fn_, ft in ifields if ft == bt[g] and fn_ not in m.values()]
                    if len(cands) > 1:
                        near = [x for x in cands if x in g or g.endswith(x) or g.startswith(x)]
                        cands = near if len(near) == 1 else cands
                    if len(cands) == 1:
                        m[g] = cands[0]
                if len(m) == len(gone2) == len(ifields):
                    lines.append("F\t%s\t%s\t%s\t" % (d, vname, cn))
                    for g, inner in m.items():
                        lines.append("F\t%s\t%s\t%s\t%s" % (tname, ivar, inner, g))
                    rep["renamed_fields"].append("%s::%s.%s groups %s (seen through)" % (d, vname, cn, sorted(m)))
                    gone2 = []
    # ---- functions
    bf, cf = base["fns"], cur["fns"]
    top = lambda k: not CLOSURE_RX.search(k)
    missing = [k for k in bf if k not in cf and top(k)]
    new = [k for k in cf if k not in bf and top(k)]
    used = set()
    for m in sorted(missing):
        cands = []
        for n in new:
            if n in used:
                continue
            if cf[n]["sig"] != bf[m]["sig"]:
                continue
            if cf[n]["parent"] != bf[m]["parent"] and cf[n]["file"] != bf[m]["file"]:
                continue
            cands.append((_jaccard(cf[n]["calls"], bf[m]["calls"]), n))
        cands.sort(reverse=True)
        if cands and cands[0][0] >= 0.5 and (len(cands) == 1 or cands[0][0] > cands[1][0]):
            n = cands[0][1]
            used.add(n)
            lines.append("N\t%s\t%s" % (n, m))
            rep["renamed_fns"].append("%s (baseline: %s)" % (n, m))
        else:
            rep["missing_fns"].append(m)
    rep["new_fns"] = sorted(n for n in new if n not in used)
    return lines, rep


def _splice_grouped(fx):
    """a grouping field that the aliases made transparent (its name is empty) is replaced, in the ADT table, by the fields of the
    private struct it holds: the ADT reads as in the baseline"""
    for d, r in fx.adts.items():
        for v in r.get("variants", []):
            out, changed = [], False
            for f in v.get("fields", []):
                inner = fx.adts.get(re.sub(r"<.*$", "", f.get("ty", ""))) if f.get("name") == "" else None
                if inner is not None and len(inner.get("variants", [])) == 1:
                    for g in inner["variants"][0].get("fields", []):
                        h = dict(g)
                        h["vis"] = f.get("vis", g.get("vis"))
                        out.append(h)
                    changed = True
                else:
                    out.append(f)
            if changed:
                v["fields"] = out


def load(cfg):
    """Facts of the current tree, normalised against the baseline of `cfg` (identity when there is no baseline or nothing differs)."""
    fx = F.Facts(extract.facts_path(cfg), cfg)
    base = load_baseline(cfg)
    if base is None:
        fx.normalisation = {"baseline": None}
        return fx
    cur = snapshot(fx)
    lines, rep = compare(cur, base)
    if lines:
        fx = F.Facts(extract.facts_path(cfg, aliases=lines), cfg)
        _splice_grouped(fx)
        cur = snapshot(fx)
        lines2, rep2 = compare(cur, base)
        rep["new_fns"] = rep2["new_fns"]
        rep["missing_fns"] = rep2["missing_fns"]
        rep["unresolved_after_aliasing"] = lines2
    new = set(rep["new_fns"])
    # closures / coroutine bodies of new functions are new as well
    for k in fx.fn_keys_raw():
        m = CLOSURE_RX.search(k)
        if m and (k[:m.start()] in new or k not in base["fns"]):
            new.add(k)
    fx.set_new_fns(new)
    rep["baseline"] = os.path.relpath(os.path.join(BASE_DIR, cfg + ".json"), VERIF)
    fx.normalisation = rep
    return fx
