"""Baseline-relative normalisation of the facts (DESIGN.md section 8.2).

The rules name functions and fields.  They were confirmed against one tree (the *baseline*: `rules/baseline/<cfg>.json`, regenerated
with tools/gen_baseline.py whenever /repo moves by one of our own commits).  A later tree may differ from the baseline by edits that
do not change behaviour but change names or the place where code lives:

  * a private field or a function is renamed            -> the facts are re-extracted under the baseline names (driver, LPV_ALIASES);
  * code is moved into a new helper function (sync or async) -> calls to functions that do not exist in the baseline are inlined into
    their callers when the caller's CFG is built (engine/inline.py), and the helper is hidden from crate-wide iterations when every
    use of it could be absorbed that way.

On the baseline tree itself the normalisation is the identity.  What was applied is recorded in the evidence (`normalisation`)."""
import json
import os
import re

import extract
import facts as F
from facts import norm

VERIF = os.path.dirname(os.path.dirname(os.path.abspath(__file__)))
BASE_DIR = os.path.join(VERIF, "rules", "baseline")
CLOSURE_RX = re.compile(r"::\{closure#\d+\}")


def signature(rec):
    return [rec.get("kind"), rec.get("coroutine"), rec.get("argc"), list(rec["locals"][1:rec["argc"] + 1]), rec.get("ret")]


def snapshot(fx):
    """the part of a fact file that the comparison needs"""
    fns = {}
    for k in fx.fn_keys_raw():
        rec = json.loads(fx._raw[k])
        s = fx.sums.get(k, {})
        calls = sorted({norm(r or d) for d, r in s.get("calls", []) if (r or d)})
        fns[k] = {"sig": signature(rec), "parent": rec.get("parent"), "file": rec.get("file"), "calls": calls, "nb": len(rec["blocks"])}
    adts = {}
    for d, r in fx.adts.items():
        adts[d] = [[v["name"], [[f["name"], f["ty"]] for f in v["fields"]]] for v in r["variants"]]
    consts = {d: [r.get("ty"), r.get("v")] for d, r in fx.consts.items()}
    return {"fns": fns, "adts": adts, "consts": consts}


_POS_RX = re.compile(r"@[^}]*\}")


def _sig2(f):
    """signature of a closure / coroutine body without what depends on its position in the file or on its own identity"""
    kind, cor, argc, args, ret = f["sig"]
    clean = lambda t: _POS_RX.sub("}", str(t))
    return [kind, cor, argc, [clean(a) for a in (args[1:] if args else [])], clean(ret)]


def closure_renames(cur, base):
    """Closures are keyed by their index in the enclosing function (`f::{closure#2}`), which shifts when a closure is added or removed
    in front of them.  The closures of each function that both trees have are paired in source order by signature and callee set;
    a paired closure takes its baseline index, an unpaired one whose key is taken in the baseline gets an index above 1000 (so that
    it is recognised as new).  -> {current key: normalised key}"""
    bf, cf = base["fns"], cur["fns"]
    kids_c, kids_b = {}, {}
    for fns, kids in ((cf, kids_c), (bf, kids_b)):
        for k in fns:
            ms = list(CLOSURE_RX.finditer(k))
            if ms:
                kids.setdefault(k[:ms[-1].start()], []).append(k)
    idx = lambda k: int(re.search(r"\{closure#(\d+)\}$", k).group(1))
    ren = {}
    work = [(k, k) for k in cf if k in bf and not CLOSURE_RX.search(k)]
    fresh = [1000]
    while work:
        pc, pb = work.pop()
        cc = sorted(kids_c.get(pc, []), key=idx)
        cb = sorted(kids_b.get(pb, []), key=idx)
        if not cc:
            continue
        j = 0
        taken = set()
        pairs = []
        for c in cc:
            hit = None
            for jj in range(j, len(cb)):
                b = cb[jj]
                if _sig2(cf[c]) == _sig2(bf[b]) and _jaccard(cf[c]["calls"], bf[b]["calls"]) >= 0.5:
                    hit = jj
                    break
            if hit is not None:
                pairs.append((c, cb[hit]))
                taken.add(cb[hit])
                j = hit + 1
            else:
                pairs.append((c, None))
        # second pass for what is left on both sides: the same kind of body (closure / coroutine, same number of arguments) with
        # largely the same callees is the same closure even if a type in its signature changed
        left_b = [b for b in cb if b not in taken]
        for i_, (c, b) in enumerate(pairs):
            if b is not None:
                continue
            for b2 in left_b:
                if cf[c]["sig"][:3] == bf[b2]["sig"][:3] and _jaccard(cf[c]["calls"], bf[b2]["calls"]) >= 0.6:
                    pairs[i_] = (c, b2)
                    left_b.remove(b2)
                    break
        # third pass: a body that kept its index and is the only one of its kind left on both sides (the body of an `async fn` is
        # always `{closure#0}`, however much of it was rewritten)
        kind_of = lambda f: tuple(f["sig"][:2])
        for i_, (c, b) in enumerate(pairs):
            if b is not None:
                continue
            same_c = [c2 for c2, b2 in pairs if b2 is None and kind_of(cf[c2]) == kind_of(cf[c])]
            same_b = [b2 for b2 in left_b if kind_of(bf[b2]) == kind_of(cf[c])]
            if len(same_c) == 1 and len(same_b) == 1 and idx(same_b[0]) == idx(c):
                pairs[i_] = (c, same_b[0])
                left_b.remove(same_b[0])
        for c, b in pairs:
            if b is not None:
                final = pb + b[len(pb):] if b.startswith(pb) else b
                final = b
            else:
                final = pb + c[len(pc):]
                if final in bf:
                    final = "%s::{closure#%d}" % (pb, fresh[0])
                    fresh[0] += 1
            if final != c:
                ren[c] = final
            work.append((c, final if final in bf else c if b is None else b))
    # nested closures of a renamed closure follow by prefix; drop entries that the prefix rule already yields
    return ren


def reencoded_options(cur, base):
    """A new private enum with one unit variant and one single-field variant that stands where the baseline has `Option<T>` (a field
    of a type both trees have, or a parameter / result of a function both have) is that Option under another name:
    -> [(enum path, unit variant, data variant, T, clashing types)]"""
    out = []
    for E, vs in cur["adts"].items():
        if E in base["adts"] or len(vs) != 2:
            continue
        unit = [v for v in vs if len(v[1]) == 0]
        data = [v for v in vs if len(v[1]) == 1]
        if len(unit) != 1 or len(data) != 1:
            continue
        U, D, T = unit[0][0], data[0][0], data[0][1][0][1]
        fname = data[0][1][0][0]       # "0" for a tuple variant, the field's name for `D { field }`
        opt = "std::option::Option<%s>" % T
        ev = False
        for A, bvs in base["adts"].items():
            cvs = cur["adts"].get(A)
            if cvs is None:
                continue
            cmap = {v[0]: dict((f[0], f[1]) for f in v[1]) for v in cvs}
            clist = {v[0]: v[1] for v in cvs}
            for vn, bfs in bvs:
                for i_, (fn_, ft) in enumerate(bfs):
                    if ft != opt:
                        continue
                    # the same field, or (renamed along with the type) the field at the same position
                    if cmap.get(vn, {}).get(fn_) == E or (len(clist.get(vn, [])) == len(bfs) and clist[vn][i_][1] == E):
                        ev = True
        if not ev:
            for k, bf in base["fns"].items():
                cf = cur["fns"].get(k)
                if cf is None:
                    continue
                bt = list(bf["sig"][3]) + [bf["sig"][4]]
                ct = list(cf["sig"][3]) + [cf["sig"][4]]
                # (also inside another type: `Result<Option<T>, E>` -> `Result<NewEnum, E>`)
                if len(bt) == len(ct) and any(b != c and opt in str(b) and str(b).replace(opt, E) == str(c) for b, c in zip(bt, ct)):
                    ev = True
                    break
        if ev:
            clash = sorted(A for A, avs in cur["adts"].items() if A != E and any(v[0] in (U, D) for v in avs))
            out.append((E, U, D, T, clash, fname))
    return out


def _parent(d):
    return d.rsplit("::", 1)[0] if "::" in d else ""


def renamed_items(cur, base):
    """private types and constants that were renamed: [(current path, baseline path)].  A type of the baseline that is gone is paired
    with a new type of the same module whose variants and fields are identical (modulo its own name); a constant with a new constant
    of the same module, type and value.  Only unique pairings count."""
    out = []
    gone = [d for d in base["adts"] if d not in cur["adts"]]
    new = [d for d in cur["adts"] if d not in base["adts"]]
    used = set()
    for g in sorted(gone):
        cands = []
        for n in new:
            if n in used or _parent(n) != _parent(g):
                continue
            shape_n = json.dumps(cur["adts"][n]).replace(n, g)
            if shape_n == json.dumps(base["adts"][g]):
                cands.append(n)
        if len(cands) == 1:
            used.add(cands[0])
            out.append((cands[0], g))
    bc, cc = base.get("consts") or {}, cur.get("consts") or {}
    gone = [d for d in bc if d not in cc]
    new = [d for d in cc if d not in bc]
    used = set()
    for g in sorted(gone):
        cands = [n for n in new if n not in used and _parent(n) == _parent(g) and cc[n] == bc[g] and cc[n][1] is not None]
        if len(cands) == 1 and len([x for x in gone if _parent(x) == _parent(g) and bc[x] == bc[g]]) == 1:
            used.add(cands[0])
            out.append((cands[0], g))
    return out


def load_baseline(cfg):
    p = os.path.join(BASE_DIR, cfg + ".json")
    if not os.path.exists(p):
        return None
    with open(p) as f:
        return json.load(f)


def _jaccard(a, b):
    a, b = set(a), set(b)
    if not a and not b:
        return 1.0
    return len(a & b) / float(len(a | b))


def compare(cur, base):
    """-> (alias_lines, report).  cur / base: snapshots."""
    lines = []
    rep = {"renamed_fields": [], "renamed_fns": [], "new_fns": [], "missing_fns": []}
    # ---- fields: same ADT, same variant, same number of fields, same types position by position, different names
    for d, bvars in base["adts"].items():
        cvars = cur["adts"].get(d)
        if cvars is None:
            continue
        cv = {v[0]: v[1] for v in cvars}
        for vname, bfields in bvars:
            cfields = cv.get(vname)
            if cfields is None or cfields == bfields:
                continue
            bnames = [f[0] for f in bfields]
            cnames = [f[0] for f in cfields]
            gone = [n for n in bnames if n not in cnames]
            new = [n for n in cnames if n not in bnames]
            if not gone or not new:
                continue
            pairs = []
            if len(bfields) == len(cfields):
                for (bn, bt), (cn, ct) in zip(bfields, cfields):
                    if bn != cn and bn in gone and cn in new and bt == ct:
                        pairs.append((cn, bn))
            else:
                # a field was added or removed as well: pair the remaining ones by unique type
                bt = {n: t for n, t in bfields}
                ct = {n: t for n, t in cfields}
                for g in gone:
                    cands = [n for n in new if ct[n] == bt[g]]
                    if len(cands) == 1 and len([x for x in gone if bt[x] == bt[g]]) == 1:
                        pairs.append((cands[0], g))
            for cn, bn in pairs:
                lines.append("F\t%s\t%s\t%s\t%s" % (d, vname, cn, bn))
                rep["renamed_fields"].append("%s::%s.%s (baseline: .%s)" % (d, vname, cn, bn))
            # fields moved into a new private struct that the variant now holds in one field (`pending_out: PendingOut { frames, .. }`):
            # the grouping field is made transparent and the inner fields take the baseline names
            paired_b = {bn for _, bn in pairs}
            paired_c = {cn for cn, _ in pairs}
            gone2 = [g for g in gone if g not in paired_b]
            bt = {n: t for n, t in bfields}
            for cn, ctype in cfields:
                if cn not in new or cn in paired_c or not gone2:
                    continue
                tname = re.sub(r"<.*$", "", ctype)
                if tname in base["adts"] or tname not in cur["adts"] or len(cur["adts"][tname]) != 1:
                    continue
                ivar, ifields = cur["adts"][tname][0]
                m = {}
                for _round in range(len(gone2) + 1):
                    for g in gone2:
                        if g in m:
                            continue
                        cands = [fn_ for fn_, ft in ifields if ft == bt[g] and fn_ not in m.values()]
                        if len(cands) > 1:
                            near = [x for x in cands if x in g or g.endswith(x) or g.startswith(x)]
                            cands = near if len(near) == 1 else cands
                        if len(cands) == 1:
                            m[g] = cands[0]
                if len(m) < len(gone2) and len(gone2) == len(ifields):
                    # fields of one type that the names do not tell apart: a group that was moved keeps its declaration order
                    rest_g = [g for g in bnames if g in gone2 and g not in m]
                    rest_i = [fn_ for fn_, ft in ifields if fn_ not in m.values()]
                    if len(rest_g) == len(rest_i) and all(bt[g] == dict(ifields)[i2] for g, i2 in zip(rest_g, rest_i)):
                        m.update(zip(rest_g, rest_i))
                if len(m) == len(gone2) == len(ifields):
                    lines.append("F\t%s\t%s\t%s\t" % (d, vname, cn))
                    for g, inner in m.items():
                        lines.append("F\t%s\t%s\t%s\t%s" % (tname, ivar, inner, g))
                    rep["renamed_fields"].append("%s::%s.%s groups %s (seen through)" % (d, vname, cn, sorted(m)))
                    gone2 = []
    # ---- functions
    bf, cf = base["fns"], cur["fns"]
    top = lambda k: not CLOSURE_RX.search(k)
    missing = [k for k in bf if k not in cf and top(k)]
    new = [k for k in cf if k not in bf and top(k)]
    used = set()
    for m in sorted(missing):
        cands = []
        for n in new:
            if n in used:
                continue
            if cf[n]["sig"] != bf[m]["sig"]:
                continue
            if cf[n]["parent"] != bf[m]["parent"] and cf[n]["file"] != bf[m]["file"]:
                continue
            cands.append((_jaccard(cf[n]["calls"], bf[m]["calls"]), n))
        cands.sort(reverse=True)
        if cands and cands[0][0] >= 0.5 and (len(cands) == 1 or cands[0][0] > cands[1][0]):
            n = cands[0][1]
            used.add(n)
            lines.append("N\t%s\t%s" % (n, m))
            rep["renamed_fns"].append("%s (baseline: %s)" % (n, m))
        else:
            rep["missing_fns"].append(m)
    rep["new_fns"] = sorted(n for n in new if n not in used)
    return lines, rep


def _splice_grouped(fx):
    """a grouping field that the aliases made transparent (its name is empty) is replaced, in the ADT table, by the fields of the
    private struct it holds: the ADT reads as in the baseline"""
    for d, r in fx.adts.items():
        for v in r.get("variants", []):
            out, changed = [], False
            for f in v.get("fields", []):
                inner = fx.adts.get(re.sub(r"<.*$", "", f.get("ty", ""))) if f.get("name") == "" else None
                if inner is not None and len(inner.get("variants", [])) == 1:
                    for g in inner["variants"][0].get("fields", []):
                        h = dict(g)
                        h["vis"] = f.get("vis", g.get("vis"))
                        out.append(h)
                    changed = True
                else:
                    out.append(f)
            if changed:
                v["fields"] = out


def load(cfg):
    """Facts of the current tree, normalised against the baseline of `cfg` (identity when there is no baseline or nothing differs)."""
    fx = F.Facts(extract.facts_path(cfg), cfg)
    base = load_baseline(cfg)
    if base is None:
        fx.normalisation = {"baseline": None}
        return fx
    cur = snapshot(fx)
    eopts = reencoded_options(cur, base)
    if eopts:
        fx = F.Facts(extract.facts_path(cfg), cfg, enum_options=eopts)
        cur = snapshot(fx)
    items = renamed_items(cur, base)
    if items:
        fx = F.Facts(extract.facts_path(cfg), cfg, text_aliases=items, enum_options=eopts)
        cur = snapshot(fx)
    cren = closure_renames(cur, base)
    if cren:
        items = items + sorted(cren.items())
        fx = F.Facts(extract.facts_path(cfg), cfg, text_aliases=items, enum_options=eopts)
        cur = snapshot(fx)
    lines, rep = compare(cur, base)
    if lines:
        # the driver matches on the current names of the types
        back = {b: c for c, b in items if "{closure#" not in c}
        dlines = []
        for ln in lines:
            parts = ln.split("\t")
            if parts[0] == "F" and parts[1] in back:
                parts[1] = back[parts[1]]
            dlines.append("\t".join(parts))
        fx = F.Facts(extract.facts_path(cfg, aliases=dlines), cfg, text_aliases=items, enum_options=eopts)
        _splice_grouped(fx)
        cur = snapshot(fx)
        lines2, rep2 = compare(cur, base)
        rep["new_fns"] = rep2["new_fns"]
        rep["missing_fns"] = rep2["missing_fns"]
        rep["unresolved_after_aliasing"] = lines2
    rep["options_under_another_name"] = ["%s { %s, %s(%s) }" % tuple(e[:4]) for e in eopts]
    rep["renamed_items"] = ["%s (baseline: %s)" % (c, b) for c, b in items if "{closure#" not in c]
    rep["renumbered_closures"] = ["%s -> %s" % (c, b[b.rindex("::{closure#"):]) for c, b in items if "{closure#" in c]
    new = set(rep["new_fns"])
    # closures / coroutine bodies of new functions are new as well
    for k in fx.fn_keys_raw():
        m = CLOSURE_RX.search(k)
        if m and (k[:m.start()] in new or k not in base["fns"]):
            new.add(k)
    fx.set_new_fns(new)
    # a small helper of the baseline that is gone because it was written out in its only caller: the rules that name the helper are
    # pointed at that caller (the code they look for lives there now)
    rep["absorbed_fns"] = []
    for m in rep["missing_fns"]:
        callers = sorted({CLOSURE_RX.sub("", k) for k, v in base["fns"].items() if (norm(m) in v["calls"] or m in v["calls"]) and not k.startswith(m)})
        if len(callers) == 1 and callers[0] in fx._raw and callers[0] not in rep["missing_fns"]:
            for name in {m, norm(m)}:
                if name not in fx._raw:
                    fx._alias[name] = callers[0]
            rep["absorbed_fns"].append("%s (now part of %s)" % (m, callers[0]))
    # an `async` block (or closure) of the baseline that became the body of a new `async fn` / a new function: the baseline key
    # answers with that body, and the new function is reported under the baseline name where callers / constructors are listed
    rep["moved_bodies"] = []
    fx._moved = {}
    cur_keys = set(fx._raw)
    gone = [k for k in base["fns"] if CLOSURE_RX.search(k) and k not in cur_keys and k not in fx._alias and CLOSURE_RX.sub("", k) in cur_keys]
    # candidates: new top-level functions and the coroutine body `f::{closure#0}` of a new top-level (async) function
    cands = [k for k in fx.new_fns if k in cur_keys and (not CLOSURE_RX.search(k) or (k.endswith("::{closure#0}") and not CLOSURE_RX.search(k[:-len("::{closure#0}")])))]
    cs = snapshot(fx)["fns"]
    used = set()
    for g in sorted(gone):
        bg = base["fns"][g]
        if not bg["calls"]:
            continue
        best = sorted(((_jaccard(cs[c]["calls"], bg["calls"]), c) for c in cands if c not in used and c in cs and cs[c]["sig"][1] == bg["sig"][1]), reverse=True)
        if best and best[0][0] >= 0.6 and (len(best) == 1 or best[0][0] > best[1][0]):
            c = best[0][1]
            used.add(c)
            fx._alias[g] = c
            fx._moved[c] = g
            rep["moved_bodies"].append("%s (now %s)" % (g, c))
    if fx._moved:
        fx._callers = None
        fx._aggsites = None
    rep["baseline"] = os.path.relpath(os.path.join(BASE_DIR, cfg + ".json"), VERIF)
    fx.normalisation = rep
    return fx
