"""K11 PENDING-HAS-WAKER: in a poll_* body every path that returns Poll::Pending must have seen an
inner poll (a call receiving the task Context) return Pending, or must have used cx.waker().

Decision procedure: cut, for every inner poll call p, the edges that are only feasible when p
returned Pending (= the edges infeasible under the assumption p returned Ready, computed by result
refinement); avoid every call of Context::waker / Waker::wake*; if a Pending exit is still reachable
from the entry, there is a path on which every inner poll was Ready and no waker was touched -> the
task would sleep forever."""
import re
from paths import refine_cuts

WAKER_RX = re.compile(r"task::(wake::)?Context::waker$|Waker::(wake|wake_by_ref|clone)$|Context<'_>::waker$|Context::waker$")


def context_locals(fn):
    return set(i for i, t in enumerate(fn.locals) if re.search(r"task::(wake::)?Context<", t))


def inner_polls(fn):
    cl = context_locals(fn)
    out = []
    for c in fn.calls():
        if c.matches(WAKER_RX):
            continue
        for a in c.args:
            p = a.get("c") or a.get("m")
            if p is not None and p[0] in cl:
                out.append(c)
                break
    return out


def _nonempty_guarded(fn, p):
    """inner poll of a FuturesUnordered-like collection that was tested non-empty on every path to the poll"""
    recv = fn.recv(p)
    m = re.search(r"\.([a-z_]+)\W*$", recv)
    if not m:
        return False
    fld = m.group(1)
    for e in fn.calls(r"::is_empty$"):
        if ("." + fld) not in fn.recv(e):
            continue
        for sw, t, f in fn.bool_tests(e.dest[0]):
            if fn.only_via(p.node, sw, [f]):
                return True
    return False


def pending_without_waker(fn, nonempty_guard=False, tracker=None, extra_avoid=()):
    """-> list of (exit_node, witness_path) for Pending exits reachable without waker / inner Pending"""
    polls = inner_polls(fn)
    wakers = [c.node for c in fn.calls(WAKER_RX)]
    cuts = set()
    for p in polls:
        ret = " ".join(fn.locals[p.dest[0]:p.dest[0] + 1])
        if "Poll<" not in ret:
            # helper taking cx but not returning Poll (e.g. a fn that registers the waker itself): counts as waker use
            wakers.append(p.node)
            continue
        cuts |= refine_cuts(fn, p, ["Ready", "?"])
        if nonempty_guard and _nonempty_guarded(fn, p):
            # Ready(None) is impossible for a non-empty collection: only Pending / Ready(Some) remain; the
            # Ready(None) edges are not counted as "returned Ready" paths
            none_ok = refine_cuts(fn, p, ["Ready", "Some", "?"])
            cuts |= none_ok
    pend = [(n, sh) for n, sh in fn.exits(r"Pending") if any(s.startswith("Pending") for s in sh)]
    out = []
    for n, sh in pend:
        if tracker is not None:
            path = tracker.witness([fn.entry], [n], avoid=set(wakers) | set(extra_avoid), cut=cuts)
        else:
            path = fn.witness_path([fn.entry], [n], avoid=set(wakers) | set(extra_avoid), cut=cuts)
        if path is not None:
            out.append((n, path))
    return out, len(polls), len(wakers), len(pend)
