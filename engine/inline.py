"""Virtual inlining of functions that do not exist in the baseline (engine/normalise.py): the record of a caller is rewritten so that
a call to such a helper is replaced by the helper's blocks.  The result is an ordinary function record (same JSON shape as the driver
writes), so every primitive of cfg.py works on it unchanged.

  sync call      bb_i: [stmts]; CALL helper(a1..an) -> dest, target T
     becomes     bb_i: [stmts; p1' = a1; ...; pn' = an]; GOTO entry'      (callee locals and blocks are renumbered: l' = l + loff)
                 callee `return`  =>  [dest = move _0']; GOTO T
  closure call   CALL closure#k(env, (a1,..,an)): p1' = env, p(j+1)' = tuple.j
  await          CALL helper(a1..an) -> fut  (constructor of the coroutine; elsewhere in the caller)
                 ... CALL helper::{closure#0}(pin(fut), cx) -> poll, target T      (the poll inside the await loop)
     becomes     at the constructor: cap_j = a_j ; at the poll: [_2' = cx]; GOTO entry' where the coroutine's captures `_1'.j` are
                 rewritten to cap_j; callee `return` => [poll = Poll::Ready(move _0')]; GOTO T ; callee yields stay yields.
                 (The coroutine is re-entered at its entry on every re-poll in this CFG: an over-approximation of its resume points.)"""
import copy
import json
import re

from facts import norm

PLACE_KEYS = ("lhs", "p", "dest", "resume_arg", "c", "m")
BB_KEYS = ("t", "otherwise", "imag", "drop")
IDX_RX = re.compile(r"^\[_(\d+)\]$")
MAX_DEPTH = 4
MAX_BLOCKS = 6000


def _shift_place(p, loff):
    out = [p[0] + loff]
    for x in p[1:]:
        m = IDX_RX.match(x) if isinstance(x, str) else None
        out.append("[_%d]" % (int(m.group(1)) + loff) if m else x)
    return out


def _shift(x, loff, boff):
    if isinstance(x, dict):
        out = {}
        for k, v in x.items():
            if k in PLACE_KEYS and isinstance(v, list) and v and isinstance(v[0], int) and not isinstance(v[0], bool):
                out[k] = _shift_place(v, loff)
            elif k in BB_KEYS and isinstance(v, int) and not isinstance(v, bool):
                out[k] = v + boff
            elif k == "targets" and isinstance(v, list):
                out[k] = [[val, bb + boff] for val, bb in v]
            else:
                out[k] = _shift(v, loff, boff)
        return out
    if isinstance(x, list):
        return [_shift(y, loff, boff) for y in x]
    return x


def _rename_local(x, old, new):
    if isinstance(x, dict):
        out = {}
        for k, v in x.items():
            if k in PLACE_KEYS and isinstance(v, list) and v and isinstance(v[0], int) and not isinstance(v[0], bool):
                out[k] = [new if v[0] == old else v[0]] + [("[_%d]" % new if isinstance(e, str) and e == "[_%d]" % old else e) for e in v[1:]]
            else:
                out[k] = _rename_local(v, old, new)
        return out
    if isinstance(x, list):
        return [_rename_local(y, old, new) for y in x]
    return x


def _replace_captures(x, self_local, caps):
    """places `[self_local, '.j', rest..]` -> `[caps[j], rest..]` (coroutine captures)"""
    if isinstance(x, dict):
        out = {}
        for k, v in x.items():
            if k in PLACE_KEYS and isinstance(v, list) and v and v[0] == self_local and len(v) >= 2 and isinstance(v[1], str) and re.match(r"^\.\d+$", v[1]) \
                    and int(v[1][1:]) in caps:
                out[k] = [caps[int(v[1][1:])]] + v[2:]
            else:
                out[k] = _replace_captures(v, self_local, caps)
        return out
    if isinstance(x, list):
        return [_replace_captures(y, self_local, caps) for y in x]
    return x


def _callee_name(term):
    f = term.get("f") or {}
    return norm(f.get("res") or f.get("def")) if "def" in f else None


def _op_place(o):
    return o.get("c") or o.get("m")


def _op_type(rec, o):
    p = _op_place(o)
    if p is not None and len(p) == 1:
        return rec["locals"][p[0]]
    k = o.get("k")
    return (k or {}).get("ty", "?")


def _find_ctor(rec, local, name, cor_key, depth=0, seen=None):
    """where the coroutine polled through `local` is constructed: ('call', block, args) for a `CALL name(..)` that was not inlined, or
    ('agg', block, stmt index, ops) for the `{coroutine}` aggregate (the constructor function was inlined already); found by following
    moves, borrows, into_future and Pin::new* backwards"""
    seen = seen if seen is not None else set()
    if depth > 16 or local in seen:
        return None
    seen.add(local)
    for bi, b in enumerate(rec["blocks"]):
        for si, s in enumerate(b["stmts"]):
            if s["lhs"] == [local]:
                rv = s["rv"]
                if rv["r"] == "agg" and rv.get("adt") == "{coroutine}" and norm(rv.get("closure")) == norm(cor_key):
                    return ("agg", bi, si, rv.get("ops", []))
                src = None
                if rv["r"] in ("use", "cast"):
                    src = _op_place(rv["o"])
                elif rv["r"] == "ref":
                    src = rv["p"]
                if src:
                    r = _find_ctor(rec, src[0], name, cor_key, depth + 1, seen)
                    if r is not None:
                        return r
        t = b["term"]
        if t["k"] == "call" and t.get("dest") == [local]:
            if _callee_name(t) == name:
                return ("call", bi, t["args"])
            for a in t.get("args", [])[:1]:
                p = _op_place(a)
                if p:
                    r = _find_ctor(rec, p[0], name, cor_key, depth + 1, seen)
                    if r is not None:
                        return r
    return None


class Inliner:
    def __init__(self, fx, root_key, root_rec, new_fns):
        self.fx = fx
        self.rec = copy.deepcopy(root_rec)
        self.new = new_fns
        self.meta = {i: (0, (root_key,)) for i in range(len(self.rec["blocks"]))}
        self.done = []
        self.failed = []
        self._at = 0

    def _callee_rec(self, name):
        key = self.fx._alias.get(name, name)
        raw = self.fx._raw.get(key)
        if raw is None or key not in self.new:
            return None, None
        # derived / standard-trait impls of a new type (`<Framing as PartialEq>::eq`, Clone, Debug, ..) stay calls: the rules know
        # them by name, as they know the impls of the baseline's types
        if re.match(r"^<.* as (std|core)::(cmp|clone|fmt|hash|default|marker)::\w+(<.*>)?>::\w+$", key):
            return None, None
        return key, json.loads(raw)

    # ---- Option / Result / bool combinators that take a *new* closure are spelled out as the match they stand for -------------------
    COMB = {
        # name regex -> (adt, [(variant, what the arm stores in dest)])   a = payload of the matched variant, f = closure
        r"option::Option::or_else$": ("O", {"Some": ("self",), "None": ("call", [])}),
        r"option::Option::map$": ("O", {"Some": ("wrap", "Some", ("call", ["a"])), "None": ("agg", "None")}),
        r"option::Option::and_then$": ("O", {"Some": ("call", ["a"]), "None": ("agg", "None")}),
        r"option::Option::unwrap_or_else$": ("O", {"Some": ("a",), "None": ("call", [])}),
        r"option::Option::ok_or_else$": ("O", {"Some": ("wrapr", "Ok", ("a",)), "None": ("wrapr", "Err", ("call", []))}),
        r"option::Option::is_some_and$": ("O", {"Some": ("call", ["a"]), "None": ("false",)}),
        r"option::Option::filter$": None,
        # three-argument forms: (receiver, default | default closure, closure);  "dflt" = the default operand, "call0" = the default closure
        r"option::Option::map_or$": ("O", {"Some": ("call", ["a"]), "None": ("dflt",)}),
        r"option::Option::map_or_else$": ("O", {"Some": ("call", ["a"]), "None": ("call0", [])}),
        r"result::Result::map_or$": ("R", {"Ok": ("call", ["a"]), "Err": ("dflt",)}),
        r"result::Result::map_or_else$": ("R", {"Ok": ("call", ["a"]), "Err": ("call0", ["a"])}),
        r"result::Result::map$": ("R", {"Ok": ("wrapr", "Ok", ("call", ["a"])), "Err": ("wrapr", "Err", ("a",))}),
        r"result::Result::map_err$": ("R", {"Ok": ("wrapr", "Ok", ("a",)), "Err": ("wrapr", "Err", ("call", ["a"]))}),
        r"result::Result::and_then$": ("R", {"Ok": ("call", ["a"]), "Err": ("wrapr", "Err", ("a",))}),
        r"result::Result::or_else$": ("R", {"Ok": ("wrapr", "Ok", ("a",)), "Err": ("call", ["a"])}),
        r"result::Result::unwrap_or_else$": ("R", {"Ok": ("a",), "Err": ("call", ["a"])}),
    }

    # conversions without a closure; spelled out only in a function that is being normalised anyway (this pass does not run on a
    # function whose callees all exist in the baseline), so that `x.map_err(log).ok().map(f)` reads as the `match` it replaces
    PLAIN = {
        r"result::Result::ok$": ("R", {"Ok": ("mk", "std::option::Option", "Some", ("a",)), "Err": ("mk", "std::option::Option", "None", None)}),
        r"result::Result::err$": ("R", {"Ok": ("mk", "std::option::Option", "None", None), "Err": ("mk", "std::option::Option", "Some", ("a",))}),
        r"option::Option::ok_or$": ("O", {"Some": ("mk", "std::result::Result", "Ok", ("a",)), "None": ("mk", "std::result::Result", "Err", ("dflt",))}),
    }

    def _closure_key_of(self, o):
        """key of the new closure that operand o holds (`o = {closure} agg`), else None"""
        p = _op_place(o)
        if p is None or len(p) != 1:
            return None
        defs = [st for b in self.rec["blocks"] if not b.get("cleanup") for st in b["stmts"] if st["lhs"] == p]
        # (the continuation of an inlined call may have been cloned per outcome: copies of the one `{closure}` statement are fine)
        if not defs or any(d["rv"]["r"] != "agg" or d["rv"].get("adt") != "{closure}" or d["rv"].get("closure") != defs[0]["rv"].get("closure") for d in defs):
            return None
        key = defs[0]["rv"].get("closure")
        key = self.fx._alias.get(norm(key), key)
        return key if key in self.new and key in self.fx._raw else None

    def _desugar(self, i, spec, key, key0=None):
        rec = self.rec
        b = rec["blocks"][i]
        t = b["term"]
        kind, arms = spec
        recv, clos = t["args"][0], t["args"][-1]
        rp = _op_place(recv)
        if rp is None or len(t["args"]) not in (1, 2, 3):
            return False
        crec = json.loads(self.fx._raw[key]) if key is not None else None
        crec0 = json.loads(self.fx._raw[key0]) if key0 is not None else None
        ln = t.get("ln", 0)
        meta = self.meta[i]

        def new_local(ty):
            rec["locals"].append(ty)
            return len(rec["locals"]) - 1

        def new_block(stmts, term):
            rec["blocks"].append({"cleanup": False, "stmts": stmts, "term": term, "inl_at": b.get("inl_at", ln)})
            self.meta[len(rec["blocks"]) - 1] = meta
            return len(rec["blocks"]) - 1
        adt = "std::option::Option" if kind == "O" else "std::result::Result"
        vars_ = {"0": "None", "1": "Some"} if kind == "O" else {"0": "Ok", "1": "Err"}
        d = new_local("isize")
        targets = []
        for idx, vn in sorted(vars_.items()):
            what = arms[vn]
            stmts = []
            payload = {"m": rp + ["@" + vn, ".0"]}

            def value(w, stmts):
                # -> (operand, pending call or None)
                if w[0] == "self":
                    return {"m": rp}, None
                if w[0] == "a":
                    return payload, None
                if w[0] == "false":
                    return {"k": {"ty": "bool", "v": 0}}, None
                if w[0] == "agg":
                    l = new_local(adt)
                    stmts.append({"lhs": [l], "rv": {"r": "agg", "adt": adt, "var": w[1], "fields": [], "ops": []}, "ln": ln, "ex": None, "inl": "comb"})
                    return {"m": [l]}, None
                if w[0] == "dflt":
                    return t["args"][1], None
                if w[0] in ("call", "call0"):
                    tup = new_local("(tuple)")
                    stmts.append({"lhs": [tup], "rv": {"r": "agg", "adt": "(tuple)", "ops": [payload] if w[1] else []}, "ln": ln, "ex": None, "inl": "comb"})
                    r = new_local((crec if w[0] == "call" else crec0).get("ret", "?"))
                    return {"m": [r]}, (tup, r, (key, clos) if w[0] == "call" else (key0, t["args"][1]))
                if w[0] in ("wrap", "wrapr"):
                    inner, call = value(w[2], stmts)
                    return ("wrapped", w[1], inner), call
                if w[0] == "mk":
                    inner, call = value(w[3], stmts) if w[3] is not None else (None, None)
                    return ("made", w[1], w[2], inner), call
                return None, None
            val, call = value(what, stmts)
            tail = []
            if isinstance(val, tuple) and val[0] == "made":
                tail.append({"lhs": t["dest"], "rv": {"r": "agg", "adt": val[1], "var": val[2], "fields": ["0"] if val[3] is not None else [], "ops": [val[3]] if val[3] is not None else []},
                             "ln": ln, "ex": None, "inl": "comb"})
            elif isinstance(val, tuple):
                tail.append({"lhs": t["dest"], "rv": {"r": "agg", "adt": adt if what[0] == "wrap" else "std::result::Result", "var": val[1], "fields": ["0"], "ops": [val[2]]},
                             "ln": ln, "ex": None, "inl": "comb"})
            else:
                tail.append({"lhs": t["dest"], "rv": {"r": "use", "o": val}, "ln": ln, "ex": None, "inl": "comb"})
            # what the arm is known to store: lets the caller's `match` / `?` on the result be specialised for this arm
            known = None
            if what[0] == "self":
                known = [vn]
            elif what[0] in ("wrap", "wrapr", "agg"):
                known = [what[1]]
            elif what[0] == "mk":
                known = [what[2]]
            elif what[0] == "false":
                known = ["false"]
            cont = t["t"]
            if known is not None and len(t["dest"]) == 1:
                cont = self._specialise(t["t"], {t["dest"][0]: known}, meta)
            if call is None:
                bi = new_block(stmts + tail, {"k": "goto", "t": cont, "ln": ln, "ex": None})
            else:
                tup, r, (ckey, cop) = call
                after = new_block(tail, {"k": "goto", "t": cont, "ln": ln, "ex": None})
                bi = new_block(stmts, {"k": "call", "f": {"def": ckey, "res": ckey, "local": True, "res_local": True, "args": []},
                                       "args": [cop, {"m": [tup]}], "dest": [r], "t": after, "fln": ln, "ln": ln, "ex": None})
            targets.append([int(idx), bi])
        kn = b.get("known_recv")
        if kn and kn[0] in vars_.values():
            # the receiver's variant is known on this (specialised) path: the other arms are dead
            dead = new_block([], {"k": "unreachable", "ln": ln, "ex": None})
            targets = [[idx_, bi_ if vars_[str(idx_)] == kn[0] else dead] for idx_, bi_ in targets]
        b["stmts"].append({"lhs": [d], "rv": {"r": "discr", "p": rp, "adt": adt, "vars": vars_}, "ln": ln, "ex": None, "inl": "comb"})
        b["term"] = {"k": "switch", "o": {"m": [d]}, "targets": targets[:-1], "otherwise": targets[-1][1], "ln": ln, "ex": t.get("ex"), "inl_comb": _callee_name(t)}
        self.done.append("combinator:" + (_callee_name(t) or "?"))
        return True

    def run(self):
        rec = self.rec
        i = 0
        while i < len(rec["blocks"]):
            b = rec["blocks"][i]
            t = b["term"]
            if t["k"] == "call" and not b.get("cleanup") and t.get("t") is not None and len(rec["blocks"]) < MAX_BLOCKS:
                name = _callee_name(t)
                depth, stack = self.meta[i]
                if name is not None and len(t["args"]) in (1, 2):
                    pspec = None
                    for rx, sp in self.PLAIN.items():
                        if re.search(rx, name):
                            pspec = sp
                    needs_dflt = pspec is not None and any(w[3] == ("dflt",) for w in pspec[1].values())
                    if pspec is not None and needs_dflt == (len(t["args"]) == 2) and self._desugar(i, pspec, None, None):
                        continue
                if name is not None and len(t["args"]) in (2, 3):
                    spec = None
                    for rx, sp in self.COMB.items():
                        if sp is not None and re.search(rx, name):
                            spec = sp
                    uses0 = spec is not None and any(w[0] == "call0" for w in spec[1].values())
                    three = spec is not None and any(w[0] in ("call0", "dflt") for w in spec[1].values())
                    if spec is not None and three == (len(t["args"]) == 3):
                        ck = self._closure_key_of(t["args"][-1])
                        ck0 = self._closure_key_of(t["args"][1]) if uses0 else None
                        # (every closure the spelled-out form calls must have a body to inline: a new closure, see _closure_key_of)
                        if ck is not None and (not uses0 or ck0 is not None) and self._desugar(i, spec, ck, ck0):
                            continue
                if name is not None:
                    key, crec = self._callee_rec(name)
                    if crec is None and name.endswith("::into") and len((t.get("f") or {}).get("args") or []) == 2:
                        # `x.into()` through the blanket impl: the body that runs is `<U as From<T>>::from`; when that impl is new, it
                        # is inlined in place of the call
                        src, dst = t["f"]["args"]
                        key, crec = self._callee_rec("<%s as std::convert::From<%s>>::from" % (dst, src))
                    if crec is not None and key not in stack and depth < MAX_DEPTH:
                        if crec.get("coroutine"):
                            self._inline_poll(i, key, crec, depth, stack)
                        else:
                            self._inline_call(i, key, crec, depth, stack)
            i += 1
        rec["inlined"] = self.done
        rec["inline_failed"] = self.failed
        return rec

    def _append(self, key, crec, depth, stack):
        rec = self.rec
        loff, boff = len(rec["locals"]), len(rec["blocks"])
        rec["locals"].extend(crec["locals"])
        short = key.rsplit("::", 2)[-1] if "{closure" not in key else "::".join(key.rsplit("::", 2)[-2:])
        for n, p in crec.get("names", []):
            rec["names"].append(["%s/%s" % (short, n), _shift_place(p, loff)])
        blocks = _shift(crec["blocks"], loff, boff)
        for j in range(len(blocks)):
            self.meta[boff + j] = (depth + 1, stack + (key,))
            # where the code sits in the *root* function: the line of the (outermost) call that was replaced by it
            blocks[j]["inl_at"] = self._at
        return loff, boff, blocks

    def _inline_call(self, i, key, crec, depth, stack):
        rec = self.rec
        b = rec["blocks"][i]
        t = b["term"]
        args = t["args"]
        argc = crec["argc"]
        is_closure = crec.get("kind") == "Closure"
        self._at = b.get("inl_at", t.get("ln", 0))
        loff, boff, blocks = self._append(key, crec, depth, stack)
        ln = t.get("ln", 0)
        binds = []
        if is_closure and len(args) == 2:
            # Fn*::call(env, (a1, .., an)): the arguments arrive as one tuple
            binds.append((1, args[0]))
            tp = _op_place(args[1])
            for j in range(argc - 1):
                if tp is not None:
                    binds.append((2 + j, {"c": tp + [".%d" % j]}))
        else:
            if len(args) != argc:
                # unexpected calling convention: leave the call alone
                del rec["locals"][loff:]
                for j in range(len(blocks)):
                    self.meta.pop(boff + j, None)
                self.failed.append(key)
                return
            for j, a in enumerate(args):
                binds.append((1 + j, a))
        # names of the inlined locals: a parameter that is (a reference to) a named variable of the caller takes that name - it is the
        # same object -, the others keep their own name unless the caller already uses it (then `callee/name`)
        arg_names = {loff + pl: self._arg_name(b, a) for pl, a in binds}
        taken = {n for n, pp in rec["names"] if "/" not in n}
        for e in rec["names"]:
            n, pp = e
            if "/" not in n or not (len(pp) >= 1 and loff <= pp[0] < len(rec["locals"])):
                continue
            bare = n.split("/", 1)[1]
            if len(pp) == 1 and arg_names.get(pp[0]):
                e[0] = arg_names[pp[0]]
            elif bare not in taken:
                e[0] = bare
        for pl, a in binds:
            if not is_closure and pl == 1 and rec.get("argc", 0) >= 1 and self._is_self_reborrow(b, a) and crec["locals"][1] == rec["locals"][1]:
                # a method of the same type called on `self`: the helper's `self` *is* the caller's `self` (`_1`), so that
                # `*self = ..` / `self.field` written in the helper read exactly as they did before the block was moved out
                blocks = _rename_local(blocks, loff + 1, 1)
                continue
            b["stmts"].append({"lhs": [loff + pl], "rv": {"r": "use", "o": a}, "ln": ln, "ex": None, "inl": "arg"})
        rec["blocks"].extend(blocks)
        self._split_return_tails(boff, len(blocks), loff, depth, stack + (key,))
        for j in range(boff, len(rec["blocks"])):
            nb = rec["blocks"][j]
            if nb["term"]["k"] == "return" and not nb.get("cleanup"):
                rln = nb["term"].get("ln", ln)
                kv = nb.pop("ret_variant", None)
                nb["stmts"].append({"lhs": t["dest"], "rv": {"r": "use", "o": {"m": [loff]}}, "ln": rln, "ex": None, "inl": "ret"})
                kv = self._known_variant(nb, loff) or kv
                tgt = t["t"]
                if kv is not None and len(t["dest"]) == 1:
                    tgt = self._specialise(t["t"], {t["dest"][0]: [kv[1]]}, (depth, stack))
                rec["blocks"][j]["term"] = {"k": "goto", "t": tgt, "ln": rln, "ex": None}
        b["term"] = {"k": "goto", "t": boff, "ln": ln, "ex": t.get("ex"), "inl_call": key}
        self.done.append(key)

    def _is_self_reborrow(self, b, a):
        """the argument operand is `self` itself or a reborrow `&mut *self` / `&*self` of the caller's first parameter"""
        p = _op_place(a)
        for _ in range(4):
            if p is None:
                return False
            base = [x for x in p if x != "*"]
            if base == [1]:
                return True
            if len(base) != 1:
                return False
            d = [s_ for s_ in b["stmts"] if s_["lhs"] == [base[0]]]
            if len(d) != 1:
                return False
            rv = d[0]["rv"]
            if rv["r"] == "ref":
                p = rv["p"]
            elif rv["r"] == "use":
                p = _op_place(rv["o"])
            else:
                return False
        return False

    def _arg_name(self, b, a):
        """source name of the caller's variable that the argument operand is, or refers to"""
        p = _op_place(a)
        names = {}
        for n, pp in self.rec["names"]:
            names.setdefault(tuple(pp), n)
        for _ in range(4):
            if p is None:
                return None
            base = [x for x in p if x != "*"]
            n = names.get(tuple(base))
            if n:
                return n
            if len(base) != 1:
                return None
            d = [s_ for s_ in b["stmts"] if s_["lhs"] == [base[0]]]
            if len(d) != 1:
                return None
            rv = d[0]["rv"]
            if rv["r"] == "ref":
                p = rv["p"]
            elif rv["r"] == "use":
                p = _op_place(rv["o"])
            else:
                return None
        return None

    # ---- tail duplication: one return path per site that decides the returned variant ------------------------------------------------
    @staticmethod
    def _succs(term):
        k = term["k"]
        if k == "switch":
            return [bb for _, bb in term["targets"]] + [term["otherwise"]]
        if k in ("goto", "call", "drop", "assert", "yield"):
            return [term["t"]] if term.get("t") is not None else []
        return []

    @staticmethod
    def _remap(term, m):
        t = dict(term)
        if t["k"] == "switch":
            t["targets"] = [[v, m.get(bb, bb)] for v, bb in t["targets"]]
            t["otherwise"] = m.get(t["otherwise"], t["otherwise"])
        elif t.get("t") is not None and t["k"] in ("goto", "call", "drop", "assert", "yield"):
            t["t"] = m.get(t["t"], t["t"])
        return t

    def _agg_variant(self, rv, lo, hi):
        if rv["r"] == "agg" and rv.get("var"):
            return (rv.get("adt"), rv["var"])
        if rv["r"] == "use" and (rv["o"].get("k") or {}).get("ty") == "bool" and rv["o"]["k"].get("v") in (0, 1):
            return ("bool", "true" if rv["o"]["k"]["v"] == 1 else "false")
        if rv["r"] == "use":
            q = _op_place(rv["o"])
            if q is not None and len(q) == 1:
                defs = [s for b in self.rec["blocks"][lo:hi] for s in b["stmts"] if s["lhs"][0] == q[0]]
                if len(defs) == 1 and defs[0]["lhs"] == q and defs[0]["rv"]["r"] == "agg" and defs[0]["rv"].get("var"):
                    return (defs[0]["rv"].get("adt"), defs[0]["rv"]["var"])
        return None

    def _split_return_tails(self, lo, n, ret_local, depth, stack):
        """MIR has one return block per function: `_0 = Ok(..)` and `_0 = Err(..)` are assigned at different sites whose (drop) tails
        converge on it.  Give every site that fixes the variant of the return value a private copy of its tail, so that the copy of the
        return block knows which variant it returns (`ret_variant`) and can be threaded into the caller's match."""
        rec = self.rec
        hi = lo + n
        sites = []
        other_defs = set()
        for j in range(lo, hi):
            b = rec["blocks"][j]
            if b.get("cleanup"):
                continue
            kv = "none"
            for s in b["stmts"]:
                if s["lhs"][0] == ret_local:
                    kv = self._agg_variant(s["rv"], lo, hi) if s["lhs"] == [ret_local] else None
            t = b["term"]
            if t["k"] == "call" and t.get("dest", [None])[0] == ret_local:
                kv = None
                if t.get("dest") == [ret_local] and re.search(r"FromResidual(<.*>)?>?::from_residual$", _callee_name(t) or ""):
                    # the error path of `?`: from_residual builds Err(..) / None of the function's return type
                    rt = rec["locals"][ret_local]
                    if rt.startswith("std::result::Result<"):
                        kv = ("std::result::Result", "Err")
                    elif rt.startswith("std::option::Option<"):
                        kv = ("std::option::Option", "None")
            if kv == "none":
                continue
            if kv is None:
                other_defs.add(j)
            else:
                sites.append((j, kv))
        if len(sites) + len(other_defs) < 2:
            for j, kv in sites:
                # a single deciding site: every return block reached from it returns that variant
                for r in range(lo, hi):
                    if rec["blocks"][r]["term"]["k"] == "return" and not rec["blocks"][r].get("cleanup") and not other_defs:
                        rec["blocks"][r]["ret_variant"] = kv
            return
        def_blocks = {j for j, _ in sites} | other_defs
        for j, kv in sites:
            # region: blocks reachable from j's successors up to a return, not entering another definition of the return place
            region, work, ok = [], list(self._succs(rec["blocks"][j]["term"])), True
            seen = set()
            while work and ok:
                x = work.pop()
                if x in seen:
                    continue
                seen.add(x)
                if x == j or x in def_blocks or not (lo <= x < hi) or len(seen) > 60:
                    ok = False
                    break
                region.append(x)
                work += self._succs(rec["blocks"][x]["term"])
            if not ok or not any(rec["blocks"][x]["term"]["k"] == "return" for x in region):
                continue
            m = {}
            for x in region:
                m[x] = len(rec["blocks"]) + len(m)
            for x in region:
                nb = copy.deepcopy(rec["blocks"][x])
                nb["term"] = self._remap(nb["term"], m)
                if nb["term"]["k"] == "return":
                    nb["ret_variant"] = kv
                rec["blocks"].append(nb)
                self.meta[m[x]] = (depth + 1, stack)
            rec["blocks"][j]["term"] = self._remap(rec["blocks"][j]["term"], m)

    # ---- specialisation of the caller's continuation for a known returned variant ---------------------------------------------------
    def _known_variant(self, nb, ret_local):
        """variant of the aggregate that this return block stores in the callee's return place, if the block itself decides it"""
        var = None
        for s in nb["stmts"]:
            if s["lhs"] == [ret_local]:
                rv = s["rv"]
                var = (rv.get("adt"), rv.get("var")) if rv["r"] == "agg" and rv.get("var") else None
                if rv["r"] == "use" and (rv["o"].get("k") or {}).get("ty") == "bool" and rv["o"]["k"].get("v") in (0, 1):
                    var = ("bool", "true" if rv["o"]["k"]["v"] == 1 else "false")
            elif s["lhs"][0] == ret_local:
                var = None
        return var

    BRANCH = {("Ok",): ["Continue"], ("Err",): ["Break"], ("Some",): ["Continue"], ("None",): ["Break"],
              ("Ready", "Ok"): ["Continue", "Ready"], ("Ready", "Err"): ["Break"], ("Pending",): ["Continue", "Pending"]}

    def _specialise(self, target, facts, meta):
        """A helper that returns `Ok(..)` on one path and `Err(..)` on another is followed, in the caller, by a `match` / `?` / the
        Ready-Pending switch of an await.  After inlining, all return sites would flow into that one continuation and every path
        query would see the infeasible combinations (the Err return taking the Ok arm).  So the continuation is specialised per
        return site: its blocks are cloned along the way while something is known about the returned value (`facts`: local ->
        [variant, variant of its payload, ..]), `discr` switches over a known variant are folded in the clone, `Try::branch` maps the
        knowledge to Continue / Break.  The walk is linear (it stops at the first branch it cannot fold) and bounded."""
        rec = self.rec
        first = None
        prev = None          # (block index, how to patch its successor)
        seen = set()
        cur = target
        dconst = {}
        def mentions(blk, locs):
            def walk(x):
                if isinstance(x, dict):
                    for k, v in x.items():
                        if k in PLACE_KEYS and isinstance(v, list) and v and v[0] in locs:
                            return True
                        if walk(v):
                            return True
                elif isinstance(x, list):
                    return any(walk(y) for y in x)
                return False
            return walk(blk["stmts"]) or walk({k: v for k, v in blk["term"].items() if k != "f"})

        used = {}            # local -> number of leading variants of its chain that a folded switch has consumed
        refs = {}            # local holding `&x` -> x, for x a local something is known about

        def pending():
            return any(used.get(l, 0) < len(ch) for l, ch in facts.items())

        for _ in range(18):
            if cur is None or cur in seen or not facts or not pending() or rec["blocks"][cur].get("cleanup"):
                break
            cb_ = rec["blocks"][cur]
            trivial = not cb_["stmts"] and cb_["term"]["k"] in ("goto", "drop")
            if not trivial and not mentions(cb_, set(facts) | set(dconst)):
                # the known value is not looked at here: the specialised copy would only duplicate ordinary code
                break
            seen.add(cur)
            nb = copy.deepcopy(rec["blocks"][cur])
            nb.pop("ret_variant", None)
            ni = len(rec["blocks"])
            rec["blocks"].append(nb)
            self.meta[ni] = meta
            if first is None:
                first = ni
            if prev is not None:
                pb = rec["blocks"][prev]
                pb["term"] = self._remap(pb["term"], {cur: ni})
            prev = ni
            # statements
            for st in nb["stmts"]:
                lhs, rv = st["lhs"], st["rv"]
                if rv["r"] == "discr":
                    p = rv.get("p") or []
                    vars_ = rv.get("vars", {})
                    want = None
                    if len(p) == 1 and facts.get(p[0]):
                        want = facts[p[0]][0]
                    elif len(p) == 3 and facts.get(p[0]) and len(facts[p[0]]) >= 2 and p[1] == "@" + facts[p[0]][0] and p[2] == ".0":
                        want = facts[p[0]][1]
                    if len(lhs) == 1:
                        # the clone gets a discriminant temporary of its own, so that the original `d = discr(x); switch d` keeps a
                        # once-assigned operand (cfg.discr_switches)
                        fresh = len(rec["locals"])
                        rec["locals"].append(rec["locals"][lhs[0]])
                        old_l = lhs[0]
                        st["lhs"] = [fresh]
                        lhs = st["lhs"]
                        tt = nb["term"]
                        if tt["k"] == "switch" and _op_place(tt["o"]) == [old_l]:
                            tt["o"] = {"m": [fresh]}
                    if want is not None and len(lhs) == 1:
                        idx = [int(k) for k, v in vars_.items() if v == want]
                        if len(idx) == 1:
                            dconst[lhs[0]] = idx[0]
                            used[p[0]] = max(used.get(p[0], 0), 1 if len(p) == 1 else 2)
                    continue
                if len(lhs) == 1 and lhs[0] in facts:
                    del facts[lhs[0]]
                    used.pop(lhs[0], None)
                if len(lhs) == 1 and lhs[0] in dconst:
                    del dconst[lhs[0]]
                if rv["r"] == "un" and rv.get("op") == "Not" and len(lhs) == 1:
                    q = _op_place(rv["o"])
                    if q is not None and len(q) == 1 and facts.get(q[0]) in (["true"], ["false"]):
                        facts[lhs[0]] = ["false"] if facts[q[0]] == ["true"] else ["true"]
                    continue
                if rv["r"] == "ref" and len(lhs) == 1 and len(rv.get("p") or []) == 1 and rv["p"][0] in facts:
                    refs[lhs[0]] = rv["p"][0]
                    continue
                if rv["r"] == "use" and len(lhs) == 1:
                    q = _op_place(rv["o"])
                    if q is None:
                        continue
                    if len(q) == 1 and q[0] in refs:
                        refs[lhs[0]] = refs[q[0]]
                    if len(q) == 1 and q[0] in facts:
                        facts[lhs[0]] = list(facts[q[0]])
                    elif len(q) == 3 and q[0] in facts and q[1] == "@" + facts[q[0]][0] and q[2] == ".0" and len(facts[q[0]]) >= 2:
                        facts[lhs[0]] = facts[q[0]][1:]
            t = nb["term"]
            k = t["k"]
            if k == "switch":
                d = _op_place(t["o"])
                if d is not None and len(d) == 1 and facts.get(d[0]) in (["true"], ["false"]):
                    dconst[d[0]] = 1 if facts[d[0]] == ["true"] else 0
                    used[d[0]] = 1
                if d is not None and len(d) == 1 and d[0] in dconst:
                    idx = dconst[d[0]]
                    tgt = t["otherwise"]
                    for val, bb in t["targets"]:
                        if val == idx:
                            tgt = bb
                    nb["term"] = {"k": "goto", "t": tgt, "ln": t.get("ln", 0), "ex": t.get("ex"), "folded": idx}
                    cur = tgt
                    continue
                break
            if k == "goto":
                cur = t["t"]
                continue
            if k == "call":
                nm = _callee_name(t) or ""
                d = t.get("dest") or []
                # what is known about the receiver stays with the cloned call: a combinator spelled out later (`_desugar`) takes
                # the matching arm only
                a0 = _op_place(t["args"][0]) if t.get("args") else None
                if a0 is not None and len(a0) == 1 and facts.get(a0[0]):
                    nb["known_recv"] = list(facts[a0[0]])
                if len(d) == 1:
                    facts.pop(d[0], None)
                    dconst.pop(d[0], None)
                mq = re.search(r"(?:option::Option|result::Result)(?:<.*>)?::(is_some|is_none|is_ok|is_err)$", nm)
                if mq and len(t["args"]) == 1 and len(d) == 1:
                    a = _op_place(t["args"][0])
                    src = refs.get(a[0]) if a is not None and len(a) == 1 else None
                    if src is None and a is not None and len(a) == 1 and a[0] in facts:
                        src = a[0]
                    if src is not None and facts.get(src):
                        pos = facts[src][0] in ("Some", "Ok")
                        want_pos = mq.group(1) in ("is_some", "is_ok")
                        facts[d[0]] = ["true"] if pos == want_pos else ["false"]
                        used[src] = max(used.get(src, 0), 1)
                if re.search(r"Try>?::branch$", nm) and len(t["args"]) == 1:
                    a = _op_place(t["args"][0])
                    if a is not None and len(a) == 1 and a[0] in facts and len(d) == 1:
                        f = facts[a[0]]
                        m = self.BRANCH.get(tuple(f[:2])) or self.BRANCH.get(tuple(f[:1]))
                        if m is not None:
                            facts[d[0]] = list(m)
                cur = t.get("t")
                continue
            if k in ("drop", "assert"):
                cur = t.get("t")
                continue
            break
        return first if first is not None else target

    def _inline_poll(self, i, key, crec, depth, stack):
        rec = self.rec
        b = rec["blocks"][i]
        t = b["term"]
        args = t["args"]
        if len(args) != 2:
            self.failed.append(key)
            return
        parent = norm(re.sub(r"::\{closure#\d+\}$", "", key))
        pl = _op_place(args[0])
        ctor = _find_ctor(rec, pl[0], parent, key) if pl else None
        if ctor is None:
            self.failed.append(key)
            return
        cb = rec["blocks"][ctor[1]]
        cargs = ctor[2] if ctor[0] == "call" else ctor[3]
        self._at = b.get("inl_at", t.get("ln", 0))
        loff, boff, blocks = self._append(key, crec, depth, stack)
        ln = t.get("ln", 0)
        caps = {}
        binds = []
        for j, a in enumerate(cargs):
            caps[j] = len(rec["locals"])
            rec["locals"].append(_op_type(rec, a))
            # a copy, so that the constructor's own use of the operand (a move into the coroutine) stays valid for the data-flow queries
            src = {"c": _op_place(a)} if _op_place(a) is not None else a
            binds.append({"lhs": [caps[j]], "rv": {"r": "use", "o": src}, "ln": ln, "ex": None, "inl": "cap"})
        if ctor[0] == "call":
            cb["stmts"].extend(binds)
        else:
            cb["stmts"][ctor[2]:ctor[2]] = binds
        blocks = _replace_captures(blocks, loff + 1, caps)
        b["stmts"].append({"lhs": [loff + 2], "rv": {"r": "use", "o": args[1]}, "ln": ln, "ex": None, "inl": "arg"})
        rec["blocks"].extend(blocks)
        self._split_return_tails(boff, len(blocks), loff, depth, stack + (key,))
        for j in range(boff, len(rec["blocks"])):
            nb = rec["blocks"][j]
            if nb["term"]["k"] == "return" and not nb.get("cleanup"):
                rln = nb["term"].get("ln", ln)
                kv = nb.pop("ret_variant", None)
                kv = self._known_variant(nb, loff) or kv
                nb["stmts"].append({"lhs": t["dest"], "rv": {"r": "agg", "adt": "std::task::Poll", "var": "Ready", "fields": ["0"], "ops": [{"m": [loff]}]},
                                    "ln": rln, "ex": None, "inl": "ret"})
                tgt = t["t"]
                if len(t["dest"]) == 1:
                    tgt = self._specialise(t["t"], {t["dest"][0]: ["Ready"] + ([kv[1]] if kv is not None else [])}, (depth, stack))
                rec["blocks"][j]["term"] = {"k": "goto", "t": tgt, "ln": rln, "ex": None}
        b["term"] = {"k": "goto", "t": boff, "ln": ln, "ex": t.get("ex"), "inl_call": key}
        self.done.append(key)


def inline_new(fx, key, rec, new_fns):
    """record of `key` with every (transitive) direct call to a function of `new_fns` inlined; `rec` itself if there is none"""
    s = fx.sums.get(key)
    if s is not None:
        names = {norm(r or d) for d, r in s.get("calls", []) if (r or d)}
        via_into = any(n.endswith("::into") for n in names) and any(k.startswith("<") and " as std::convert::From<" in k for k in new_fns)
        if not any(fx._alias.get(n, n) in new_fns for n in names) and not any(k.startswith(key + "::{closure") for k in new_fns) and not via_into:
            return rec
    out = Inliner(fx, key, rec, new_fns).run()
    return out if out.get("inlined") else rec
