"""Loading of the fact file written by the driver (lazy JSON parsing per function)."""
import json
import re

_DEF_RE = re.compile(r'^\{"t":"(\w+)","def":"((?:[^"\\]|\\.)*)"(?:,"idx":(\d+))?')
_GEN_RE = re.compile(r"::<[^<>]*(?:<[^<>]*(?:<[^<>]*(?:<[^<>]*>[^<>]*)*>[^<>]*)*>[^<>]*)*>")


def norm(path):
    """Strip turbofish/generic segments: `Option::<T>::ok_or` -> `Option::ok_or`,
    `<Foo<T> as Trait>::m` is left with its impl header intact except generic args."""
    if path is None:
        return None
    prev = None
    while prev != path:
        prev = path
        path = _GEN_RE.sub("", path)
    return path


class Facts:
    def __init__(self, path, cfg="default", text_aliases=None, enum_options=None):
        """text_aliases: [(current def path, baseline def path)] of renamed types / constants (engine/normalise.py): every occurrence
        of the current path in the fact file reads as the baseline path"""
        self.path = path
        self.cfg = cfg
        self.text_aliases = list(text_aliases or [])
        # enum_options: [(E, unit variant, data variant, payload type, [other types that have a variant of either name])] - a private
        # enum `E { U, D(T) }` that took the place of an `Option<T>` (engine/normalise.py) reads as that Option
        self.enum_options = list(enum_options or [])
        eo = []
        for E, U, D, T, clash, fname in self.enum_options:
            e = re.escape(E)
            eo.append((E, U, D, clash, fname,
                       re.compile(r'"adt":"%s","var":"(%s|%s)"(,"fields":\["%s"\])?' % (e, re.escape(U), re.escape(D), re.escape(fname))),
                       re.compile(r'("adt":")%s(","vars":\{)([^}]*)(\})' % e),
                       re.compile(r'"%s::(%s|%s)"' % (e, re.escape(U), re.escape(D))),
                       re.compile(r'"@(%s|%s)"' % (re.escape(U), re.escape(D))),
                       re.compile(r"(?<![\w:])" + e + r"(?!\w)"),
                       "std::option::Option<%s>" % T))
        # one simultaneous substitution (a -> b and b -> c must not chain), longest path first
        amap = dict(self.text_aliases)
        arx = re.compile(r"(?<![\w:])(" + "|".join(re.escape(c) for c in sorted(amap, key=len, reverse=True)) + r")(?!\w)") if amap else None
        # cheap pre-filter: a fragment that every aliased path contains
        frags = sorted({c.rsplit("::", 1)[-1] if "{closure#" not in c else c[:c.index("::{closure#")].rsplit("::", 1)[-1] for c in amap})
        self._raw = {}       # key -> raw json line of fn record
        self._fn = {}        # key -> parsed
        self.keys_by_def = {}  # def path -> [keys]
        self.sums = {}       # key -> {"calls":[(def,res)], "aggs":[..]}
        self.adts = {}
        self.consts = {}
        self.impls = []
        self.meta = {}
        with open(path, "r") as f:
            for line in f:
                for E, U, D, clash, fname, rx_agg, rx_dis, rx_sum, rx_proj, rx_ty, opt_ty in eo:
                    if E not in line:
                        continue
                    vmap = {U: "None", D: "Some"}
                    line = rx_agg.sub(lambda m_: '"adt":"std::option::Option","var":"%s"%s' % (vmap[m_.group(1)], ',"fields":["0"]' if m_.group(2) else ""), line)
                    if fname != "0" and not any(c_ in line for c_ in clash):
                        # `x@D.field` of a struct-like variant is the payload `x@Some.0`
                        line = line.replace('"@%s",".%s"' % (D, fname), '"@Some",".0"')
                    line = rx_dis.sub(lambda m_: m_.group(1) + "std::option::Option" + m_.group(2) +
                                      re.sub(r'"(%s|%s)"' % (re.escape(U), re.escape(D)), lambda q: '"%s"' % vmap[q.group(1)], m_.group(3)) + m_.group(4), line)
                    line = rx_sum.sub(lambda m_: '"std::option::Option::%s"' % vmap[m_.group(1)], line)
                    if not any(c_ in line for c_ in clash):
                        line = rx_proj.sub(lambda m_: '"@%s"' % vmap[m_.group(1)], line)
                    line = rx_ty.sub(opt_ty, line)
                if arx is not None and any(fr in line for fr in frags):
                    line = arx.sub(lambda m_: amap[m_.group(1)], line)
                m = _DEF_RE.match(line)
                if m and m.group(1) == "fn":
                    d = json.loads('"' + m.group(2) + '"')
                    key = self._key(d, m.group(3))
                    self._raw[key] = line
                    continue
                r = json.loads(line)
                t = r["t"]
                if t == "sum":
                    key = self._key(r["def"], str(r["idx"]))
                    self.sums[key] = r
                elif t == "adt":
                    self.adts[r["def"]] = r
                elif t == "const":
                    self.consts[r["def"]] = r
                elif t == "impl":
                    self.impls.append(r)
                elif t == "meta":
                    self.meta = r
        self._callers = None
        self._aggsites = None
        self.new_fns = set()      # functions that do not exist in the baseline (engine/normalise.py)
        self._hidden = None
        self.normalisation = {}
        # normalised (generic-free) aliases: `Ctx::<T>::m` is addressable as `Ctx::m`
        self._alias = {}
        for k in self._raw:
            n = norm(k)
            if n != k and n not in self._raw:
                self._alias.setdefault(n, k)

    def _key(self, d, idx):
        ks = self.keys_by_def.setdefault(d, [])
        for k, i in ks:
            if i == idx:
                return k
        k = d if not ks else "%s#%d" % (d, len(ks) + 1)
        ks.append((k, idx))
        return k

    # ------------------------------------------------------------------
    def fn_keys_raw(self):
        return list(self._raw.keys())

    def fn_keys(self):
        h = self.hidden()
        return [k for k in self._raw if k not in h]

    # ------------------------------------------------------------------ baseline-relative view
    def set_new_fns(self, new):
        """functions absent from the baseline: their bodies are inlined into their callers (engine/inline.py); the summaries of the
        callers are merged accordingly so that crate-wide pre-filters see the moved code where it used to be"""
        self.new_fns = set(new)
        self._fn.clear()
        self._hidden = None
        self._callers = None
        self._aggsites = None
        if not self.new_fns:
            return
        self._raw_sums = self.sums
        memo = {}

        def merged(k, stack=()):
            if k in memo:
                return memo[k]
            s = self._raw_sums.get(k)
            if s is None:
                return {"calls": [], "aggs": []}
            calls = list(s["calls"])
            aggs = list(s["aggs"])
            for d, r in s["calls"]:
                n = norm(r or d) if (r or d) else None
                ck = self._alias.get(n, n)
                if ck in self.new_fns and ck not in stack and ck != k:
                    m = merged(ck, stack + (k,))
                    calls += [c for c in m["calls"] if c not in calls]
                    aggs += [a for a in m["aggs"] if a not in aggs]
            # what a new closure written in this function does counts as done here (it is spelled out in place when the combinator
            # that takes it is desugared, engine/inline.py)
            if k not in self.new_fns:
                for ck in self.new_fns:
                    if ck.startswith(k + "::{closure#") and ck not in stack:
                        m = merged(ck, stack + (k,))
                        calls += [c for c in m["calls"] if c not in calls]
                        aggs += [a for a in m["aggs"] if a not in aggs]
            out = dict(s)
            out["calls"] = calls
            out["aggs"] = aggs
            memo[k] = out
            return out
        self.sums = {k: merged(k) for k in self._raw_sums}

    def hidden(self):
        """new functions whose every use was absorbed by inlining: they are not iterated as bodies of their own"""
        if self._hidden is not None:
            return self._hidden
        self._hidden = set()
        if not self.new_fns:
            return self._hidden
        raw_callers = {}
        for k, s in getattr(self, "_raw_sums", self.sums).items():
            for d, r in s["calls"]:
                for x in (d, r):
                    if x:
                        raw_callers.setdefault(norm(x), set()).add(k)
        hid = set()
        for n in sorted(self.new_fns):
            if re.search(r"::\{closure#\d+\}", n) or (n.startswith("<") and " as " in n):
                continue
            callers = {c for c in raw_callers.get(norm(n), ()) if c != n and not c.startswith(n + "::{")}
            if not callers:
                continue
            cor = n + "::{closure#0}"
            is_async = cor in self.new_fns and (self.fn(cor) is not None and self.fn(cor).is_coroutine)
            ok = True
            for c in callers:
                f = self.fn(c)
                done = (f.rec.get("inlined") or []) if f is not None else []
                if n not in done or (is_async and cor not in done):
                    ok = False
            if ok:
                hid.add(n)
                if is_async:
                    hid.add(cor)
        # new closures that were spelled out in the function they are written in
        for n in sorted(self.new_fns):
            m = re.search(r"::\{closure#\d+\}", n)
            if not m:
                continue
            par = n[:m.start()]
            if par in self.new_fns or par not in self._raw:
                if par in hid:
                    hid.add(n)
                continue
            f = self.fn(par)
            done = (f.rec.get("inlined") or []) if f is not None else []
            top = n[:re.search(r"^.*?::\{closure#\d+\}", n).end()]
            if top in done:
                hid.add(n)
        self._hidden = hid
        return hid

    def has(self, key):
        return key in self._raw or key in self._alias

    def fn(self, key):
        """Parsed function record (Fn wrapper) by key; None if absent."""
        from cfg import Fn
        key = self._alias.get(key, key)
        if key in self._fn:
            return self._fn[key]
        raw = self._raw.get(key)
        if raw is None:
            return None
        rec = json.loads(raw)
        if self.new_fns:
            import inline
            rec = inline.inline_new(self, key, rec, self.new_fns)
        f = Fn(rec, key, self)
        self._fn[key] = f
        return f

    def find(self, pattern):
        """Keys whose def path matches the regex (search)."""
        rx = re.compile(pattern)
        h = self.hidden()
        out = [k for k in self._raw if k not in h and (rx.search(k) or rx.search(norm(k)))]
        # names of baseline functions that now live inside another function (engine/normalise.py `absorbed_fns`) are found under
        # their old name unless the function that absorbed them is in the result anyway
        for a, tgt in self._alias.items():
            if a not in self._raw and tgt in self._raw and norm(a) != norm(tgt) and tgt not in out and a not in out and rx.search(a) and not any(self._alias.get(o) == tgt for o in out):
                out.append(a)
        return out

    def callers(self):
        """callee (normalised def or res) -> set of caller keys"""
        if self._callers is None:
            c = {}
            h = self.hidden()
            for k, s in self.sums.items():
                if k in h:
                    continue
                k = getattr(self, "_moved", {}).get(k, k)
                for d, r in s["calls"]:
                    for x in (d, r):
                        if x:
                            c.setdefault(norm(x), set()).add(k)
            self._callers = c
        return self._callers

    def callers_of(self, callee):
        return sorted(self.callers().get(norm(callee), ()))

    def agg_sites(self):
        if self._aggsites is None:
            a = {}
            h = self.hidden()
            for k, s in self.sums.items():
                if k in h:
                    continue
                k = getattr(self, "_moved", {}).get(k, k)
                for g in s["aggs"]:
                    a.setdefault(g, set()).add(k)
            self._aggsites = a
        return self._aggsites

    def constructors_of(self, adt_variant):
        return sorted(self.agg_sites().get(adt_variant, ()))

    def const(self, name):
        r = self.consts.get(name)
        return None if r is None else r.get("v")

    def impls_of(self, trait_rx):
        rx = re.compile(trait_rx)
        return [i for i in self.impls if i["trait"] and rx.search(i["trait"])]
