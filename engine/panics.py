"""K6 inventory: panic-capable and allocation-sizing constructs of a MIR body.

A *panic site* is
  - an `Assert` terminator (bounds check, arithmetic overflow, division by zero, ...),
  - a call that cannot return (no return target: core::panicking::*, begin_panic, `!`-typed callees),
  - a call of a std/bytes API documented to panic on a precondition that depends on run-time values:
    unwrap/expect, slice/Vec/str indexing through Index/IndexMut, split_at/split_to/split_off/advance/
    copy_from_slice/clone_from_slice, Vec::remove/insert/swap_remove/drain/split_off/truncate(no), RangeTo slicing ...
An *allocation site* is a call whose size argument is a run-time integer: Vec::with_capacity, vec![x; n] (from_elem),
BytesMut::zeroed/with_capacity/resize/reserve, Vec::resize/reserve.

Sites that stem from the expansion of logging macros (tracing::*, log::*) are not reported: they format values and
cannot observe remote input lengths as indices.  `debug_assert!` expansions are listed with kind 'debug_assert'."""
import re

UNWRAP_RX = re.compile(r"(option::Option|result::Result)(<.*>)?::(unwrap|expect|unwrap_err|expect_err)$")
INDEX_RX = re.compile(r"ops::Index(Mut)?(<.*>)?>?::index(_mut)?$|SliceIndex(<.*>)?>?::(index|index_mut)$|"
                      r"(core|std)::(slice::index|array|str::traits)::(<impl .*>::)?index(_mut)?$")
PRECOND_RX = re.compile(
    r"slice::(<impl \[T\]>::)?(split_at|split_at_mut|copy_from_slice|clone_from_slice|copy_within|swap|chunks|chunks_exact|windows|rotate_left|rotate_right|split_first_chunk)$|"
    r"(bytes::)?(BytesMut|Bytes)::(split_to|split_off|advance|slice|truncate_front)$|Buf>?::(advance|copy_to_slice|copy_to_bytes|get_u8|get_u16|get_u32|get_u64|get_i\d+|split_to)$|"
    r"ReadBuf(<.*>)?::(put_slice|advance|set_filled)$|"
    r"bytes::BufMut::(put_slice|advance_mut)$|"
    r"vec::Vec(<.*>)?::(remove|swap_remove|insert|split_off|drain)$|VecDeque(<.*>)?::(remove|insert|drain|split_off|swap)$|"
    r"str::(<impl str>::)?(split_at|split_at_mut)$|string::String::(remove|insert|insert_str|split_off|drain|truncate)$|"
    r"num::(<impl \w+>::)?(pow|ilog2|ilog10|div_euclid|rem_euclid|abs|next_power_of_two)$|"
    r"cell::RefCell(<.*>)?::(borrow|borrow_mut)$|time::Instant::(sub|add|duration_since)$")
ALLOC_RX = re.compile(
    r"vec::Vec(<.*>)?::(with_capacity|resize|reserve|reserve_exact)$|vec::from_elem$|"
    r"(bytes::)?BytesMut::(zeroed|with_capacity|resize|reserve)$|VecDeque(<.*>)?::(with_capacity|reserve)$|"
    r"HashMap(<.*>)?::(with_capacity|reserve)$|HashSet(<.*>)?::(with_capacity|reserve)$|string::String::(with_capacity|reserve)$")
LOG_MACROS = re.compile(r"^(tracing|log|event|trace|debug|info|warn|error|span|valueset|fieldset|enabled|callsite|level_enabled|format_args|format|__tracing|__macro_support|if_log_enabled)")


def in_log_macro(ex):
    if not ex:
        return False
    for e in ex:
        if e.startswith("m:") and LOG_MACROS.search(e[2:].split("::")[-1]) or e.startswith("m:") and LOG_MACROS.search(e[2:]):
            return True
    return False


def macro_names(ex):
    return [e[2:] for e in (ex or []) if e.startswith("m:")]


def panic_sites(fn):
    """-> list of {kind, node, desc, call(optional)} for live, non-cleanup nodes"""
    out = []
    live = fn.live_nodes()
    for bb, b in enumerate(fn.blocks):
        if b["cleanup"]:
            continue
        node = (bb, len(b["stmts"]))
        if node not in live:
            continue
        t = b["term"]
        ex = t.get("ex")
        if in_log_macro(ex):
            continue
        ms = macro_names(ex)
        if t["k"] == "assert":
            kind = "assert:" + re.split(r"[(\s]", t.get("msg", "?"))[0]
            out.append({"kind": kind, "node": node, "desc": t.get("msg", "")[:80], "macros": ms})
        elif t["k"] == "call":
            c = fn.call_at(node)
            nm = c.name or ""
            if t.get("t") is None:
                kind = "diverge"
                if any(m.endswith("debug_assert") or m.endswith("debug_assert_eq") or m.endswith("debug_assert_ne") for m in ms):
                    kind = "debug_assert"
                elif any(m.split("::")[-1] in ("unreachable", "panic", "todo", "unimplemented", "assert", "assert_eq", "assert_ne") for m in ms):
                    kind = "explicit:" + [m.split("::")[-1] for m in ms if m.split("::")[-1] in ("unreachable", "panic", "todo", "unimplemented", "assert", "assert_eq", "assert_ne")][0]
                out.append({"kind": kind, "node": node, "desc": nm[:80], "call": c, "macros": ms})
            elif UNWRAP_RX.search(nm):
                out.append({"kind": "unwrap", "node": node, "desc": nm.rsplit("::", 1)[-1], "call": c, "macros": ms})
            elif INDEX_RX.search(nm):
                out.append({"kind": "index", "node": node, "desc": (c.f.get("args") or [""])[0][:60] if isinstance(c.f.get("args"), list) else "", "call": c, "macros": ms})
            elif PRECOND_RX.search(nm):
                out.append({"kind": "precond", "node": node, "desc": nm.split("::")[-2] + "::" + nm.rsplit("::", 1)[-1] if "::" in nm else nm, "call": c, "macros": ms})
    return out


def alloc_sites(fn):
    out = []
    for c in fn.calls(ALLOC_RX):
        if in_log_macro(c.ex):
            continue
        out.append(c)
    return out


def key_of(fn, site, ordinal):
    k = site["kind"]
    d = site.get("desc", "")
    if site.get("call") is not None:
        d = (site["call"].name or "").split("::")[-1]
        if k == "index":
            d = "index"
    d = re.sub(r"[^A-Za-z0-9_:<>(),\[\] .+*-]", "", d)[:40]
    return "%s:%s#%d" % (k, d, ordinal)
