#!/usr/bin/env python3
"""show.py [--cfg default|all] <regex> : pretty-print MIR facts of matching functions"""
import os, re, sys
sys.path.insert(0, os.path.dirname(os.path.abspath(__file__)))
import extract, facts as F
from cfg import place_str, op_place


def ops(o):
    if "k" in o:
        k = o["k"]
        if "fn" in k: return "fn(%s)" % k["fn"]
        if "cdef" in k: return "const %s" % k["cdef"]
        if "v" in k: return "%s_%s" % (k["v"], k["ty"])
        return "const<%s>" % k.get("s", k["ty"])[:60]
    if "c" in o: return place_str(o["c"])
    return "move " + place_str(o["m"])


def rvs(rv):
    r = rv["r"]
    if r == "use": return ops(rv["o"])
    if r == "ref": return ("&mut " if rv.get("mut") else "&") + place_str(rv["p"])
    if r == "agg":
        nm = rv["adt"] + ("::" + rv["var"] if "var" in rv else "") + (" " + rv["closure"] if "closure" in rv else "")
        return "%s(%s)" % (nm, ", ".join(ops(o) for o in rv["ops"]))
    if r == "bin": return "%s(%s, %s)" % (rv["op"], ops(rv["a"]), ops(rv["b"]))
    if r == "un": return "%s(%s)" % (rv["op"], ops(rv["o"]))
    if r == "cast": return "%s as %s" % (ops(rv["o"]), rv["ty"])
    if r == "discr": return "discr(%s) %s" % (place_str(rv["p"]), rv.get("vars"))
    if r == "repeat": return "[%s; n]" % ops(rv["o"])
    if r == "setdiscr": return "setdiscr %s" % rv["v"]
    return rv.get("s", r)


COMPACT = False


def show(fn, live_only=True):
    if COMPACT:
        return show_compact(fn)
    print("=" * 100)
    print("fn %s  [%s:%d-%d] argc=%d coroutine=%s ret=%s" % (fn.key, fn.file, fn.rec["lo"], fn.rec["hi"], fn.argc, fn.is_coroutine, fn.ret))
    print("names:", ", ".join("%s=%s" % (n, place_str(p)) for n, p in fn.rec["names"]))
    live = fn.live_nodes()
    for bb, b in enumerate(fn.blocks):
        if b["cleanup"] or (live_only and (bb, 0) not in live):
            continue
        print(" bb%d:" % bb)
        for s in b["stmts"]:
            ex = (" {%s}" % ">".join(s["ex"])) if s.get("ex") else ""
            print("    %-6d %s = %s%s   [%s]" % (s["ln"], place_str(s["lhs"]), rvs(s["rv"]), ex, fn.locals[s["lhs"][0]][:50]))
        t = b["term"]
        k = t["k"]
        ex = (" {%s}" % ">".join(t["ex"])) if t.get("ex") else ""
        if k == "call":
            f = t["f"]
            nm = f.get("res") or f.get("def") or ("ind " + ops(f["ind"]))
            print("    %-6d %s = CALL %s(%s) -> %s%s" % (t["ln"], place_str(t["dest"]), nm, ", ".join(ops(a) for a in t["args"]), t.get("t"), ex))
        elif k == "switch":
            print("    %-6d SWITCH %s %s else %s%s   -> live succs %s" % (t["ln"], ops(t["o"]), t["targets"], t["otherwise"], ex, [(n[0], l[1]) for n, l in fn.succs((bb, len(b["stmts"])))]))
        elif k == "drop":
            print("    %-6d drop %s -> %s" % (t["ln"], place_str(t["p"]), t["t"]))
        elif k == "assert":
            print("    %-6d ASSERT %s == %s (%s) -> %s" % (t["ln"], ops(t["cond"]), t["expected"], t["msg"][:60], t["t"]))
        elif k == "yield":
            print("    %-6d YIELD -> %s (drop %s)" % (t["ln"], t["t"], t["drop"]))
        elif k == "goto":
            print("    %-6d goto %s" % (t["ln"], t["t"]))
        else:
            print("    %-6d %s%s" % (t["ln"], k.upper(), ex))


def show_compact(fn):
    """hide macro-expanded statements, gotos, drops and blocks that become empty"""
    import io, contextlib
    buf = io.StringIO()
    global COMPACT
    COMPACT = False
    with contextlib.redirect_stdout(buf):
        show(fn)
    COMPACT = True
    out = []
    for ln in buf.getvalue().splitlines():
        if "{m:" in ln or re.match(r"^\s+\d+\s+(goto|drop) ", ln):
            continue
        if re.match(r"^ bb\d+:$", ln) and out and re.match(r"^ bb\d+:$", out[-1]):
            out[-1] = ln
            continue
        out.append(ln[:int(os.environ.get("SHOW_W", "210"))])
    print("\n".join(out))


if __name__ == "__main__":
    args = sys.argv[1:]
    if args and args[0] == "-c":
        COMPACT = True
        args = args[1:]
    cfgname = "default"
    if args and args[0] == "--cfg":
        cfgname = args[1]; args = args[2:]
    if args and args[0] == "--norm":
        args = args[1:]
        import normalise
        fx = normalise.load(cfgname)
        print("normalisation:", {k: (v if not isinstance(v, list) else v[:8]) for k, v in fx.normalisation.items()}, "hidden:", sorted(fx.hidden()))
    else:
        fx = F.Facts(extract.facts_path(cfgname), cfgname)
    if args[0] == "--list":
        for k in sorted(fx.find(args[1])): print(k)
        sys.exit(0)
    for k in sorted(fx.find(args[0])):
        show(fx.fn(k))
