"""CFG view of one MIR body + the path / guard / provenance primitives used by the rules.

Conventions (DESIGN.md section 2): cleanup blocks are not part of any path; falseEdge /
falseUnwind are followed on the real edge only (the driver already emits them as goto);
a yield is followed on its resume edge; calls without a return target diverge; a
switch whose operand is a once-assigned local holding a constant is folded."""
import re
from facts import norm


class Call:
    __slots__ = ("fn", "node", "term", "name", "raw_def", "res", "args", "dest", "line", "ex", "target", "f", "_canon")

    def __init__(self, fn, node, term):
        self.fn = fn
        self.node = node
        self.term = term
        f = term["f"]
        self.f = f
        self.raw_def = f.get("def")
        self.res = f.get("res")
        self.name = norm(self.res or self.raw_def) if "def" in f else None
        self.args = term["args"]
        self.dest = term["dest"]
        self.line = term["ln"]
        self.ex = term.get("ex")
        self.target = term.get("t")
        self._canon = None
        #   a.min(b) / a.max(b) (Ord::min / Ord::max)  ==  cmp::min(a, b) / cmp::max(a, b)
        if self.name in ("std::cmp::Ord::min", "std::cmp::Ord::max", "core::cmp::Ord::min", "core::cmp::Ord::max"):
            self._canon = self.name
            self.name = "std::cmp::" + self.name.rsplit("::", 1)[-1]
        # library idioms with one meaning are given one name (the rules name the first spelling):
        #   mem::take(&mut Option<T>) / mem::replace(&mut Option<T>, None)  ==  Option::take
        if self.name in ("std::mem::take", "std::mem::replace", "core::mem::take", "core::mem::replace") and self.args:
            p = self.args[0].get("m") or self.args[0].get("c")
            ty = fn.locals[p[0]] if p and len(p) == 1 else ""
            if ty.startswith("&mut std::option::Option<"):
                is_none = True
                if self.name.endswith("replace"):
                    is_none = False
                    if len(self.args) == 2:
                        q = self.args[1].get("m") or self.args[1].get("c")
                        d = fn.single_def(q[0]) if q and len(q) == 1 else None
                        is_none = d is not None and d[1] == "assign" and d[2]["rv"]["r"] == "agg" and d[2]["rv"].get("var") == "None"
                if is_none:
                    self._canon = self.name
                    self.name = "std::option::Option::take"

    @property
    def names(self):
        """all normalised names of the callee (declared + resolved)"""
        out = []
        if self._canon:
            out.append(self.name)
        for x in (self.res, self.raw_def):
            if x:
                n = norm(x)
                if n not in out:
                    out.append(n)
        return out

    def matches(self, rx):
        if isinstance(rx, str):
            rx = re.compile(rx)
        return any(rx.search(n) for n in self.names)

    @property
    def from_macro(self):
        return bool(self.ex) and any(e.startswith("m:") for e in self.ex)

    def macro(self):
        if not self.ex:
            return None
        ms = [e[2:] for e in self.ex if e.startswith("m:")]
        return ms[-1] if ms else None

    @property
    def site(self):
        return "%s:%d" % (self.fn.file, self.line)

    def __repr__(self):
        return "Call(%s @%s bb%d)" % (self.name, self.site, self.node[0])


def place_local(p):
    return p[0]


def is_local(p):
    return len(p) == 1


def op_place(o):
    """place of a copy/move operand, else None"""
    if "c" in o:
        return o["c"]
    if "m" in o:
        return o["m"]
    return None


def op_const(o):
    return o.get("k")


def place_str(p):
    return "_%d%s" % (p[0], "".join(p[1:]))


_PLACE_KEYS = ("lhs", "p", "dest", "resume_arg", "c", "m")
_IDX_RX = re.compile(r"^\[_(\d+)\]$")


def _mentioned(x, acc):
    """heads (and index locals) of all places mentioned in a block / statement / terminator"""
    if isinstance(x, dict):
        for k, v in x.items():
            if k in _PLACE_KEYS and isinstance(v, list) and v and isinstance(v[0], int) and not isinstance(v[0], bool):
                acc.add(v[0])
                for e in v[1:]:
                    m = _IDX_RX.match(e) if isinstance(e, str) else None
                    if m:
                        acc.add(int(m.group(1)))
            else:
                _mentioned(v, acc)
    elif isinstance(x, list):
        for y in x:
            _mentioned(y, acc)


def _rename_local(x, old, new):
    if isinstance(x, dict):
        out = {}
        for k, v in x.items():
            if k in _PLACE_KEYS and isinstance(v, list) and v and isinstance(v[0], int) and not isinstance(v[0], bool):
                out[k] = [new if v[0] == old else v[0]] + [("[_%d]" % new if isinstance(e, str) and e == "[_%d]" % old else e) for e in v[1:]]
            else:
                out[k] = _rename_local(v, old, new)
        return out
    if isinstance(x, list):
        return [_rename_local(y, old, new) for y in x]
    return x


def _is_switch_on(x, T):
    if x["term"]["k"] != "switch":
        return False
    if not x["stmts"] and op_place(x["term"]["o"]) == [T]:
        return True
    # `let b = matches!(..); if b {..}`: the switch block first copies the named bool into a temporary
    return len(x["stmts"]) == 1 and x["stmts"][0]["rv"]["r"] == "use" and op_place(x["stmts"][0]["rv"]["o"]) == [T] \
        and len(x["stmts"][0]["lhs"]) == 1 and op_place(x["term"]["o"]) == x["stmts"][0]["lhs"]


def _walk_to_switch(blocks, cur, T, mentions, fuel):
    """-> (chain [(block, successor taken)], switch block) from `cur` to the first switch on T, through empty goto blocks and through small
    blocks (goto / switch) whose statements define private temporaries only; None when there is no such unique way"""
    if fuel <= 0:
        return None
    x = blocks[cur]
    if x.get("cleanup"):
        return None
    if _is_switch_on(x, T):
        return [], cur
    k = x["term"]["k"]
    if k not in ("goto", "switch") or len(x["stmts"]) > 4:
        return None
    for y in x["stmts"]:
        L = y["lhs"]
        if len(L) != 1 or L[0] == T or mentions.get(L[0], set()) != {cur}:
            return None
    if k == "goto":
        r = _walk_to_switch(blocks, x["term"]["t"], T, mentions, fuel - 1)
        return None if r is None else ([(cur, x["term"]["t"])] + r[0], r[1])
    acc = set()
    _mentioned(x["term"], acc)
    if T in acc:
        return None
    succs = []
    for _, bb in x["term"]["targets"]:
        if bb not in succs:
            succs.append(bb)
    if x["term"]["otherwise"] not in succs:
        succs.append(x["term"]["otherwise"])
    hits = [(s_, r) for s_ in succs for r in [_walk_to_switch(blocks, s_, T, mentions, fuel - 2)] if r is not None]
    if len(hits) != 1:
        return None
    s_, r = hits[0]
    return [(cur, s_)] + r[0], r[1]


def split_const_bool_switches(rec):
    """`matches!(x, P if g)` and `match .. { A => true, _ => false }` store a constant in a bool temporary in each arm and branch on the
    temporary at the join.  For a path-insensitive reachability the join forgets which arm was taken (the `true` arm could leave by
    the false edge).  The join's switch is therefore split: every arm that assigns the constant c and reaches the switch through
    trivial gotos gets its own copy of the switch whose other edge leads to an `unreachable` block.  Only infeasible paths are
    removed; `bool_tests` reports the copies (they are switches on the same temporary)."""
    blocks = rec["blocks"]
    locals_ = rec["locals"]
    defs = {}
    for bi, b in enumerate(blocks):
        if b.get("cleanup"):
            continue
        for si, st in enumerate(b["stmts"]):
            defs.setdefault(st["lhs"][0], []).append((bi, si, st))
        t = b["term"]
        if t["k"] == "call":
            defs.setdefault(t["dest"][0], []).append((bi, None, None))
        elif t["k"] == "yield":
            defs.setdefault(t["resume_arg"][0], []).append((bi, None, None))
    dead = None
    mentions = None
    for T, ds in defs.items():
        if T == 0 or T >= len(locals_) or locals_[T] != "bool" or len(ds) < 2:
            continue
        if not all(st is not None and st["lhs"] == [T] for _, _, st in ds):
            continue
        if mentions is None:
            mentions = {}
            for bi_, b_ in enumerate(blocks):
                acc = set()
                _mentioned(b_, acc)
                for L in acc:
                    mentions.setdefault(L, set()).add(bi_)
        for bi, si, st in ds:
            # (`a && b && c` stores `false` in the arms that fail early and the value of `c` in the last one: the constant arms are
            # split off, the switch that remains is reached only through the last conjunct)
            if not (st["rv"]["r"] == "use" and (st["rv"]["o"].get("k") or {}).get("v") in (0, 1)):
                continue
            b = blocks[bi]
            if any(x["lhs"][0] == T for x in b["stmts"][si + 1:]) or b["term"]["k"] != "goto":
                continue
            # follow trivial gotos - and small blocks that only compute private temporaries and do not touch T, such as the test of the
            # other operand of `a || b` - to a switch on T
            found = _walk_to_switch(blocks, b["term"]["t"], T, mentions, 6)
            if found is None:
                continue
            chain, cur = found
            sw = blocks[cur]["term"]
            c = st["rv"]["o"]["k"]["v"]
            tgt = sw["otherwise"]
            for val, bb in sw["targets"]:
                if val == c:
                    tgt = bb
            if dead is None:
                blocks.append({"cleanup": False, "stmts": [], "term": {"k": "unreachable", "ln": sw.get("ln", 0), "ex": None}})
                dead = len(blocks) - 1
            # private copy of the switch: the edge of the other constant is dead
            nt = dict(sw)
            if c == 0:
                nt["targets"] = [[0, tgt]]
                nt["otherwise"] = dead
            else:
                nt["targets"] = [[0, dead]]
                nt["otherwise"] = tgt
            nt["split_of"] = cur
            blocks.append({"cleanup": False, "stmts": [dict(x) for x in blocks[cur]["stmts"]], "term": nt})
            nxt = len(blocks) - 1
            # private copies of the blocks in between (they may be shared with the other arms); the temporaries they define get
            # fresh locals so that the originals keep a single definition
            for x, via in reversed(chain):
                blk = {"cleanup": False, "stmts": [dict(y) for y in blocks[x]["stmts"]], "term": dict(blocks[x]["term"])}
                for y in blocks[x]["stmts"]:
                    L = y["lhs"][0]
                    locals_.append(locals_[L])
                    blk = _rename_local(blk, L, len(locals_) - 1)
                g = blk["term"]
                if g["k"] == "goto":
                    g["t"] = nxt
                else:
                    g["targets"] = [[v, nxt if bb == via else bb] for v, bb in g["targets"]]
                    if g["otherwise"] == via:
                        g["otherwise"] = nxt
                    g["split_of"] = x
                blocks.append(blk)
                nxt = len(blocks) - 1
            b["term"] = dict(b["term"])
            b["term"]["t"] = nxt
    return rec


def flatten_transparent_aggregates(rec):
    """A field group that was moved into a private struct (engine/normalise.py makes the grouping field transparent: its name is
    empty) is built by two nested aggregates; the outer one is rewritten to list the inner fields in place of the grouping field, as
    the baseline's single aggregate did."""
    defs = None
    for b in rec["blocks"]:
        for st in b["stmts"]:
            rv = st["rv"]
            if rv.get("r") != "agg" or "" not in (rv.get("fields") or []):
                continue
            if defs is None:
                defs = {}
                for b2 in rec["blocks"]:
                    for s2 in b2["stmts"]:
                        if len(s2["lhs"]) == 1:
                            defs.setdefault(s2["lhs"][0], []).append(s2)
            fields, ops = [], []
            for f, o in zip(rv["fields"], rv["ops"]):
                p = op_place(o) if f == "" else None
                inner = defs.get(p[0], []) if p is not None and len(p) == 1 else []
                if len(inner) == 1 and inner[0]["rv"].get("r") == "agg" and inner[0]["rv"].get("fields") is not None:
                    fields += list(inner[0]["rv"]["fields"])
                    ops += list(inner[0]["rv"]["ops"])
                else:
                    fields.append(f)
                    ops.append(o)
            rv["fields"], rv["ops"] = fields, ops
    return rec


class Fn:
    def __init__(self, rec, key, facts):
        rec = split_const_bool_switches(rec)
        rec = flatten_transparent_aggregates(rec)
        self.rec = rec
        self.key = key
        self.facts = facts
        self.name = rec["def"]
        self.file = rec["file"]
        self.blocks = rec["blocks"]
        self.locals = rec["locals"]
        self.argc = rec["argc"]
        self.ret = rec["ret"]
        self.is_coroutine = rec["coroutine"]
        self._succ = {}
        self._pred = None
        self._defs = None
        self._fold = {}
        self._calls = None
        self.names = {}
        for n, p in rec["names"]:
            if len(p) == 1:
                self.names.setdefault(p[0], n)
        self.upvar_names = {}
        for n, p in rec["names"]:
            if len(p) >= 2 and p[0] == 1:
                self.upvar_names[tuple(p[1:])] = n

    # ------------------------------------------------------------------ nodes
    def nstmts(self, bb):
        return len(self.blocks[bb]["stmts"])

    def term_node(self, bb):
        return (bb, self.nstmts(bb))

    def is_term(self, node):
        return node[1] == self.nstmts(node[0])

    def stmt(self, node):
        return self.blocks[node[0]]["stmts"][node[1]]

    def term(self, bb):
        return self.blocks[bb]["term"]

    def at(self, node):
        """statement dict or terminator dict at node"""
        if self.is_term(node):
            return self.term(node[0])
        return self.stmt(node)

    def line(self, node):
        return self.at(node).get("ln", 0)

    def site(self, node):
        return "%s:%d" % (self.file, self.line(node))

    def all_nodes(self):
        for bb, b in enumerate(self.blocks):
            if b["cleanup"]:
                continue
            for i in range(len(b["stmts"]) + 1):
                yield (bb, i)

    # ------------------------------------------------------------------ defs
    def defs(self):
        """local -> list of (node, kind, payload) writing the *whole* local or a part of it.
        kind: 'assign' (payload = stmt), 'call' (payload = term), 'yield' (resume arg)"""
        if self._defs is None:
            d = {}
            for bb, b in enumerate(self.blocks):
                if b["cleanup"]:
                    continue
                for i, s in enumerate(b["stmts"]):
                    d.setdefault(s["lhs"][0], []).append(((bb, i), "assign", s))
                t = b["term"]
                if t["k"] == "call":
                    d.setdefault(t["dest"][0], []).append(((bb, len(b["stmts"])), "call", t))
                elif t["k"] == "yield":
                    d.setdefault(t["resume_arg"][0], []).append(((bb, len(b["stmts"])), "yield", t))
            self._defs = d
        return self._defs

    def single_def(self, local):
        ds = [x for x in self.defs().get(local, []) if len(self._lhs_of(x)) == 1]
        alld = self.defs().get(local, [])
        if len(ds) == 1 and len(alld) == 1:
            return ds[0]
        if self.rec.get("inlined") and len(ds) > 1 and len(ds) == len(alld) and all(d[1] == "assign" for d in ds):
            # copies of one statement in the specialised continuations of an inlined call (engine/inline.py): one definition
            first = ds[0][2]["rv"]
            if all(d[2]["rv"] == first for d in ds[1:]):
                return ds[0]
        return None

    def resolve_fields(self, place, depth=0):
        """operands that the field path `place` = [local, proj..] denotes when `local` is built by aggregates (tuple / struct / enum
        variant construction), seen through plain moves: `(x@Ok.0).1` with `x = Ok((a, b))` -> [b].  Every whole-local definition of
        the base must be a move or an aggregate of the selected variant (definitions of another variant cannot be what the downcast
        reads); otherwise -> [].  Used to follow values through the tuple / Result that a helper returns."""
        if depth > 8 or len(place) < 2:
            return []
        base, projs = place[0], list(place[1:])
        if any(isinstance(x, str) and (x == "*" or x.startswith("[")) for x in projs[:1]):
            return []
        out = []
        for node, kind, pl in self.defs().get(base, []):
            if kind != "assign" or len(pl["lhs"]) != 1:
                if kind == "assign":
                    continue       # a partial write: not modelled
                return []
            rv = pl["rv"]
            if rv["r"] == "use":
                q = op_place(rv["o"])
                if q is None:
                    continue
                out += self.resolve_fields(q + projs, depth + 1) or []
                continue
            if rv["r"] != "agg":
                return []
            pr = list(projs)
            var = None
            if pr and pr[0].startswith("@"):
                var = pr.pop(0)[1:]
                if rv.get("var") is not None and rv.get("var") != var:
                    continue
            if not pr or not pr[0].startswith("."):
                continue
            f = pr.pop(0)[1:]
            ops = rv.get("ops", [])
            idx = None
            fields = rv.get("fields")
            if fields and f in fields:
                idx = fields.index(f)
            elif f.isdigit() and int(f) < len(ops):
                idx = int(f)
            if idx is None or idx >= len(ops):
                continue
            o = ops[idx]
            q = op_place(o)
            if pr:
                if q is not None:
                    out += self.resolve_fields(q + pr, depth + 1) or ([{o_k: q + pr for o_k in ("c",)}] if False else [])
                continue
            out.append(o)
        return out

    def _lhs_of(self, d):
        node, kind, p = d
        if kind == "assign":
            return p["lhs"]
        if kind == "call":
            return p["dest"]
        return p["resume_arg"]

    # ------------------------------------------------------------------ const folding
    def const_value(self, o, depth=0):
        """integer value of an operand if it is a constant or a once-assigned local holding one"""
        k = o.get("k")
        if k is not None:
            return k.get("v")
        p = op_place(o)
        if p is None or len(p) != 1 or depth > 4:
            return None
        d = self.single_def(p[0])
        if d is None or d[1] != "assign":
            return None
        rv = d[2]["rv"]
        if rv["r"] == "use":
            return self.const_value(rv["o"], depth + 1)
        if rv["r"] == "un" and rv["op"] == "Not":
            v = self.const_value(rv["o"], depth + 1)
            if v in (0, 1):
                return 1 - v
        return None

    # ------------------------------------------------------------------ edges
    def succs(self, node):
        """list of (succ_node, label); label is None or ('sw', value|'otherwise')"""
        r = self._succ.get(node)
        if r is not None:
            return r
        bb, i = node
        b = self.blocks[bb]
        if i < len(b["stmts"]):
            r = [((bb, i + 1), None)]
        else:
            t = b["term"]
            k = t["k"]
            r = []
            if k in ("goto", "drop", "assert", "yield"):
                r = [((t["t"], 0), None)]
            elif k == "call":
                if t.get("t") is not None:
                    r = [((t["t"], 0), None)]
            elif k == "switch":
                cv = self.const_value(t["o"])
                outs = [((tb, 0), ("sw", v)) for v, tb in t["targets"]]
                outs.append(((t["otherwise"], 0), ("sw", "otherwise")))
                if cv is not None:
                    hit = [x for x in outs if x[1][1] == cv]
                    r = hit[:1] if hit else [outs[-1]]
                else:
                    r = outs
            # return / unreachable / resume / terminate / coroutine_drop / asm: none
        r = [(n, l) for (n, l) in r if not self.blocks[n[0]]["cleanup"]]
        self._succ[node] = r
        return r

    def preds(self):
        if self._pred is None:
            p = {}
            for n in self.all_nodes():
                for s, l in self.succs(n):
                    p.setdefault(s, []).append((n, l))
            self._pred = p
        return self._pred

    entry = (0, 0)

    def reach(self, starts, avoid=(), cut=(), after=False, stop=()):
        """forward reachable node set from `starts`.
        avoid: nodes that may not be entered; cut: set of (src_node, label) edges removed;
        after: start from the successors of the start nodes (start nodes themselves are
        then only included if re-reached); stop: nodes that are included but not expanded"""
        avoid = set(avoid)
        cut = set(cut)
        stop = set(stop)
        seen = set()
        work = []
        if after:
            for s in starts:
                for n, l in self.succs(s):
                    if (s, l) in cut or n in avoid:
                        continue
                    if n not in seen:
                        seen.add(n)
                        work.append(n)
        else:
            for s in starts:
                if s not in avoid and s not in seen:
                    seen.add(s)
                    work.append(s)
        while work:
            n = work.pop()
            if n in stop:
                continue
            for m, l in self.succs(n):
                if m in seen or m in avoid or (n, l) in cut:
                    continue
                seen.add(m)
                work.append(m)
        return seen

    def reach_back(self, targets, avoid=(), cut=()):
        avoid = set(avoid)
        cut = set(cut)
        preds = self.preds()
        seen = set(t for t in targets if t not in avoid)
        work = list(seen)
        while work:
            n = work.pop()
            for m, l in preds.get(n, ()):
                if m in seen or m in avoid or (m, l) in cut:
                    continue
                seen.add(m)
                work.append(m)
        return seen

    def live_nodes(self):
        if not hasattr(self, "_live"):
            self._live = self.reach([self.entry])
        return self._live

    def witness_path(self, starts, goal, avoid=(), cut=(), after=False):
        """a shortest path (list of nodes) from starts to any node in goal, or None"""
        from collections import deque
        avoid = set(avoid)
        cut = set(cut)
        goal = set(goal)
        par = {}
        dq = deque()
        if after:
            for s in starts:
                for n, l in self.succs(s):
                    if (s, l) in cut or n in avoid or n in par:
                        continue
                    par[n] = s
                    dq.append(n)
        else:
            for s in starts:
                if s not in avoid:
                    par[s] = None
                    dq.append(s)
        start_set = set(starts)
        while dq:
            n = dq.popleft()
            if n in goal:
                path = [n]
                while par.get(path[-1]) is not None and not (path[-1] in start_set and not after):
                    path.append(par[path[-1]])
                    if path[-1] in start_set:
                        break
                return list(reversed(path))
            for m, l in self.succs(n):
                if m in par or m in avoid or (n, l) in cut:
                    continue
                par[m] = n
                dq.append(m)
        return None

    def path_sites(self, path, maxn=14):
        """compress a node path into distinct source lines"""
        out = []
        for n in path:
            ln = self.line(n)
            if ln and (not out or out[-1] != ln):
                out.append(ln)
        if len(out) > maxn:
            out = out[: maxn // 2] + ["..."] + out[-maxn // 2:]
        return "%s:[%s]" % (self.file, ",".join(str(x) for x in out))

    # ------------------------------------------------------------------ calls
    def calls(self, rx=None, live_only=True):
        if self._calls is None:
            cs = []
            for bb, b in enumerate(self.blocks):
                if b["cleanup"]:
                    continue
                t = b["term"]
                if t["k"] == "call":
                    cs.append(Call(self, (bb, len(b["stmts"])), t))
            self._calls = cs
        cs = self._calls
        if live_only:
            live = self.live_nodes()
            cs = [c for c in cs if c.node in live]
        if rx is None:
            return cs
        if isinstance(rx, str):
            rx = re.compile(rx)
        return [c for c in cs if c.matches(rx)]

    def call_at(self, node):
        for c in self.calls(live_only=False):
            if c.node == node:
                return c
        return None

    def assigns(self, live_only=True):
        live = self.live_nodes() if live_only else None
        for bb, b in enumerate(self.blocks):
            if b["cleanup"]:
                continue
            for i, s in enumerate(b["stmts"]):
                if live is None or (bb, i) in live:
                    yield (bb, i), s

    def aggregates(self, adt_rx, var=None):
        """nodes constructing an ADT aggregate whose `adt` matches and variant == var"""
        if isinstance(adt_rx, str):
            adt_rx = re.compile(adt_rx)
        out = []
        for node, s in self.assigns():
            rv = s["rv"]
            if rv["r"] == "agg" and adt_rx.search(rv["adt"]) and (var is None or rv.get("var") == var):
                out.append((node, s))
        return out

    def return_nodes(self):
        out = []
        live = self.live_nodes()
        for bb, b in enumerate(self.blocks):
            if not b["cleanup"] and b["term"]["k"] == "return" and (bb, len(b["stmts"])) in live:
                out.append((bb, len(b["stmts"])))
        return out

    # ------------------------------------------------------------------ value shapes
    def shape(self, o, depth=0, seen=None, at=None):
        """set of constructor chains ('Ready.Some.Err', 'const:1', 'call:<name>', '?') that
        operand `o` may hold, following once- and multiply-assigned temporaries.  With `at` (the node that reads the operand) only the
        definitions that reach that node count (a helper inlined with one return path per outcome stores different variants in the
        same local on different paths)."""
        if depth > 8:
            return {"?"}
        k = o.get("k")
        if k is not None:
            if "v" in k:
                return {"const:%s" % k["v"]}
            if "cdef" in k:
                return {"constdef:%s" % k["cdef"]}
            return {"const"}
        p = op_place(o)
        if p is None:
            return {"?"}
        if len(p) != 1:
            return {"?"}
        return self.local_shape(p[0], depth, seen, at)

    def reaching_defs(self, local, at):
        """whole-local definitions of `local` that reach node `at` without passing another whole definition of it"""
        key = (local, at)
        memo = self.__dict__.setdefault("_rdefs", {})
        if key in memo:
            return memo[key]
        ds = self.defs().get(local, [])
        live = self.live_nodes()
        whole = [d for d in ds if len(self._lhs_of(d)) == 1 and d[0] in live]
        if len(whole) <= 1:
            memo[key] = whole
            return whole
        nodes = {d[0] for d in whole}
        out = [d for d in whole if at in self.reach([d[0]], after=True, avoid=nodes - {d[0]}) or
               (at == d[0] and False)]
        # a definition that is its own only successor on the way (loops) is kept by the test above; nothing reaching = keep all
        memo[key] = out or whole
        return memo[key]

    def local_shape(self, local, depth=0, seen=None, at=None):
        seen = set(seen or ())
        if local in seen:
            return set()
        seen.add(local)
        if 1 <= local <= self.argc:
            return {"param:%d" % local}
        ds = self.defs().get(local, [])
        live = self.live_nodes()
        out = set()
        whole = [d for d in ds if len(self._lhs_of(d)) == 1 and d[0] in live]
        if not whole:
            return {"?"}
        if at is not None and len(whole) > 1:
            whole = self.reaching_defs(local, at)
        for node, kind, p in whole:
            if kind == "call":
                c = Call(self, node, p)
                nm = c.name or "?"
                if re.search(r"FromResidual(<.*>)?>?::from_residual$", nm) or nm.endswith("::from_residual"):
                    out.add("residual")
                else:
                    out.add("call:%s" % nm)
            elif kind == "yield":
                out.add("?")
            else:
                out |= self.rv_shape(p["rv"], depth + 1, seen, node if at is not None else None)
        return out

    def rv_shape(self, rv, depth=0, seen=None, at=None):
        r = rv["r"]
        if r == "use":
            return self.shape(rv["o"], depth + 1, seen, at)
        if r == "agg":
            adt = rv["adt"]
            if "var" in rv:
                short = rv["var"]
                ops = rv["ops"]
                if len(ops) == 1:
                    inner = self.shape(ops[0], depth + 1, seen, at)
                    return {"%s.%s" % (short, s) if not s.startswith(("?",)) else short + ".?" for s in inner}
                return {short}
            return {adt}
        if r == "cast":
            return self.shape(rv["o"], depth + 1, seen, at)
        return {"?"}

    def ret_sites(self):
        """[(node, shapes)] for every live node that writes the whole return place `_0`"""
        out = []
        live = self.live_nodes()
        for node, kind, p in self.defs().get(0, []):
            if node not in live or len(self._lhs_of((node, kind, p))) != 1:
                continue
            if kind == "call":
                c = Call(self, node, p)
                nm = c.name or "?"
                if nm.endswith("::from_residual"):
                    out.append((node, {"residual"}))
                else:
                    out.append((node, {"call:%s" % nm}))
            elif kind == "assign":
                out.append((node, self.rv_shape(p["rv"], at=node)))
        return out

    def exits(self, cls=None):
        """exit sites (nodes writing _0 that reach a Return) whose shape may match `cls`.
        cls: None (all) | regex matched against each shape string; '?' shapes match all.
        A body with unit/never return that has no `_0` write is represented by its Return
        terminators."""
        sites = self.ret_sites()
        rets = self.return_nodes()
        if not sites:
            return [(r, {"()"}) for r in rets] if cls is None or re.search(cls, "()") else []
        out = []
        for node, shapes in sites:
            if cls is None or any(s.startswith("?") or s.endswith(".?") and re.search(cls, s[:-2]) or re.search(cls, s) for s in shapes):
                out.append((node, shapes))
        return out

    # ------------------------------------------------------------------ bool / discriminant tests
    def bool_tests(self, local, depth=0):
        """switches deciding on bool `local` (through copies and Not).
        -> list of (switch_node, true_label, false_label)"""
        out = []
        if depth > 6:
            return out
        for node in self.all_nodes():
            if self.is_term(node):
                t = self.term(node[0])
                if t["k"] == "switch":
                    p = op_place(t["o"])
                    if p is not None and len(p) > 1 and self.locals[local] == "bool":
                        # `match (flag, x) { (true, _) => .. }` switches on the field of a tuple built from the flag
                        r = [op_place(o) for o in self.resolve_fields(p)]
                        if len(r) == 1 and r[0] == [local]:
                            p = [local]
                    if p == [local]:
                        # bool switch: targets [[0, bbF]], otherwise bbT
                        lab0 = None
                        for v, tb in t["targets"]:
                            if v == 0:
                                lab0 = ("sw", 0)
                        lab1 = ("sw", "otherwise")
                        for v, tb in t["targets"]:
                            if v == 1:
                                lab1 = ("sw", 1)
                        if lab0 is None:
                            lab0 = ("sw", "otherwise")
                        out.append((node, lab1, lab0))
            else:
                s = self.stmt(node)
                rv = s["rv"]
                if len(s["lhs"]) != 1:
                    continue
                if rv["r"] == "use" and op_place(rv["o"]) == [local]:
                    out += self.bool_tests(s["lhs"][0], depth + 1)
                elif rv["r"] == "un" and rv["op"] == "Not" and op_place(rv["o"]) == [local]:
                    out += [(n, f, t) for (n, t, f) in self.bool_tests(s["lhs"][0], depth + 1)]
        return out

    def discr_switches(self):
        """all switches on a discriminant: [(switch_node, place, adt, {variant: label}, otherwise_label)]"""
        if hasattr(self, "_dsw"):
            return self._dsw
        out = []
        for node in self.all_nodes():
            if not self.is_term(node):
                continue
            t = self.term(node[0])
            if t["k"] != "switch":
                continue
            p = op_place(t["o"])
            if p is None or len(p) != 1:
                continue
            ds = self.defs().get(p[0], [])
            if len(ds) != 1 or ds[0][1] != "assign":
                continue
            rv = ds[0][2]["rv"]
            if rv["r"] != "discr":
                continue
            vars_ = rv.get("vars", {})
            m = {}
            for v, tb in t["targets"]:
                nm = vars_.get(str(v), "#%d" % v)
                m[nm] = ("sw", v)
            # variants not listed go to otherwise
            listed = set(m)
            other_vars = [nm for nm in vars_.values() if nm not in listed]
            out.append((node, rv["p"], rv.get("adt"), m, ("sw", "otherwise"), other_vars))
        self._dsw = out
        return out

    def variant_edges(self, switch, variant):
        """labels of `switch` (from discr_switches) taken when the value is `variant`"""
        node, place, adt, m, other, other_vars = switch
        if variant in m:
            return [m[variant]]
        if variant in other_vars:
            # otherwise edge, unless that block is unreachable
            tb = self.term(node[0])["otherwise"]
            if self.term(tb)["k"] == "unreachable" and not self.blocks[tb]["stmts"]:
                return []
            return [other]
        return []

    def other_labels(self, switch_node, keep):
        """all labels of the switch except those in keep"""
        return [l for (n, l) in self.succs(switch_node) if l not in keep]

    # ------------------------------------------------------------------ guards
    def only_via(self, site, switch_node, labels, starts=None):
        """True iff every path from starts (default entry) to `site` takes one of the
        edges (switch_node, l in labels)"""
        cut = set((switch_node, l) for l in labels)
        r = self.reach(starts or [self.entry], cut=cut)
        return site not in r

    # ------------------------------------------------------------------ provenance
    def roots(self, o, opts=None):
        """backward provenance of an operand: set of root descriptors
           ('param', local, projstr) ('const', repr) ('call', name) ('upvar', projstr) ('unknown',)
        Flow-insensitive over assignments to the involved locals. Calls are value mixers:
        the result carries the callee root *and* the roots of its arguments, except for
        callees matched by opts['opaque'] (regex) whose arguments are not followed, and
        callees matched by opts['through'] which contribute no root of their own."""
        opts = opts or {}
        out = set()
        self._roots_op(o, out, set(), opts, 0)
        return out

    def _roots_op(self, o, out, seen, opts, depth):
        k = o.get("k")
        if k is not None:
            if "fn" in k:
                out.add(("const", "fn:" + norm(k["fn"])))
            elif "cdef" in k:
                out.add(("const", k["cdef"]))
            elif "v" in k:
                out.add(("const", str(k["v"])))
            else:
                out.add(("const", k.get("s", "?")))
            return
        p = op_place(o)
        if p is None:
            out.add(("unknown",))
            return
        self._roots_place(p, out, seen, opts, depth)

    def _roots_place(self, p, out, seen, opts, depth):
        local = p[0]
        proj = "".join(p[1:])
        if 1 <= local <= self.argc:
            out.add(("param", local, proj))
            # parameters may also be reassigned; fall through to defs
        key = (local, proj)
        if key in seen or depth > 40:
            return
        seen.add(key)
        ds = self.defs().get(local, [])
        through = opts.get("through")
        opaque = opts.get("opaque")
        for node, kind, pl in ds:
            lhs = self._lhs_of((node, kind, pl))
            lproj = "".join(lhs[1:])
            # a def is relevant if it writes the place, a prefix of it, or a part of it
            if not (proj.startswith(lproj) or lproj.startswith(proj)):
                continue
            rest = p[1 + len(lhs) - 1:] if proj.startswith(lproj) else []
            if kind == "assign":
                self._roots_rv(pl["rv"], rest, out, seen, opts, depth + 1)
            elif kind == "call":
                c = Call(self, node, pl)
                nm = c.name or "?"
                if not (through and re.search(through, nm)):
                    out.add(("call", nm))
                if opaque and re.search(opaque, nm):
                    continue
                for a in c.args:
                    self._roots_op(a, out, seen, opts, depth + 1)
            else:
                out.add(("yield",))
        # writes through &mut borrows handed to calls
        for node, c, bproj in self._mut_borrow_calls(local):
            if not (proj.startswith(bproj) or bproj.startswith(proj)):
                continue
            nm = c.name or "?"
            out.add(("mutcall", nm))
            if opaque and re.search(opaque, nm):
                continue
            for a in c.args:
                pa = op_place(a)
                if pa is not None and self._derives_ref_of(pa, local):
                    continue
                self._roots_op(a, out, seen, opts, depth + 1)

    def _roots_rv(self, rv, rest, out, seen, opts, depth):
        r = rv["r"]
        if r == "use":
            o = rv["o"]
            p = op_place(o)
            if p is not None and rest:
                self._roots_place(p + rest, out, seen, opts, depth)
            else:
                self._roots_op(o, out, seen, opts, depth)
        elif r == "ref":
            self._roots_place(rv["p"] + [x for x in rest if x != "*"], out, seen, opts, depth)
        elif r == "agg":
            ops = rv["ops"]
            fields = rv.get("fields")
            sel = None
            # select the field when the remaining projection names one
            rr = [x for x in rest if not x.startswith("@")]
            if rr and rr[0].startswith(".") and fields is not None and rr[0][1:] in fields:
                sel = fields.index(rr[0][1:])
            elif rr and rr[0].startswith(".") and fields is None and rr[0][1:].isdigit() and int(rr[0][1:]) < len(ops):
                sel = int(rr[0][1:])
            if sel is not None:
                o = ops[sel]
                p = op_place(o)
                if p is not None and len(rr) > 1:
                    self._roots_place(p + rr[1:], out, seen, opts, depth)
                else:
                    self._roots_op(o, out, seen, opts, depth)
            else:
                if not ops:
                    out.add(("const", "%s::%s" % (rv["adt"], rv.get("var", ""))))
                for o in ops:
                    self._roots_op(o, out, seen, opts, depth)
        elif r in ("bin",):
            self._roots_op(rv["a"], out, seen, opts, depth)
            self._roots_op(rv["b"], out, seen, opts, depth)
        elif r in ("un", "cast", "repeat"):
            self._roots_op(rv["o"], out, seen, opts, depth)
        elif r == "discr":
            self._roots_place(rv["p"], out, seen, opts, depth)
        else:
            out.add(("unknown",))

    def _mut_borrow_calls(self, local):
        """calls that receive a `&mut local<proj>` (directly or through reborrow temps)
        -> [(node, call, projstr of the borrowed place)]"""
        if not hasattr(self, "_mbc"):
            refs = {}   # temp -> place of a mutable borrow
            for node, s in self.assigns(live_only=False):
                rv = s["rv"]
                if rv["r"] == "ref" and rv.get("mut") and len(s["lhs"]) == 1:
                    refs[s["lhs"][0]] = rv["p"]

            def base_of(t, d=0):
                b = refs.get(t)
                if b is None or d > 5:
                    return None
                if len(b) >= 2 and b[1] == "*" and b[0] in refs:
                    inner = base_of(b[0], d + 1)
                    if inner is None:
                        return None
                    return inner + list(b[2:])
                return list(b)
            m = {}
            for c in self.calls(live_only=False):
                for a in c.args:
                    pa = op_place(a)
                    if pa is not None and len(pa) == 1 and pa[0] in refs:
                        b = base_of(pa[0])
                        if b is not None:
                            m.setdefault(b[0], []).append((c.node, c, "".join(b[1:])))
            self._mbc = m
            self._refs = refs
        return self._mbc.get(local, [])

    def _derives_ref_of(self, pa, local):
        if len(pa) == 1 and hasattr(self, "_refs") and pa[0] in self._refs:
            b = self._refs[pa[0]]
            return b[0] == local
        return False

    # ------------------------------------------------------------------ origin of a reference
    def origin(self, o, depth=0):
        """follow an operand through once-assigned temporaries, borrows, reborrows and
        Deref/DerefMut/AsRef/AsMut/Borrow/Clone calls to the place it designates.
        -> projection string such as '_1.0*.pending_connections' (base local first)"""
        p = op_place(o) if isinstance(o, dict) else o
        if p is None:
            return "const"
        return self._origin_place(p, depth)

    def _origin_place(self, p, depth):
        base = p[0]
        rest = "".join(p[1:])
        if base == 1 and self.upvar_names:
            # closure / coroutine upvars: render the captured variable name (edition-2021 precise
            # captures are named like `self__queried`)
            proj = tuple(p[1:])
            for ln in range(len(proj), 0, -1):
                nm = self.upvar_names.get(proj[:ln])
                if nm is not None:
                    return "_1{%s}%s" % (nm, "".join(proj[ln:]))
        if depth > 12 or 1 <= base <= self.argc:
            return "_%d%s" % (base, rest)
        d = self.single_def(base)
        if d is None:
            return "_%d%s" % (base, rest)
        node, kind, pl = d
        if kind == "assign":
            rv = pl["rv"]
            if rv["r"] == "ref":
                inner = self._origin_place(rv["p"], depth + 1)
                # `&x` then `*tmp` cancel
                if rest.startswith("*"):
                    return inner + rest[1:]
                return "&" + inner + rest
            if rv["r"] in ("use", "cast"):
                q = op_place(rv["o"])
                if q is not None:
                    if len(q) == 1 and len(p) >= 2 and isinstance(p[1], str) and re.match(r"^\.\d+$", p[1]):
                        # a moved closure environment / tuple: the field is looked up where the aggregate is built
                        dq = self.single_def(q[0])
                        if dq is not None and dq[1] == "assign" and dq[2]["rv"]["r"] == "agg" and dq[2]["rv"].get("adt") in ("{closure}", "{coroutine}", "(tuple)"):
                            return self._origin_place(q + list(p[1:]), depth + 1)
                    inner = self._origin_place(q, depth + 1)
                    if inner.startswith("&") and rest.startswith("*"):
                        return inner[1:] + rest[1:]
                    return inner + rest
            if rv["r"] == "agg" and rv.get("adt") in ("{closure}", "{coroutine}", "(tuple)") and len(p) >= 2 and isinstance(p[1], str):
                # field k of a closure environment / tuple built here is its k-th operand (the environment of an inlined closure)
                m = re.match(r"^\.(\d+)$", p[1])
                ops = rv.get("ops") or []
                if m and int(m.group(1)) < len(ops):
                    q = op_place(ops[int(m.group(1))])
                    if q is not None:
                        inner = self._origin_place(q, depth + 1)
                        rest2 = "".join(p[2:])
                        if inner.startswith("&") and rest2.startswith("*"):
                            return inner[1:] + rest2[1:]
                        return inner + rest2
            return "_%d%s" % (base, rest)
        if kind == "call":
            c = Call(self, node, pl)
            if c.name and re.search(r"(Deref|DerefMut)>?::deref(_mut)?$|::as_ref$|::as_mut$|::borrow(_mut)?$|Pin<.*>::(get_mut|as_mut|get_unchecked_mut|into_inner|new_unchecked|new|get_ref|into_ref)$|pin::Pin::(get_mut|as_mut|get_unchecked_mut|new_unchecked|new|get_ref|into_ref|map_unchecked_mut)$", c.name) and c.args:
                inner = self.origin(c.args[0], depth + 1)
                if inner.startswith("&") and rest.startswith("*"):
                    return inner[1:] + rest[1:]
                return inner + rest
        return "_%d%s" % (base, rest)

    def producer(self, o, depth=0):
        """the Call whose result an operand holds (through once-assigned copies / borrows), else None"""
        p = op_place(o) if isinstance(o, dict) else o
        if p is None or depth > 10:
            return None
        d = self.single_def(p[0])
        if d is None:
            return None
        node, kind, pl = d
        if kind == "call":
            return Call(self, node, pl)
        if kind == "assign":
            rv = pl["rv"]
            if rv["r"] == "ref":
                return self.producer(rv["p"], depth + 1)
            if rv["r"] in ("use", "cast"):
                return self.producer(rv["o"], depth + 1)
        return None

    def recv(self, call):
        """origin string of the receiver (first argument) of a call"""
        if not call.args:
            return ""
        return self.origin(call.args[0])

    # ------------------------------------------------------------------ misc
    def local_ty(self, l):
        return self.locals[l]

    def locals_of_type(self, rx):
        rx = re.compile(rx) if isinstance(rx, str) else rx
        return [i for i, t in enumerate(self.locals) if rx.search(t)]

    def copies_of(self, local, depth=0):
        """locals that receive `local` by plain move/copy (transitively), including itself"""
        out = {local}
        changed = True
        while changed:
            changed = False
            for node, s in self.assigns(live_only=False):
                rv = s["rv"]
                if rv["r"] == "use" and len(s["lhs"]) == 1:
                    p = op_place(rv["o"])
                    if p is not None and len(p) == 1 and p[0] in out and s["lhs"][0] not in out:
                        out.add(s["lhs"][0])
                        changed = True
        return out
