"""Reachability with one tracked enum-valued place (light path sensitivity).

The abstract state is the variant the tracked place is known to hold ('?' = unknown).  It changes on
  - `place = Aggregate(Variant ..)` (directly, or by moving a once-assigned temporary holding such an aggregate),
  - `place = <anything else>`                       -> '?'
  - a call that receives `&mut place` (mem::replace / take / a method with &mut self on it) -> '?' unless listed in
    `pure_calls`
and it prunes / refines at discriminant switches over the place: with a known variant only that variant's edge is taken,
with '?' each variant edge sets the state to that variant (the otherwise edge leaves '?').
Everything else is the plain CFG of cfg.Fn (cleanup blocks excluded, constant switches folded)."""
import re
from collections import deque


class Tracker:
    def __init__(self, fn, place_rx, pure_calls=None):
        """place_rx: regex matched against the *origin string* of places (e.g. r'^_4\\*\\.write_state$')"""
        self.fn = fn
        self.rx = re.compile(place_rx)
        self.pure = re.compile(pure_calls) if pure_calls else None
        self._sw = {}
        for sw in fn.discr_switches():
            node, place, adt, m, other, other_vars = sw
            if self.rx.search(self._pstr(place)):
                self._sw[node] = sw
        self._eff = {}

    def _pstr(self, p):
        return self.fn._origin_place(list(p), 0).lstrip("&")

    def _variant_of_operand(self, o):
        p = o.get("m") or o.get("c")
        if p is None or len(p) != 1:
            return "?"
        d = self.fn.single_def(p[0])
        if d is None or d[1] != "assign":
            return "?"
        rv = d[2]["rv"]
        if rv["r"] == "agg" and "var" in rv:
            return rv["var"]
        if rv["r"] == "use":
            return self._variant_of_operand(rv["o"])
        return "?"

    def effect(self, node):
        """None (no effect) or the new abstract value after executing node"""
        if node in self._eff:
            return self._eff[node]
        fn = self.fn
        e = None
        if fn.is_term(node):
            t = fn.term(node[0])
            if t["k"] == "call":
                c = fn.call_at(node)
                for a in c.args:
                    p = a.get("m") or a.get("c")
                    if p is None:
                        continue
                    if "&mut" in fn.locals[p[0]][:5] and self.rx.search(fn.origin(a).lstrip("&")):
                        if not (self.pure and c.matches(self.pure)):
                            e = "?"
                if len(c.dest) >= 1 and self.rx.search(self._pstr(c.dest)):
                    e = "?"
        else:
            s = fn.stmt(node)
            if self.rx.search(self._pstr(s["lhs"])):
                rv = s["rv"]
                if rv["r"] == "agg" and "var" in rv:
                    e = rv["var"]
                elif rv["r"] == "use":
                    e = self._variant_of_operand(rv["o"])
                elif rv["r"] == "setdiscr":
                    e = "?"
                else:
                    e = "?"
        self._eff[node] = e
        return e

    def step(self, node, st):
        """successor (node, state) pairs"""
        fn = self.fn
        e = self.effect(node)
        if e is not None:
            st = e
        out = []
        sw = self._sw.get(node)
        for m, l in fn.succs(node):
            if sw is not None:
                vars_here = [v for v in list(sw[3].keys()) + list(sw[5]) if l in fn.variant_edges(sw, v)]
                if st != "?":
                    if st not in vars_here:
                        continue
                    out.append(((m, st), l))
                else:
                    out.append(((m, vars_here[0] if len(vars_here) == 1 else "?"), l))
            else:
                out.append(((m, st), l))
        return out

    def witness(self, starts, goals, avoid=(), cut=(), init="?"):
        """shortest tracked path (list of nodes) from starts to a goal node, or None"""
        avoid = set(avoid)
        cut = set(cut)
        goals = set(goals)
        par = {}
        dq = deque()
        for s in starts:
            if s not in avoid:
                par[(s, init)] = None
                dq.append((s, init))
        while dq:
            cur = dq.popleft()
            node, st = cur
            if node in goals:
                path = []
                x = cur
                while x is not None:
                    path.append(x[0])
                    x = par[x]
                return list(reversed(path))
            for nxt, l in self.step(node, st):
                if nxt in par or nxt[0] in avoid or (node, l) in cut:
                    continue
                par[nxt] = cur
                dq.append(nxt)
        return None

    def reach(self, starts, avoid=(), cut=(), init="?"):
        avoid = set(avoid)
        cut = set(cut)
        seen = set()
        work = []
        for s in starts:
            if s not in avoid:
                seen.add((s, init))
                work.append((s, init))
        while work:
            cur = work.pop()
            for nxt, l in self.step(*cur):
                if nxt in seen or nxt[0] in avoid or (cur[0], l) in cut:
                    continue
                seen.add(nxt)
                work.append(nxt)
        return seen
