"""Comparison guards (K6, relational part): which order fact between a quantity Q and a bound B
is known on the edges that lead to a site.

A comparison `c = Op(x, y)` whose operands are classified (by caller predicates) as Q and B
gives, on each edge of every switch deciding on c (through copies / Not), a fact `Q rel B`
with rel in < <= > >= == !=.  A site is *guarded with need* (need in '<', '<=', '>', '>=') iff
there is such a comparison for which every path from entry to the site takes an edge whose
fact implies `Q need B`."""
import re
from cfg import op_place

IMPLIES = {
    "<": {"<"},
    "<=": {"<", "<=", "=="},
    ">": {">"},
    ">=": {">", ">=", "=="},
    "==": {"=="},
    "!=": {"!=", "<", ">"},
}
NEG = {"<": ">=", "<=": ">", ">": "<=", ">=": "<", "==": "!=", "!=": "=="}
SWAP = {"<": ">", "<=": ">=", ">": "<", ">=": "<=", "==": "==", "!=": "!="}
OPS = {"Lt": "<", "Le": "<=", "Gt": ">", "Ge": ">=", "Eq": "==", "Ne": "!="}
CALL_OPS = {"lt": "<", "le": "<=", "gt": ">", "ge": ">=", "eq": "==", "ne": "!="}


def rootstrs(fn, o, opts=None):
    out = set()
    for r in fn.roots(o, opts):
        if r[0] == "param":
            out.add("param:_%d%s" % (r[1], r[2]))
        elif r[0] in ("call", "mutcall"):
            out.add("%s:%s" % (r[0], r[1]))
        elif r[0] == "const":
            out.add("const:%s" % r[1])
        else:
            out.add(r[0])
    return out


def has_root(fn, o, rx, opts=None):
    rx = re.compile(rx) if isinstance(rx, str) else rx
    return any(rx.search(s) for s in rootstrs(fn, o, opts))


def _is_unsigned(fn, o):
    p = op_place(o)
    if p is not None and len(p) == 1:
        return bool(re.match(r"^(usize|u8|u16|u32|u64|u128)$", fn.locals[p[0]]))
    k = o.get("k")
    return bool(k) and bool(re.match(r"^(usize|u8|u16|u32|u64|u128)$", str(k.get("ty"))))


def _norm_const(fn, rel, q, b, is_b):
    """integer comparisons against a constant have several spellings: `x < k+1` is `x <= k`, `x >= k+1` is `x > k`, and for an unsigned
    x: `x <= 0` is `x == 0`, `x > 0` is `x != 0`.  -> relation of `q` to the bound the rule asked for (is_b), or None"""
    v = fn.const_value(b)
    if not isinstance(v, int) or isinstance(v, bool):
        return None
    ty = (b.get("k") or {}).get("ty", "usize")
    alt = {"<": (v - 1, "<="), ">=": (v - 1, ">"), "<=": (v + 1, "<"), ">": (v + 1, ">=")}.get(rel)
    if alt is not None and alt[0] >= 0 and is_b(fn, {"k": {"ty": ty, "v": alt[0]}}):
        return alt[1]
    return None


def _unsigned_zero(fn, rel, q, b):
    if fn.const_value(b) == 0 and _is_unsigned(fn, q):
        return {"<=": "==", ">": "!="}.get(rel, rel)
    return rel


def comparisons(fn, is_q, is_b):
    """[(node, dest_local, rel)] with rel the relation `Q rel B` that holds when dest is true"""
    out = []
    for node, s in fn.assigns():
        rv = s["rv"]
        if rv["r"] != "bin" or rv["op"] not in OPS or len(s["lhs"]) != 1:
            continue
        a, b = rv["a"], rv["b"]
        rel = OPS[rv["op"]]
        if is_q(fn, a) and is_b(fn, b):
            out.append((node, s["lhs"][0], _unsigned_zero(fn, rel, a, b)))
        elif is_b(fn, a) and is_q(fn, b):
            out.append((node, s["lhs"][0], _unsigned_zero(fn, SWAP[rel], b, a)))
        elif is_q(fn, a) and _norm_const(fn, rel, a, b, is_b):
            r2 = _norm_const(fn, rel, a, b, is_b)
            out.append((node, s["lhs"][0], {"<=": "==", ">": "!="}.get(r2, r2) if (fn.const_value(b) in (1,) and _is_unsigned(fn, a)) else r2))
        elif is_q(fn, b) and _norm_const(fn, SWAP[rel], b, a, is_b):
            r2 = _norm_const(fn, SWAP[rel], b, a, is_b)
            out.append((node, s["lhs"][0], {"<=": "==", ">": "!="}.get(r2, r2) if (fn.const_value(a) in (1,) and _is_unsigned(fn, b)) else r2))
    for c in fn.calls(r"cmp::Partial(Ord|Eq)(<.*>)?>?::(lt|le|gt|ge|eq|ne)$|::(lt|le|gt|ge|eq|ne)$"):
        m = c.name.rsplit("::", 1)[-1]
        if m not in CALL_OPS or len(c.args) != 2 or len(c.dest) != 1:
            continue
        rel = CALL_OPS[m]
        a, b = c.args
        if is_q(fn, a) and is_b(fn, b):
            out.append((c.node, c.dest[0], rel))
        elif is_b(fn, a) and is_q(fn, b):
            out.append((c.node, c.dest[0], SWAP[rel]))
    return out


def _const_bools(fn):
    """bool locals whose every definition assigns a constant (`matches!(..)`, a match with bool arms): local -> (true defs, false defs)"""
    if hasattr(fn, "_const_bools"):
        return fn._const_bools
    out = {}
    for l, ds in fn.defs().items():
        if l == 0 or len(ds) < 2 or fn.locals[l] != "bool":
            continue
        tr, fa, ok = [], [], True
        for node, kind, pl in ds:
            if kind != "assign" or len(pl["lhs"]) != 1 or pl["rv"]["r"] != "use" or "k" not in pl["rv"]["o"]:
                ok = False
                break
            v = pl["rv"]["o"]["k"].get("v")
            (tr if v == 1 else fa).append(node)
        if ok and tr and fa:
            out[l] = (tr, fa)
    fn._const_bools = out
    return out


def forward_through_bools(fn, facts):
    """`if matches!(x, Some(m) if m <= len)` computes the comparison inside the pattern guard, stores true / false in a temporary and
    branches on the temporary afterwards.  If every `true` (resp. `false`) assignment of such a temporary lies behind an edge that
    carries a fact, the temporary's true (false) edge carries that fact as well."""
    extra = []
    cb = _const_bools(fn)
    if not cb:
        return extra
    live = fn.live_nodes()
    by_edge = {}
    for sw, lab, rel, cn in facts:
        by_edge.setdefault((sw, lab), set()).add((rel, cn))
    for (sw, lab), rels in by_edge.items():
        r = None
        for l, (tr, fa) in cb.items():
            tests = fn.bool_tests(l)
            if not tests:
                continue
            if r is None:
                r = fn.reach([fn.entry], cut={(sw, lab)})
            for defs, which in ((tr, 1), (fa, 2)):
                d = [n for n in defs if n in live]
                if d and not any(n in r for n in d):
                    for t in tests:
                        for rel, cn in rels:
                            extra.append((t[0], t[which], rel, cn))
    return extra


def edge_facts(fn, is_q, is_b):
    """[(switch_node, label, rel, cmp_node)] : on edge (switch,label) the fact `Q rel B` holds"""
    out = []
    for node, dest, rel in comparisons(fn, is_q, is_b):
        for sw, t_lab, f_lab in fn.bool_tests(dest):
            out.append((sw, t_lab, rel, node))
            out.append((sw, f_lab, NEG[rel], node))
    out += [e for e in forward_through_bools(fn, out) if e not in out]
    return out


def guarded(fn, site, is_q, is_b, need, starts=None):
    """(ok, description). ok iff some comparison's edges implying `Q need B` separate entry from site"""
    facts = edge_facts(fn, is_q, is_b)
    if not facts:
        return False, "no comparison between the quantity and the bound found"
    by_cmp = {}
    for sw, lab, rel, cn in facts:
        by_cmp.setdefault(cn, []).append((sw, lab, rel))
    descr = []
    for cn, es in by_cmp.items():
        good = [(sw, lab) for sw, lab, rel in es if rel in IMPLIES[need]]
        bad = [(sw, lab) for sw, lab, rel in es if rel not in IMPLIES[need]]
        # site must not be reachable when all good edges are cut...
        r = fn.reach(starts or [fn.entry], cut=set(good))
        via_good_only = site not in r
        descr.append("cmp@%s good-edges=%d facts=%s via_good_only=%s" % (fn.site(cn), len(good), sorted({rel for _, _, rel in es}), via_good_only))
        if good and via_good_only:
            return True, "; ".join(descr)
    return False, "; ".join(descr)


def refusal_tight(fn, refuse_site, is_q, is_b, need):
    """tightness dual: the refusal site is reached only over edges where `Q need B` holds"""
    return guarded(fn, refuse_site, is_q, is_b, need)
