"""C02 - Noise transport delivers the exact byte stream or fails (structural clauses).

R02.1 (K5) frame-length agreement: MAX_NOISE_MSG_LEN <= u16::MAX and <= snow's MAXMSGLEN; NOISE_EXTRA_ENCRYPT_SPACE == snow's
      TAGLEN; MAX_FRAME_LEN + tag <= MAX_NOISE_MSG_LEN; poll_write chunks by MAX_FRAME_LEN; the length prefix is written
      big-endian (>>8, &0xff) and read big-endian (<<8 |); the decrypt buffer holds MAX_FRAME_LEN bytes; the encrypt buffer a
      multiple of MAX_NOISE_MSG_LEN + 2; NoiseContext::{read,write}_message forward to snow unmodified
R02.2 (K7+K3) authenticity of delivered plaintext in poll_read: the caller's buffer is written only by NoiseContext::read_message
      or by copy_from_slice from a plaintext buffer (a Vec obtained from decrypt_buffer.take() / pending.take()) whose only writer is
      read_message; ciphertext (`read_buffer`) is never copied out; on the Err edge of read_message every exit is Ready(Err) and
      nothing is copied; a pending plaintext buffer is stored in the state only on the Ok edge
R02.3 (K7+K2) write accounting: poll_write encrypts only when the frame fits the encrypt buffer, counts a chunk only on the Ok edge
      of write_message, returns Ready(Ok(total)) only after recording the new encrypted length, returns Pending only on
      total == 0, and never skips a chunk (the first chunk that does not fit ends the loop); poll_flush reaches the socket flush
      only with the encrypt buffer drained
R02.4 (K11) no Pending without an inner Pending in poll_read / poll_write / poll_flush / poll_close
Not decided: byte-exact round trip over all (write size, read buffer, chunking) triples - index arithmetic of the read state machine.
"""
import re
from paths import refine_cuts
from common import short, slice_locals, ref_local, positive
import guards
import refsrc
import k11
import typestate

EXPLANATION = ("Constant-table agreement between litep2p's Noise framing constants, the 2-byte length prefix and the limits of the pinned "
               "snow release; who-may-write rules for the caller's read buffer (only decrypted data; errors on every path after a failed "
               "decryption); return-shape and guard rules for write accounting and flush ordering; pending-has-waker.")

N = "crypto::noise::"
RD = "<crypto::noise::NoiseSocket<S> as futures::AsyncRead>::poll_read"
WR = "<crypto::noise::NoiseSocket<S> as futures::AsyncWrite>::poll_write"
FL = "<crypto::noise::NoiseSocket<S> as futures::AsyncWrite>::poll_flush"
CL = "<crypto::noise::NoiseSocket<S> as futures::AsyncWrite>::poll_close"


def r02_1(ctx, fx):
    mx = fx.const(N + "MAX_NOISE_MSG_LEN")
    ex = fx.const(N + "NOISE_EXTRA_ENCRYPT_SPACE")
    fl = fx.const(N + "MAX_FRAME_LEN")
    snow, ver, path = refsrc.consts("snow", "src/constants.rs")
    ctx.note("snow_version", ver)
    ctx.ob("R02.1", "reference-source-found(snow constants)", "MAXMSGLEN" in snow and "TAGLEN" in snow, cfg=fx.cfg, detail="snow %s %s" % (ver, path), nontrivial=False)
    ok_int = all(isinstance(x, int) for x in (mx, ex, fl))
    ctx.ob("R02.1", "MAX_NOISE_MSG_LEN<=u16::MAX", ok_int and mx <= 65535, cfg=fx.cfg, detail="MAX_NOISE_MSG_LEN=%s: the frame length travels in a 2-byte prefix" % mx)
    ctx.ob("R02.1", "MAX_NOISE_MSG_LEN<=snow::MAXMSGLEN", ok_int and "MAXMSGLEN" in snow and mx <= snow["MAXMSGLEN"], cfg=fx.cfg, detail="%s <= %s" % (mx, snow.get("MAXMSGLEN")))
    ctx.ob("R02.1", "NOISE_EXTRA_ENCRYPT_SPACE==snow::TAGLEN", ok_int and ex == snow.get("TAGLEN"), cfg=fx.cfg, detail="%s == %s" % (ex, snow.get("TAGLEN")))
    ctx.ob("R02.1", "MAX_FRAME_LEN+tag<=MAX_NOISE_MSG_LEN", ok_int and fl > 0 and fl + ex <= mx, cfg=fx.cfg, detail="%s + %s <= %s: the largest chunk still encrypts into one Noise message" % (fl, ex, mx))
    fn = ctx.fn(fx, WR, "R02.1")
    if fn is not None:
        ch = fn.calls(r"slice::(<impl \[T\]>::)?chunks$")
        ctx.anchor("R02.1", "poll_write: buf.chunks(..)", len(ch), 1, cfg=fx.cfg)
        for c in ch:
            ctx.ob("R02.1", "poll_write/chunk-size-is-MAX_FRAME_LEN", guards.rootstrs(fn, c.args[1]) == {"const:" + N + "MAX_FRAME_LEN"}, site=fn.site(c.node), cfg=fx.cfg,
                   detail=str(sorted(guards.rootstrs(fn, c.args[1]))))
        shr = [s for n, s in fn.assigns() if s["rv"]["r"] == "bin" and s["rv"]["op"].startswith("Shr") and fn.const_value(s["rv"]["b"]) == 8]
        msk = [s for n, s in fn.assigns() if s["rv"]["r"] == "bin" and s["rv"]["op"] == "BitAnd" and fn.const_value(s["rv"]["b"]) == 255]
        be = fn.calls(r"num::(<impl u16>::)?to_be_bytes$|u16::to_be_bytes$")
        ctx.ob("R02.1", "poll_write/length-prefix-big-endian(>>8,&0xff)", (len(shr) == 1 and len(msk) == 1) or (len(be) == 1 and not shr and not msk), site=fn.site(fn.entry), cfg=fx.cfg,
               detail="Shr-by-8: %d, BitAnd-0xff: %d, u16::to_be_bytes: %d" % (len(shr), len(msk), len(be)))
    fn = ctx.fn(fx, RD, "R02.1")
    if fn is not None:
        shl = [s for n, s in fn.assigns() if s["rv"]["r"] == "bin" and s["rv"]["op"].startswith("Shl") and fn.const_value(s["rv"]["b"]) == 8]
        bor = [s for n, s in fn.assigns() if s["rv"]["r"] == "bin" and s["rv"]["op"] == "BitOr"]
        be = fn.calls(r"num::(<impl u16>::)?from_be_bytes$|u16::from_be_bytes$")
        ctx.ob("R02.1", "poll_read/length-prefix-big-endian(<<8|)", (len(shl) == 1 and len(bor) == 1) or (len(be) == 1 and not shl and not bor), site=fn.site(fn.entry), cfg=fx.cfg,
               detail="Shl-by-8: %d, BitOr: %d, u16::from_be_bytes: %d" % (len(shl), len(bor), len(be)))
    fn = ctx.fn(fx, N + "NoiseSocket::<S>::new", "R02.1")
    if fn is not None:
        fe = fn.calls(r"vec::from_elem$")
        sizes = [guards.rootstrs(fn, c.args[1]) for c in fe]
        ok = any(s == {"const:" + N + "MAX_FRAME_LEN"} for s in sizes)
        ctx.ob("R02.1", "NoiseSocket::new/decrypt-buffer-holds-MAX_FRAME_LEN", ok, site=fn.site(fn.entry), cfg=fx.cfg, detail=str([sorted(s) for s in sizes]))
        ok = any("const:" + N + "MAX_NOISE_MSG_LEN" in s and "param:_4" in s for s in sizes)
        ctx.ob("R02.1", "NoiseSocket::new/encrypt-buffer-is-write_buffer_size*(MAX_NOISE_MSG_LEN+2)", ok, site=fn.site(fn.entry), cfg=fx.cfg)
    for nm in ("read_message", "write_message"):
        fn = ctx.fn(fx, N + "NoiseContext::" + nm, "R02.1")
        if fn is None:
            continue
        cs = [c for c in fn.calls(r"snow::.*(HandshakeState|TransportState)::%s$" % nm)]
        ok = len(cs) == 2 and all(guards.rootstrs(fn, c.args[1]) <= {"param:_2", "param:_2*"} and fn.origin(c.args[2]).lstrip("&").startswith("_3") and c.dest == [0] for c in cs)
        ctx.ob("R02.1", "NoiseContext::%s/forwards-to-snow-unmodified" % nm, ok, site=fn.site(fn.entry), cfg=fx.cfg, detail=str([c.name for c in cs]))


def _vec_local(fn, o):
    """the Vec<u8> local that operand o (a slice obtained by indexing / deref) views, else None"""
    cur = o
    for _ in range(6):
        t = ref_local(fn, cur)
        if t is not None and fn.locals[t].startswith("std::vec::Vec<u8"):
            return t
        pr = fn.producer(cur)
        if pr is None or not pr.matches(r"Index(Mut)?(<.*>)?>?::index(_mut)?$|Deref(Mut)?>?::deref(_mut)?$"):
            return None
        cur = pr.args[0]
    return None


def _from_take(fn, local, depth=0):
    """is `local` (whole) defined only from Option::take(..) results (through @Some payload moves / Option::expect)"""
    ds = [d for d in fn.defs().get(local, []) if len(fn._lhs_of(d)) == 1]
    if not ds or depth > 5:
        return False
    for node, kind, pl in ds:
        if kind == "call":
            c = fn.call_at(node)
            if c.matches(r"option::Option(<.*>)?::take$"):
                continue
            if c.matches(r"option::Option(<.*>)?::expect$|option::Option(<.*>)?::unwrap$"):
                p = c.args[0].get("m") or c.args[0].get("c")
                if p and _from_take(fn, p[0], depth + 1):
                    continue
            return False
        if kind == "assign" and pl["rv"]["r"] == "use":
            p = pl["rv"]["o"].get("m") or pl["rv"]["o"].get("c")
            if p and _from_take(fn, p[0], depth + 1):
                continue
            return False
        return False
    return True


def r02_2(ctx, fx):
    fn = ctx.fn(fx, RD, "R02.2")
    if fn is None:
        return
    rms = fn.calls(r"NoiseContext::read_message$")
    ctx.anchor("R02.2", "poll_read: read_message calls", len(rms), 2, cfg=fx.cfg)
    # (i) every call receiving a &mut view of the caller's buffer
    writers = []
    for c in fn.calls():
        if c.from_macro:
            continue
        for i, a in enumerate(c.args):
            p = a.get("m") or a.get("c")
            if p is None or not fn.locals[p[0]].startswith("&mut [u8]"):
                continue
            org = fn.origin(a)
            base = org.lstrip("&")
            view = base.startswith("_3*") or base == "_3"
            if not view:
                pr = fn.producer(a)
                if pr is not None and pr.matches(r"IndexMut(<.*>)?>?::index_mut$") and fn.origin(pr.args[0]).lstrip("&").startswith("_3"):
                    view = True
            if view:
                writers.append((c, i))
    allowed = [(c, i) for c, i in writers if (c.matches(r"NoiseContext::read_message$") and i == 2) or (c.matches(r"slice::(<impl \[T\]>::)?copy_from_slice$") and i == 0)
               or c.matches(r"IndexMut(<.*>)?>?::index_mut$")]
    ctx.ob("R02.2", "poll_read/caller-buffer-written-only-by-read_message-or-copy_from_slice", len(writers) >= 4 and len(allowed) == len(writers), site=fn.site(fn.entry), cfg=fx.cfg,
           detail="calls taking a mutable view of `buf`: %s" % [(short(c.name), i, fn.site(c.node)) for c, i in writers])
    copies = [c for c, i in writers if c.matches(r"copy_from_slice$")]
    ctx.anchor("R02.2", "poll_read: copies into the caller's buffer", len(copies), 3, cfg=fx.cfg)
    plain = set()
    for k, c in enumerate(copies):
        v = _vec_local(fn, c.args[1])
        ok = v is not None and _from_take(fn, v)
        if ok:
            plain.add(v)
        ctx.ob("R02.2", "poll_read/copy#%d-source-is-a-plaintext-buffer" % k, ok, site=fn.site(c.node), cfg=fx.cfg,
               detail="source views local %s (%s); must be a Vec<u8> taken from decrypt_buffer / pending, never `read_buffer`" % (v, fn.origin(c.args[1])))
    # (ii) the plaintext buffers are written only by read_message
    for v in sorted(plain):
        bad = []
        for c in fn.calls():
            if c.from_macro:
                continue
            for i, a in enumerate(c.args):
                p = a.get("m") or a.get("c")
                if p is None or "&mut" not in fn.locals[p[0]][:5]:
                    continue
                if _vec_local(fn, a) == v or ref_local(fn, a) == v:
                    if c.matches(r"NoiseContext::read_message$") and i == 2:
                        continue
                    if c.matches(r"DerefMut>?::deref_mut$|IndexMut(<.*>)?>?::index_mut$"):
                        continue
                    bad.append((short(c.name), fn.site(c.node)))
        ctx.ob("R02.2", "poll_read/plaintext-buffer-_%d-written-only-by-read_message" % sorted(plain).index(v), not bad, site=fn.site(fn.entry), cfg=fx.cfg, detail="other writers: %s" % bad)
    # (iii) ciphertext never leaves: read_buffer slices go only to the socket read, read_message(input) and byte reads
    leaks = []
    for c in fn.calls():
        if c.from_macro:
            continue
        for i, a in enumerate(c.args):
            if ".read_buffer" in fn.origin(a) or (fn.producer(a) is not None and fn.producer(a).matches(r"Index(Mut)?(<.*>)?>?::index(_mut)?$") and ".read_buffer" in fn.origin(fn.producer(a).args[0])):
                if c.matches(r"AsyncRead::poll_read$") or (c.matches(r"NoiseContext::read_message$") and i == 1) or c.matches(r"Index(Mut)?(<.*>)?>?::index(_mut)?$|Deref(Mut)?>?::deref(_mut)?$|Vec(<.*>)?::len$"):
                    continue
                leaks.append((short(c.name), i, fn.site(c.node)))
    ctx.ob("R02.2", "poll_read/ciphertext-buffer-never-copied-out", not leaks, site=fn.site(fn.entry), cfg=fx.cfg, detail="uses of read_buffer: %s" % leaks)
    # (iv) Err edge of read_message
    exits = dict(fn.exits())
    for k, rm in enumerate(rms):
        cuts = refine_cuts(fn, rm, ["Err", "?"])
        r = fn.reach([rm.node], cut=cuts, after=True, stop=[rm.node])
        bad = [fn.site(n) for n, sh in exits.items() if n in r and not all(s.startswith("Ready.Err") for s in sh)]
        cp = [fn.site(c.node) for c in copies if c.node in r]
        ctx.ob("R02.2", "poll_read/read_message#%d-Err=>Ready(Err)-and-no-copy" % k, not bad and not cp and bool(cuts), site=fn.site(rm.node), cfg=fx.cfg,
               detail="non-error exits after a failed decryption: %s; copies: %s" % (bad, cp))
    # (v) a plaintext buffer is parked in the state only on the Ok edge of the read_message that filled it, or when it came from pending
    for node, s in fn.aggregates(r"ReadState$", "ProcessNextFrame"):
        o = s["rv"]["ops"][0]
        if o.get("k") is not None:
            continue
        p = o.get("m") or o.get("c")
        someagg = [pl for _, kind, pl in fn.defs().get(p[0], []) if kind == "assign" and pl["rv"]["r"] == "agg" and pl["rv"].get("var") == "Some"]
        if not someagg:
            continue
        vl = (someagg[0]["rv"]["ops"][0].get("m") or someagg[0]["rv"]["ops"][0].get("c") or [None])[0]
        if vl is not None and not fn.locals[vl].startswith("std::vec::Vec<u8"):
            # the parked value is a private struct / tuple around the buffer: take its Vec<u8> member
            d = fn.single_def(vl)
            if d is not None and d[1] == "assign" and d[2]["rv"]["r"] == "agg":
                for o2 in d[2]["rv"].get("ops", []):
                    q = o2.get("m") or o2.get("c")
                    if q and len(q) == 1 and fn.locals[q[0]].startswith("std::vec::Vec<u8"):
                        vl = q[0]
                        break
        fillers = [rm for rm in rms if _vec_local(fn, rm.args[2]) == vl or ref_local(fn, rm.args[2]) == vl]
        if fillers:
            rm = fillers[0]
            cuts = refine_cuts(fn, rm, ["Err", "?"])
            r = fn.reach([rm.node], cut=cuts, after=True, stop=[rm.node])
            ok = node not in r and node not in fn.reach([fn.entry], avoid=[rm.node])
            ctx.ob("R02.2", "poll_read/pending-plaintext-parked-only-after-successful-decryption", ok, site=fn.site(node), cfg=fx.cfg)
        else:
            ctx.ob("R02.2", "poll_read/re-parked-buffer-comes-from-pending", vl is not None and _from_take(fn, vl), site=fn.site(node), cfg=fx.cfg)


def _accumulators(fn):
    """(T, B): T = the multiply-assigned local whose value is returned in Ready(Ok(T)) (bytes accepted);
    B = the multiply-assigned local stored as WriteState::Writing.encrypted_len (write position). Found by role, not by name."""
    def accumulates(l):
        # `l = l + x` (through the checked-add pair): a variable that is assigned more than once only because a block was cloned
        # (inlining, engine/inline.py) is not an accumulator
        for node, kind, pl in fn.defs().get(l, []):
            if kind != "assign" or pl["rv"]["r"] != "use":
                continue
            q = pl["rv"]["o"].get("m") or pl["rv"]["o"].get("c")
            d = fn.single_def(q[0]) if q else None
            if d is not None and d[1] == "assign" and d[2]["rv"]["r"] == "bin" and d[2]["rv"]["op"].startswith("Add"):
                for side in ("a", "b"):
                    r = d[2]["rv"][side].get("m") or d[2]["rv"][side].get("c")
                    if r and r[0] == l:
                        return True
        return False

    def pick(cands):
        cands = [l for l in cands if fn.single_def(l) is None and len(fn.defs().get(l, [])) >= 2 and fn.locals[l] == "usize"]
        acc = [l for l in cands if accumulates(l)]
        return (acc or cands or [None])[-1]
    T = B = None
    for n, sh in fn.exits():
        if any(s.startswith("Ready.Ok") for s in sh):
            T = pick(sorted(slice_locals(fn, _ret_payload(fn, n)))) or T
    for n, s in fn.aggregates(r"WriteState$", "Writing"):
        B = pick(sorted(slice_locals(fn, s["rv"]["ops"][1]))) or B
    return T, B


def r02_3(ctx, fx):
    fn = ctx.fn(fx, WR, "R02.3")
    if fn is not None:
        wm = fn.calls(r"NoiseContext::write_message$")
        ctx.anchor("R02.3", "poll_write: write_message", len(wm), 1, cfg=fx.cfg)
        T0, B0 = _accumulators(fn)
        tot = [T0] if T0 is not None else []
        off = [B0] if B0 is not None else []
        ctx.anchor("R02.3", "poll_write: total_plaintext / buffer_offset variables", min(len(tot), len(off)), 1, cfg=fx.cfg)
        if wm and tot and off:
            w = wm[0]
            T, B = tot[0], off[0]
            incs = [n for n, kind, pl in fn.defs().get(T, []) if kind == "assign" and pl["rv"]["o"].get("k") is None] if True else []
            ctx.anchor("R02.3", "poll_write: total_plaintext += ..", len(incs), 1, cfg=fx.cfg)
            cuts = refine_cuts(fn, w, ["Err", "?"])
            r_err = fn.reach([w.node], cut=cuts, after=True, stop=[w.node])
            ctx.ob("R02.3", "poll_write/chunk-counted-only-if-encrypted", bool(cuts) and all(n not in r_err and n not in fn.reach([fn.entry], avoid=[w.node]) for n in incs), site=fn.site(w.node), cfg=fx.cfg,
                   detail="total_plaintext grows only on the Ok edge of write_message")
            exits = dict(fn.exits())
            bad = [fn.site(n) for n, sh in exits.items() if n in r_err and not all(s.startswith("Ready.Err") for s in sh)]
            ctx.ob("R02.3", "poll_write/encryption-error=>Ready(Err)", not bad, site=fn.site(w.node), cfg=fx.cfg, detail=str(bad))
            # the increment adds chunk.len() of the chunk that was encrypted
            for n in incs:
                s = fn.stmt(n)
                src = s["rv"]["o"].get("m") or s["rv"]["o"].get("c")
                sd = fn.single_def(src[0]) if src else None
                ok = False
                if sd and sd[2]["rv"]["r"] == "bin":
                    rb = guards.rootstrs(fn, sd[2]["rv"]["b"]) | guards.rootstrs(fn, sd[2]["rv"]["a"])
                    ok = any(x.endswith("slice::len") for x in rb) and any("Chunks" in x and "next" in x for x in rb)
                ctx.ob("R02.3", "poll_write/count-adds-the-encrypted-chunk-length", ok, site=fn.site(n), cfg=fx.cfg)
            # space check guards the encryption
            def is_need(f, o):
                return any(s2["rv"]["r"] == "bin" and s2["rv"]["op"].startswith("Add") for l in slice_locals(f, o, strict=True) for _, k2, s2 in f.defs().get(l, []) if k2 == "assign")

            def is_cap(f, o):
                return any(c.dest[0] in slice_locals(f, o, strict=True) for c in f.calls(r"Vec(<.*>)?::len$") if ".encrypt_buffer" in f.recv(c))
            ok, why = guards.guarded(fn, w.node, is_need, is_cap, "<=")
            ctx.ob("R02.3", "poll_write/encrypt-only-if-frame-fits-the-encrypt-buffer", ok, site=fn.site(w.node), cfg=fx.cfg, detail=why)
            # when it does not fit the loop ends (no chunk is skipped)
            nxt = [c for c in fn.calls(r"Chunks.*Iterator>?::next$|Iterator>?::next$")]
            for sw, lab, rel, cn in guards.edge_facts(fn, is_need, is_cap):
                if rel == ">":
                    r = fn.reach([m for m, l in fn.succs(sw) if l == lab])
                    ctx.ob("R02.3", "poll_write/chunk-that-does-not-fit-ends-the-loop", not any(c.node in r for c in nxt) and w.node not in r, site=fn.site(sw), cfg=fx.cfg,
                           detail="continuing with the next chunk would reorder/skip plaintext")
            # Ready(Ok(0)) (which callers read as "write zero") only for an empty input
            zero = [n for n, sh in exits.items() if any(s == "Ready.Ok.const:0" for s in sh) and fn.const_value(_ret_payload(fn, n)) == 0 and _ret_payload(fn, n).get("k") is not None]
            ie = [c for c in fn.calls(r"slice::(<impl \[T\]>::)?is_empty$") if fn.origin(c.args[0]).lstrip("&").startswith("_3")]
            empty_edges = [(sw, t) for c in ie for sw, t, f in fn.bool_tests(c.dest[0])]
            # .. or the same test spelled `buf.len() == 0`
            is_blen = lambda f, o: any(l.dest[0] in slice_locals(f, o, strict=True) for l in f.calls(r"slice::(<impl \[T\]>::)?len$") if f.origin(l.args[0]).lstrip("&").startswith("_3"))
            is_zero = lambda f, o: f.const_value(o) == 0 and "k" in o
            empty_edges += [(sw, lab) for sw, lab, rel, cn in guards.edge_facts(fn, is_blen, is_zero) if rel == "=="]
            ok = bool(empty_edges) and all(any(fn.only_via(n, sw, [t]) for sw, t in empty_edges) for n in zero)
            ctx.ob("R02.3", "poll_write/Ready(Ok(0))-only-for-empty-input", ok, site=fn.site(zero[0]) if zero else fn.site(fn.entry), cfg=fx.cfg,
                   detail="Ok(0) exits: %s" % [fn.site(n) for n in zero])
            # Pending only when nothing was accepted
            pend = [n for n, sh in exits.items() if any(s.startswith("Pending") for s in sh)]
            zf = guards.edge_facts(fn, lambda f, o: T in slice_locals(f, o), lambda f, o: f.const_value(o) == 0)
            z = {(sw, lab) for sw, lab, rel, cn in zf if rel == "=="}
            ctx.ob("R02.3", "poll_write/Pending-only-if-total==0", len(pend) == 1 and bool(z) and pend[0] not in fn.reach([fn.entry], cut=z), site=fn.site(pend[0]) if pend else "", cfg=fx.cfg)
            # Ready(Ok(total)) with total>0 only after the new encrypted length was recorded
            okx = [n for n, sh in exits.items() if any(s.startswith("Ready.Ok") for s in sh) and T in slice_locals(fn, _ret_payload(fn, n))]
            ctx.anchor("R02.3", "poll_write: Ready(Ok(total_plaintext)) exit", len(okx), 1, cfg=fx.cfg)
            rec = [n for n, s in fn.aggregates(r"WriteState$", "Writing") if B in slice_locals(fn, s["rv"]["ops"][1])]
            rec += [n for n, s in fn.assigns() if s["rv"]["r"] == "use" and "*" in "".join(s["lhs"][1:]) and B in slice_locals(fn, s["rv"]["o"])]
            for n in okx:
                ctx.ob("R02.3", "poll_write/accepted-bytes-are-scheduled(encrypted_len=buffer_offset)", len(rec) >= 2 and n not in fn.reach([fn.entry], avoid=rec), site=fn.site(n), cfg=fx.cfg,
                       detail="state updates found: %s" % [fn.site(x) for x in rec])
    for key, nm in ((FL, "poll_flush"),):
        fn = ctx.fn(fx, key, "R02.3")
        if fn is None:
            continue
        inner = fn.calls(r"AsyncWrite::poll_flush$")
        ctx.anchor("R02.3", "poll_flush: socket flush", len(inner), 1, cfg=fx.cfg)
        sws = [sw for sw in fn.discr_switches() if sw[2] and sw[2].endswith("WriteState")]
        ctx.anchor("R02.3", "poll_flush: match on write_state", len(sws), 1, cfg=fx.cfg)
        eqs = [(n, s) for n, s in fn.assigns() if s["rv"]["r"] == "bin" and s["rv"]["op"] == "Eq"]
        eqs = [fn.calls(r"PartialEq(<.*>)?>?::eq$|cmp::impls::(<impl .*>::)?eq$")]
        drained = set()
        for c in fn.calls(r"PartialEq(<.*>)?>?::eq$|cmp::impls::(<impl .*>::)?eq$"):
            for sw, t, f in fn.bool_tests(c.dest[0]):
                drained.add((sw, t))
        for node, s in fn.assigns():
            if s["rv"]["r"] == "bin" and s["rv"]["op"] == "Eq":
                for sw, t, f in fn.bool_tests(s["lhs"][0]):
                    drained.add((sw, t))
        idle = set()
        for sw in sws[:1]:
            for lab in [l for n, l in fn.succs(sw[0]) if l not in fn.variant_edges(sw, "Writing")]:
                idle.add((sw[0], lab))
        for c in inner:
            r = fn.reach([fn.entry], cut=drained | idle)
            ctx.ob("R02.3", "poll_flush/socket-flush-only-when-encrypt-buffer-drained", bool(drained) and bool(idle) and c.node not in r, site=fn.site(c.node), cfg=fx.cfg,
                   detail="the inner flush must lie behind write_state != Writing or the offset == encrypted_len edge")
        wz = [n for n, sh in fn.exits() if any("Ready.Err" in s2 for s2 in sh)]
        ctx.ob("R02.3", "poll_flush/zero-length-write-is-an-error", len(wz) >= 1, site=fn.site(fn.entry), cfg=fx.cfg, nontrivial=False)


def _ret_payload(fn, node):
    """operand wrapped by the constructor chain written to _0 at node (Poll::Ready(Ok(x)) -> x)"""
    s = fn.at(node)
    rv = s.get("rv")
    o = None
    for _ in range(4):
        if rv is None or rv["r"] != "agg" or len(rv["ops"]) != 1:
            break
        o = rv["ops"][0]
        p = o.get("m") or o.get("c")
        if p is None:
            break
        d = fn.single_def(p[0])
        if d is None or d[1] != "assign":
            break
        rv = d[2]["rv"]
    return o or {"k": {}}


def r02_4(ctx, fx):
    for key in (RD, WR, FL, CL):
        fn = ctx.fn(fx, key, "R02.4")
        if fn is None:
            continue
        tracker = None
        extra = []
        note = ""
        if key == WR:
            # light path sensitivity on this.write_state (drained => Idle), and the capacity assumption: in the Idle arm
            # (buffer_offset = 0) the first chunk always fits because the encrypt buffer holds >= 1 frame (R02.1)
            tracker = typestate.Tracker(fn, r"\.write_state$")
            off = [x for x in [_accumulators(fn)[1]] if x is not None]
            # the write position starts at 0 in the Idle arm; the variable may be handed to a helper (then the constant is assigned to
            # the caller's local that the accumulator is initialised from)
            extra = [n for l in slice_locals(fn, {"c": [off[0]]}) for n, kind, pl in fn.defs().get(l, [])
                     if kind == "assign" and pl["rv"]["r"] == "use" and "k" in pl["rv"].get("o", {}) and fn.const_value(pl["rv"]["o"]) == 0] if off else []
            ctx.anchor("R02.4", "poll_write: Idle arm `buffer_offset = 0`", len(extra), 1, cfg=fx.cfg)
            note = " (paths through the Idle arm are discharged by the capacity argument of R02.1: a chunk of <= MAX_FRAME_LEN bytes fits an empty encrypt buffer)"
        bad, npolls, nwakers, npend = k11.pending_without_waker(fn, tracker=tracker, extra_avoid=extra)
        ctx.ob("R02.4", "%s/Pending-only-after-inner-Pending" % key.rsplit("::", 1)[-1], not bad, site=fn.site(fn.entry), cfg=fx.cfg,
               detail="inner polls %d, waker uses %d, Pending exits %d; unguarded: %s%s" % (npolls, nwakers, npend, [fn.path_sites(p) for _, p in bad], note))


def r02_5(ctx, fx):
    """"for every buffering configuration": the two configured factors (`max_read_ahead_factor`, `max_write_buffer_size`, plain
    `usize`s of the public transport configs, 0 is representable) size the read window and the encrypt buffer by multiplication in
    NoiseSocket::new. With a factor of 0 the encrypt buffer is empty - poll_write parks in `Pending` without a waker, nothing is
    delivered and nothing fails - and the read window is 0 (spurious EOF). Every product in `new` that has a configured factor as
    operand takes a provably positive one (`max(.., 1)`). This replaces the former assumption of R02.4 by an obligation."""
    fn = ctx.fn(fx, N + "NoiseSocket::<S>::new", "R02.5")
    if fn is None:
        return
    n = 0
    seen = {}
    for node, st in fn.assigns():
        rv = st["rv"]
        if rv["r"] != "bin" or not rv["op"].startswith("Mul"):
            continue
        for side in ("a", "b"):
            o = rv[side]
            rs = guards.rootstrs(fn, o)
            ps = sorted(x for x in rs if x in ("param:_3", "param:_4"))
            if not ps:
                continue
            n += 1
            which = "+".join("read_ahead_factor" if x == "param:_3" else "write_buffer_size" for x in ps)
            k = seen.get(which, 0)
            seen[which] = k + 1
            ctx.ob("R02.5", "NoiseSocket::new/product#%d-of-%s-takes-a-positive-factor" % (k, which), positive(fn, fx, o), site=fn.site(node), cfg=fx.cfg,
                   detail="a configured factor of 0 gives an empty buffer / window: writes hang in Pending without a waker")
    # (how often a product is written out is a matter of style - `let canonical_max_read = factor * MAX` once, or three times inline;
    # what must be there is a product for each of the two configured factors)
    ctx.anchor("R02.5", "NoiseSocket::new: configured factors that size a buffer by a product", len([w for w in seen if "+" not in w]), 2, cfg=fx.cfg)


def r02_6(ctx, fx):
    """a parsed frame length survives buffer compaction: `current_frame_size` holds the length prefix of a frame whose body has not
    arrived completely.  It is written by the frame state machine (poll_read) and the constructor only; the buffer helpers
    (reset_read_state: move the unread bytes to the front) must not touch it - with a carrier that delivers a single byte after a
    prefix the next two body bytes would otherwise be read as a length and the stream is mis-framed."""
    writers = {}
    n = 0
    for key in sorted(fx.find(r"^crypto::noise::|^<crypto::noise::")):
        fn = fx.fn(key)
        for node, s_ in fn.assigns():
            if "".join(str(x) for x in s_["lhs"][1:]).endswith(".current_frame_size") and "NoiseSocket" in fn.local_ty(s_["lhs"][0]):
                writers.setdefault(short(key), []).append(fn.site(node))
                n += 1
        for c in fn.calls(r"option::Option(<.*>)?::(take|replace|insert)$|mem::(take|replace)$"):
            if c.args and ".current_frame_size" in fn.recv(c):
                writers.setdefault(short(key), []).append(fn.site(c.node))
                n += 1
    ctx.anchor("R02.6", "writes of NoiseSocket.current_frame_size", n, 2, cfg=fx.cfg)
    allowed = ("poll_read", "NoiseSocket::new")
    bad = {k: v for k, v in writers.items() if not any(a in k for a in allowed)}
    ctx.ob("R02.6", "current_frame_size-written-only-by-the-frame-state-machine", not bad, cfg=fx.cfg, site=(list(bad.values())[0][0] if bad else ""),
           detail="writers: %s" % {k: len(v) for k, v in writers.items()})


def run(ctx):
    fx = ctx.facts("default")
    r02_1(ctx, fx)
    r02_2(ctx, fx)
    r02_3(ctx, fx)
    r02_4(ctx, fx)
    r02_5(ctx, fx)
    r02_6(ctx, fx)
    ctx.assume("snow's AEAD rejects altered ciphertext (read_message returns Err) and its constants.rs is the source built")
