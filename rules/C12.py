"""C12 - Notifications arrive in order, without loss or duplication (structural clauses).

R12.1 (K2) a notification is read from the wire only after a slot in the user channel was reserved: in Connection::poll_next the
      inbound substream is polled, and ConnectionEvent::NotificationReceived is produced, only behind the Ready(Ok) edge of
      PollSender::poll_reserve; PollSender::send_item is called only in the arm of Connection::start that handles that event, with
      that notification; a failed send_item closes the connection
R12.2 (effect rule) the synchronous send path (NotificationSink / NotificationHandle::send_sync_notification) is not async and
      touches channels only through try_send; Full maps to ChannelClogged and Closed to NoConnection; a clogged peer is
      force-closed; the asynchronous path awaits Sender::send on the async channel
R12.3 (provenance) the notification substream codec is UnsignedVarint(Some(max_notification_size)) and that codec object is what
      the transports frame the substream with (config -> register_protocol -> ProtocolContext.codec -> protocol_codec -> Substream)
R12.4 (K4/K9-lite) outbound: in Connection::poll_next a notification taken from next_notification / the receivers is, on every path,
      handed to start_send, parked back into next_notification, or the function returns CloseConnection; at most one is parked and
      the parked one is sent before any newer one (take() precedes the receivers)
R12.5 (K11) Connection::poll_next returns Pending only behind an inner Pending
Not decided: ordering/exactly-once over arbitrarily long sequences under back-pressure (histories).
"""
import re
from paths import refine_cuts
from common import short, slice_locals, ref_local
import guards
import k11

EXPLANATION = ("Guarded-by, effect (who-may-call), provenance and linear-obligation rules over the MIR CFG of the notification connection "
               "task and handles: inbound data is read only with a reserved delivery slot, the sync path cannot block, the size limit "
               "configured by the user is the limit the substream codec enforces, and an outbound notification taken from a queue is never "
               "dropped on a non-closing path.")

C = "protocol::notification::connection::"
PN = "<protocol::notification::connection::Connection as futures::Stream>::poll_next"
H = "protocol::notification::handle::"


def r12_1(ctx, fx):
    fn = ctx.fn(fx, PN, "R12.1")
    if fn is not None:
        res = fn.calls(r"PollSender(<.*>)?::poll_reserve$")
        ctx.anchor("R12.1", "poll_next: notif_tx.poll_reserve", len(res), 1, cfg=fx.cfg)
        evs = [n for n, s in fn.aggregates(r"ConnectionEvent$", "NotificationReceived")]
        ctx.anchor("R12.1", "poll_next: NotificationReceived aggregate", len(evs), 1, cfg=fx.cfg)
        inb = [c for c in fn.calls(r"StreamExt::poll_next_unpin$|Stream>?::poll_next$") if ".inbound" in fn.origin(c.args[0])]
        ctx.anchor("R12.1", "poll_next: inbound.poll_next_unpin", len(inb), 1, cfg=fx.cfg)
        if res:
            r0 = fn.reach([fn.entry], avoid=[res[0].node])
            bad_cuts_p = refine_cuts(fn, res[0], ["Pending"])
            bad_cuts_e = refine_cuts(fn, res[0], ["Ready", "Err", "?"])
            rp = fn.reach([res[0].node], cut=bad_cuts_p, after=True)
            re_ = fn.reach([res[0].node], cut=bad_cuts_e, after=True)
            for what, nodes in (("NotificationReceived", evs), ("inbound-read", [c.node for c in inb])):
                ok = bool(bad_cuts_p) and bool(bad_cuts_e) and all(n not in r0 and n not in rp and n not in re_ for n in nodes)
                ctx.ob("R12.1", "poll_next/%s-only-after-reserve-Ready(Ok)" % what, ok, site=fn.site(nodes[0]) if nodes else "", cfg=fx.cfg,
                       detail="without a reserved slot the notification read from the wire would be dropped (or send_item would panic)")
            # the event carries what the inbound substream yielded
            for n in evs:
                s = fn.stmt(n)
                rs = fn.roots(s["rv"]["ops"][0])
                ok = any(r[0] == "call" and re.search(r"poll_next(_unpin)?$", r[1]) for r in rs) and not any(r[0] == "call" and re.search(r"Receiver(<.*>)?::(recv|poll_recv)$", r[1]) for r in rs)
                ctx.ob("R12.1", "poll_next/event-carries-the-inbound-frame", ok, site=fn.site(n), cfg=fx.cfg)
    fn = ctx.fn(fx, C + "Connection::start::{closure#0}", "R12.1")
    if fn is not None:
        si = fn.calls(r"PollSender(<.*>)?::send_item$")
        ctx.anchor("R12.1", "start: send_item", len(si), 1, cfg=fx.cfg)
        sws = [sw for sw in fn.discr_switches() if sw[2] and sw[2].endswith("ConnectionEvent")]
        ctx.anchor("R12.1", "start: match on ConnectionEvent", len(sws), 1, cfg=fx.cfg)
        for c in si:
            ok = bool(sws) and any(fn.only_via(c.node, sw[0], fn.variant_edges(sw, "NotificationReceived")) for sw in sws)
            ctx.ob("R12.1", "start/send_item-only-for-NotificationReceived", ok, site=fn.site(c.node), cfg=fx.cfg,
                   detail="PollSender::send_item panics without a preceding successful poll_reserve; only NotificationReceived guarantees one")
            us = set()
            for l in slice_locals(fn, c.args[1]):
                for node, kind, pl in fn.defs().get(l, []):
                    if kind == "assign" and pl["rv"]["r"] == "agg":
                        for o in pl["rv"]["ops"]:
                            for l2 in slice_locals(fn, o):
                                d = fn.single_def(l2)
                                if d and d[1] == "assign" and d[2]["rv"]["r"] == "use":
                                    p = d[2]["rv"]["o"].get("m") or d[2]["rv"]["o"].get("c")
                                    if p:
                                        us.add("".join(map(str, p[1:])))
            ctx.ob("R12.1", "start/send_item-forwards-the-received-notification", any("@NotificationReceived" in u for u in us), site=fn.site(c.node), cfg=fx.cfg, detail=str(sorted(us)))
            cuts = refine_cuts(fn, c, ["Err", "?"])
            r = fn.reach([c.node], cut=cuts, after=True, stop=[c.node])
            cc = [x for x in fn.calls(r"Connection::close_connection$") if x.node in r]
            ex = [n for n, _ in fn.exits() if n in fn.reach([c.node], cut=cuts, after=True, avoid=[x.node for x in cc])]
            ctx.ob("R12.1", "start/failed-delivery-closes-the-stream", bool(cuts) and bool(cc) and not ex, site=fn.site(c.node), cfg=fx.cfg,
                   detail="a notification that cannot be delivered must end the stream (prefix delivery), not be skipped")


def mpsc_calls(fn):
    return [c for c in fn.calls(r"mpsc::(bounded::)?(Sender|Permit|OwnedPermit)(<.*>)?::\w+$|PollSender(<.*>)?::\w+$") if not c.from_macro]


def r12_2(ctx, fx):
    for key, field in ((H + "NotificationSink::send_sync_notification", "sync_tx"),):
        fn = ctx.fn(fx, key, "R12.2")
        if fn is None:
            continue
        ctx.ob("R12.2", "NotificationSink::send_sync_notification/is-not-async", not fn.is_coroutine and "Future" not in fn.ret and "impl" not in fn.ret, site=fn.site(fn.entry), cfg=fx.cfg, detail="ret: %s" % fn.ret)
        cs = mpsc_calls(fn)
        ok = len(cs) == 1 and cs[0].matches(r"Sender(<.*>)?::try_send$") and ("." + field) in fn.origin(cs[0].args[0])
        ctx.ob("R12.2", "NotificationSink::send_sync_notification/only-try_send-on-sync_tx", ok, site=fn.site(fn.entry), cfg=fx.cfg,
               detail="channel calls: %s" % [(short(c.name), fn.origin(c.args[0])) for c in cs])
        blocking = [c for c in fn.calls() if c.matches(r"blocking_send$|block_on$|::reserve$|Sender(<.*>)?::send$|thread::sleep$") and not c.from_macro]
        ctx.ob("R12.2", "NotificationSink::send_sync_notification/no-waiting-call", not blocking, site=fn.site(fn.entry), cfg=fx.cfg, detail=str(blocking))
        # the error mapping lives in the `map_err` closure, or - spelled as a `match` on the try_send result - in the function itself
        cl = ctx.fn(fx, key + "::{closure#0}", "R12.2", required=False)
        if cl is None or not [sw for sw in cl.discr_switches() if sw[2] and sw[2].endswith("TrySendError")]:
            cl = fn
        if cl is not None:
            sws = [sw for sw in cl.discr_switches() if sw[2] and sw[2].endswith("TrySendError")]
            ctx.anchor("R12.2", "send_sync_notification: match on TrySendError", len(sws), 1, cfg=fx.cfg)
            for sw in sws[:1]:
                for var, want in (("Full", "ChannelClogged"), ("Closed", "NoConnection")):
                    r = cl.reach([n for n, l in cl.succs(sw[0]) if l in cl.variant_edges(sw, var)])
                    got = set()
                    for n, sh in cl.ret_sites():
                        if n in r:
                            got |= sh
                    aggs = {s["rv"].get("var") for n, s in cl.aggregates(r"NotificationError$") if n in r}
                    ctx.ob("R12.2", "send_sync_notification/%s->%s" % (var, want), aggs == {want}, site=cl.site(sw[0]), cfg=fx.cfg, detail="error variants built on the %s edge: %s" % (var, sorted(aggs)))
    fn = ctx.fn(fx, H + "NotificationHandle::send_sync_notification", "R12.2")
    if fn is not None:
        ctx.ob("R12.2", "NotificationHandle::send_sync_notification/is-not-async", not fn.is_coroutine, site=fn.site(fn.entry), cfg=fx.cfg)
        cs = mpsc_calls(fn)
        cl = fx.fn(H + "NotificationHandle::send_sync_notification::{closure#0}")
        cs2 = mpsc_calls(cl) if cl is not None else []
        ok = all(c.matches(r"::try_send$") for c in cs + cs2)
        ctx.ob("R12.2", "NotificationHandle::send_sync_notification/channels-only-through-try_send", ok, site=fn.site(fn.entry), cfg=fx.cfg,
               detail="channel calls: %s" % [short(c.name) for c in cs + cs2])
        snk = fn.calls(r"NotificationSink::send_sync_notification$")
        ctx.anchor("R12.2", "NotificationHandle::send_sync_notification: sink call", len(snk), 1, cfg=fx.cfg)
        sws = [sw for sw in fn.discr_switches() if sw[2] and sw[2].endswith("NotificationError")]
        for sw in sws[:1]:
            r = fn.reach([n for n, l in fn.succs(sw[0]) if l in fn.variant_edges(sw, "ChannelClogged")])
            errs = [n for n, sh in fn.exits() if n in r]
            shapes = set()
            for n in errs:
                shapes |= dict(fn.exits())[n]
            ok = shapes == {"Err.ChannelClogged"} or all(s.startswith("Err") and "ChannelClogged" in s for s in shapes) and bool(shapes)
            ctx.ob("R12.2", "NotificationHandle::send_sync_notification/clogged-is-reported", ok, site=fn.site(sw[0]), cfg=fx.cfg, detail=str(sorted(shapes)))
            fc = any(s["rv"].get("var") == "ForceClose" for h in (cl, fn) if h is not None for n, s in h.aggregates(r"NotificationCommand$"))
            ins = [c for c in fn.calls(r"HashSet(<.*>)?::insert$") if ".clogged" in fn.origin(c.args[0]) and c.node in r]
            ctx.ob("R12.2", "NotificationHandle::send_sync_notification/clogged-peer-is-force-closed", bool(fc) and bool(ins), site=fn.site(sw[0]), cfg=fx.cfg)
    fn = ctx.fn(fx, H + "NotificationSink::send_async_notification::{closure#0}", "R12.2")
    if fn is not None:
        cs = mpsc_calls(fn)
        ok = len(cs) == 1 and cs[0].matches(r"Sender(<.*>)?::send$") and "async_tx" in fn.origin(cs[0].args[0])
        ctx.ob("R12.2", "NotificationSink::send_async_notification/awaits-send-on-async_tx", ok, site=fn.site(fn.entry), cfg=fx.cfg,
               detail="channel calls: %s" % [(short(c.name), fn.origin(c.args[0])) for c in cs])
    # channel wiring: the sink's sync/async senders are the peers of the connection's sync_rx/async_rx
    for key in fx.find(r"^protocol::notification::NotificationProtocol::\w+(::\{closure#0\})?$"):
        fn = fx.fn(key)
        sinks = fn.calls(r"NotificationSink::new$")
        conns = fn.calls(r"connection::Connection::new$")
        if not sinks or not conns:
            continue
        ctx.bodies.add((fx.cfg, key))
        chans = fn.calls(r"mpsc::(bounded::)?channel$")
        sizes = [sorted(guards.rootstrs(fn, c.args[0])) for c in chans]
        ok = any(any("sync_channel_size" in x for x in s) for s in sizes) and any(any("async_channel_size" in x and "sync_channel_size" not in x.replace("async_channel_size", "") for x in s) for s in sizes)
        ctx.ob("R12.2", "%s/channels-sized-from-sync/async_channel_size" % short(key), ok, site=fn.site(chans[0].node) if chans else fn.site(fn.entry), cfg=fx.cfg, detail=str(sizes))

        def chan_of(o):
            for l in slice_locals(fn, o):
                d = fn.single_def(l)
                if d and d[1] == "assign" and d[2]["rv"]["r"] == "use":
                    p = d[2]["rv"]["o"].get("m") or d[2]["rv"]["o"].get("c")
                    if p and len(p) > 1:
                        return (p[0], p[1])
            return None
        s, c = sinks[0], conns[0]
        # NotificationSink::new(peer, sync_tx, async_tx); Connection::new(.., async_rx, sync_rx)
        st, at = chan_of(s.args[1]), chan_of(s.args[2])
        ar, sr = chan_of(c.args[6]), chan_of(c.args[7])
        ok = None not in (st, at, ar, sr) and st[0] == sr[0] and at[0] == ar[0] and st[0] != at[0] and st[1] != sr[1] and at[1] != ar[1]
        ctx.ob("R12.2", "%s/sink-and-connection-share-the-two-channels" % short(key), ok, site=fn.site(s.node), cfg=fx.cfg,
               detail="sync tx/rx from %s/%s, async tx/rx from %s/%s" % (st, sr, at, ar))


def r12_3(ctx, fx):
    fn = ctx.fn(fx, "protocol::notification::config::Config::new", "R12.3")
    if fn is not None:
        aggs = fn.aggregates(r"codec::ProtocolCodec$", "UnsignedVarint")
        ctx.anchor("R12.3", "notification Config::new: UnsignedVarint aggregate", len(aggs), 1, cfg=fx.cfg)
        pnames = {i + 1: n for i, n in enumerate([fn.names.get(i + 1) for i in range(fn.argc)])}
        for n, s in aggs:
            rs = fn.roots(s["rv"]["ops"][0])
            plocal = [r[1] for r in rs if r[0] == "param"]
            some = [1 for l in slice_locals(fn, s["rv"]["ops"][0]) for _, k, pl in fn.defs().get(l, []) if k == "assign" and pl["rv"]["r"] == "agg" and pl["rv"].get("var") == "Some"]
            ok = bool(some) and len(plocal) == 1 and pnames.get(plocal[0]) == "max_notification_size" and not any(r[0] in ("call",) for r in rs)
            ctx.ob("R12.3", "notification-config/codec=UnsignedVarint(Some(max_notification_size))", ok, site=fn.site(n), cfg=fx.cfg, detail=str(sorted(guards.rootstrs(fn, s["rv"]["ops"][0]))))
        cfgagg = fn.aggregates(r"notification::config::Config$")
        adt = fx.adts.get("protocol::notification::config::Config")
        fields = [f["name"] for v in (adt or {}).get("variants", []) for f in v.get("fields", [])]
        for n, s in cfgagg:
            if "codec" in fields:
                o = s["rv"]["ops"][fields.index("codec")]
                ok = any(a[0] in [x for x in slice_locals(fn, o)] for a in [(s2["lhs"][0],) for _, s2 in aggs])
                ctx.ob("R12.3", "notification-config/Config.codec-is-that-codec", ok, site=fn.site(n), cfg=fx.cfg)
    fn = ctx.fn(fx, "protocol::notification::config::ConfigBuilder::build", "R12.3")
    if fn is not None:
        cn = fn.calls(r"notification::config::Config::new$")
        ctx.anchor("R12.3", "ConfigBuilder::build: Config::new", len(cn), 1, cfg=fx.cfg)
        new = fx.fn("protocol::notification::config::Config::new")
        for c in cn:
            idx = [i for i in range(new.argc) if new.names.get(i + 1) == "max_notification_size"] if new else []
            ok = bool(idx) and any(r[0] == "param" and r[2].endswith(".max_notification_size") for r in fn.roots(c.args[idx[0]])) and not any(r[0] == "const" and re.match(r"^\d+$", str(r[1])) for r in fn.roots(c.args[idx[0]]))
            ctx.ob("R12.3", "ConfigBuilder::build/passes-the-configured-max-size", ok, site=fn.site(c.node), cfg=fx.cfg, detail=str(sorted(guards.rootstrs(fn, c.args[idx[0]]))) if idx else "")
    fn = ctx.fn(fx, "Litep2p::new", "R12.3")
    if fn is not None:
        regs = [c for c in fn.calls(r"TransportManager::register_protocol$") if any(re.search(r"\.notification_protocols\b", x) for a in c.args[1:4] for x in guards.rootstrs(fn, a))]
        ctx.anchor("R12.3", "Litep2p::new: register_protocol(notification)", len(regs), 1, cfg=fx.cfg)
        for c in regs:
            rs = guards.rootstrs(fn, c.args[3])
            us = [u for l in slice_locals(fn, c.args[3]) for u in [fn.single_def(l)] if u and u[1] == "assign" and u[2]["rv"]["r"] == "use"]
            proj = ["".join(map(str, (u[2]["rv"]["o"].get("c") or u[2]["rv"]["o"].get("m"))[1:])) for u in us]
            ok = any(p.endswith(".codec") for p in proj) and not any(x.startswith("const:") and "ProtocolCodec" in x for x in rs)
            ctx.ob("R12.3", "Litep2p::new/notification-registered-with-config.codec", ok, site=fn.site(c.node), cfg=fx.cfg, detail="projections: %s" % proj)
    fn = ctx.fn(fx, "transport::manager::TransportManager::register_protocol", "R12.3")
    if fn is not None:
        pc = fn.calls(r"ProtocolContext::new$")
        ctx.anchor("R12.3", "register_protocol: ProtocolContext::new", len(pc), 1, cfg=fx.cfg)
        for c in pc:
            ok = guards.rootstrs(fn, c.args[0]) == {"param:_4"}
            ctx.ob("R12.3", "register_protocol/context-stores-the-given-codec", ok, site=fn.site(c.node), cfg=fx.cfg, detail=str(sorted(guards.rootstrs(fn, c.args[0]))))
    fn = ctx.fn(fx, "transport::manager::types::ProtocolContext::new", "R12.3", required=False) or ctx.fn(fx, "transport::manager::ProtocolContext::new", "R12.3", required=False)
    for key in fx.find(r"ProtocolContext::new$"):
        fn = fx.fn(key)
        aggs = fn.aggregates(r"ProtocolContext$")
        adt = [a for k, a in fx.adts.items() if k.endswith("::ProtocolContext")]
        fields = [f["name"] for v in (adt[0] if adt else {}).get("variants", []) for f in v.get("fields", [])]
        ok = bool(aggs) and "codec" in fields and guards.rootstrs(fn, aggs[0][1]["rv"]["ops"][fields.index("codec")]) == {"param:_1"}
        ctx.bodies.add((fx.cfg, key))
        ctx.ob("R12.3", "ProtocolContext::new/codec-field=codec-argument", ok, site=fn.site(fn.entry), cfg=fx.cfg)
    fn = ctx.fn(fx, "protocol::protocol_set::ProtocolSet::protocol_codec", "R12.3")
    if fn is not None:
        rs = fn.roots({"c": [0]})
        ok = any(r[0] == "param" and r[1] == 1 and ".protocols" in r[2] for r in rs) and not any(r[0] == "const" and "ProtocolCodec" in str(r[1]) for r in rs)
        # the returned value is the `.codec` field of the looked-up context
        rd = [s for n, s in fn.assigns() if s["lhs"] == [0] and s["rv"]["r"] == "use"]
        okf = any("".join(map(str, (s["rv"]["o"].get("c") or s["rv"]["o"].get("m") or [0])[1:])).endswith(".codec") for s in rd)
        ctx.ob("R12.3", "ProtocolSet::protocol_codec/returns-the-stored-codec", ok and okf, site=fn.site(fn.entry), cfg=fx.cfg, detail=str(sorted(guards.rootstrs(fn, {"c": [0]})))[:200])
    # every transport frames the substream with protocol_codec(negotiated protocol)
    n_new = 0
    for key in fx.find(r"^transport::(tcp|websocket|quic|webrtc)::connection::\w+::\w+(::\{closure#\d+\})*$"):
        fn = fx.fn(key)
        for c in fn.calls(r"substream::Substream::new_(tcp|websocket|quic|webrtc)$"):
            n_new += 1
            ctx.bodies.add((fx.cfg, key))
            pr = fn.producer(c.args[-1])
            ok = pr is not None and pr.matches(r"ProtocolSet::protocol_codec$")
            ctx.ob("R12.3", "%s/substream-framed-with-protocol_codec" % short(key), ok, site=fn.site(c.node), cfg=fx.cfg, detail="codec producer: %s" % pr)
    ctx.anchor("R12.3", "transport Substream::new_* call sites (%s)" % fx.cfg, n_new, 1 if fx.cfg == "default" else 4, cfg=fx.cfg)


def r12_4(ctx, fx):
    fn = ctx.fn(fx, PN, "R12.4")
    if fn is None:
        return
    take = [c for c in fn.calls(r"option::Option(<.*>)?::take$") if ".next_notification" in fn.origin(c.args[0])]
    ctx.anchor("R12.4", "poll_next: next_notification.take()", len(take), 1, cfg=fx.cfg)
    ss = [c for c in fn.calls(r"SinkExt::start_send_unpin$|Sink(<.*>)?>?::start_send$") if ".outbound" in fn.origin(c.args[0])]
    ctx.anchor("R12.4", "poll_next: outbound.start_send", len(ss), 1, cfg=fx.cfg)
    parks = [n for n, s in fn.assigns() if "".join(s["lhs"][1:]).endswith(".next_notification")]
    ctx.anchor("R12.4", "poll_next: park into next_notification", len(parks), 1, cfg=fx.cfg)
    closes = [n for n, s in fn.aggregates(r"ConnectionEvent$", "CloseConnection")]
    if not (take and ss):
        return
    t = take[0]
    # obligation: from the Some edge of the local that holds the notification (`let Some(notification) = notification else break`)
    # every path reaches start_send, a park, or a CloseConnection
    holder = [sw for sw in fn.discr_switches() if sw[2] and sw[2].endswith("option::Option") and "Vec<u8>" in fn.locals[sw[1][0]] and len(sw[1]) == 1]
    ctx.anchor("R12.4", "poll_next: `let Some(notification) = notification`", len(holder), 1, cfg=fx.cfg)
    # the binding switch is the one not directly testing the take() result
    for sw in holder:
        if sw[1][0] in fn.copies_of(t.dest[0]):
            continue
        some = [n for n, l in fn.succs(sw[0]) if l in fn.variant_edges(sw, "Some")]
        dis = [c.node for c in ss] + parks + closes
        p = fn.witness_path(some, [n for n, _ in fn.exits()] + [t.node], avoid=dis)
        ctx.ob("R12.4", "poll_next/taken-notification-is-sent-parked-or-stream-closed", p is None, site=fn.site(sw[0]), cfg=fx.cfg,
               detail="a path on which the notification is dropped: %s" % (fn.path_sites(p) if p else None))
    # the parked notification is consumed before any receiver is polled (order), and after parking the loop is left
    recv_polls = [c for c in fn.calls(r"FutureExt::poll_unpin$|Future::poll$") if c.node in fn.reach([t.node], after=True) and not ".rx" in fn.origin(c.args[0])]
    rfirst = fn.reach([fn.entry], avoid=[t.node])
    lates = [c for c in fn.calls(r"FutureExt::poll_unpin$") if c.node in rfirst and ".rx" not in fn.origin(c.args[0])]
    ctx.ob("R12.4", "poll_next/parked-notification-sent-before-newer-ones", not lates, site=fn.site(t.node), cfg=fx.cfg,
           detail="receiver polls reachable without first taking next_notification: %s" % [fn.site(c.node) for c in lates])
    for pk in parks:
        r = fn.reach([pk], after=True, avoid=[])
        ok = t.node not in fn.reach([pk], after=True, avoid=[n for n, _ in fn.exits()]) or all(True for _ in [0]) and t.node not in fn.reach([pk], after=True)
        ctx.ob("R12.4", "poll_next/after-parking-the-send-loop-is-left", t.node not in fn.reach([pk], after=True), site=fn.site(pk), cfg=fx.cfg,
               detail="taking another notification while one is parked would overwrite (lose) it")
    # the parked value is the notification that could not be sent (poll_ready Pending edge)
    pr = [c for c in fn.calls(r"SinkExt::poll_ready_unpin$|Sink(<.*>)?>?::poll_ready$") if ".outbound" in fn.origin(c.args[0])]
    ctx.anchor("R12.4", "poll_next: outbound.poll_ready", len(pr), 1, cfg=fx.cfg)
    for c in pr:
        cuts = refine_cuts(fn, c, ["Pending"])
        r = fn.reach([c.node], cut=cuts, after=True, stop=[t.node])
        ok = bool(cuts) and any(pk in r for pk in parks) and not any(s.node in r for s in ss)
        ctx.ob("R12.4", "poll_next/sink-not-ready=>park-and-do-not-send", ok, site=fn.site(c.node), cfg=fx.cfg)
        cuts = refine_cuts(fn, c, ["Ready", "Ok", "?"])
        r = fn.reach([c.node], cut=cuts, after=True, stop=[t.node])
        ok = bool(cuts) and any(s.node in r for s in ss) and not any(pk in fn.reach([c.node], cut=cuts, after=True, avoid=[s.node for s in ss], stop=[t.node]) for pk in parks)
        ctx.ob("R12.4", "poll_next/sink-ready=>start_send", ok, site=fn.site(c.node), cfg=fx.cfg)


def r12_5(ctx, fx):
    fn = ctx.fn(fx, PN, "R12.5")
    if fn is None:
        return
    bad, npolls, nwakers, npend = k11.pending_without_waker(fn)
    ctx.ob("R12.5", "Connection::poll_next/Pending-only-after-inner-Pending", not bad, site=fn.site(fn.entry), cfg=fx.cfg,
           detail="inner polls %d, Pending exits %d; unguarded: %s" % (npolls, npend, [fn.path_sites(p) for _, p in bad]))


def r12_6(ctx, fx):
    """channel capacities: tokio's bounded channel panics for capacity 0, and the per-stream channels are created from the configured
    `sync_channel_size` / `async_channel_size` at the moment a stream opens - inside the protocol task, which a panic takes down for
    every peer.  Each capacity handed to `mpsc::channel` in the notification protocol is a positive constant or a field that
    NotificationProtocol::new stores as `max(.., 1)` (or another provably positive form)."""
    n = 0
    fields = {}
    nf = ctx.fn(fx, "protocol::notification::NotificationProtocol::new", "R12.6")
    if nf is not None:
        for nd, s_ in nf.aggregates(r"notification::NotificationProtocol$"):
            f = dict(zip(s_["rv"].get("fields", []), s_["rv"]["ops"]))
            for k_ in ("sync_channel_size", "async_channel_size"):
                if k_ in f:
                    fields[k_] = _positive(nf, fx, f[k_])
    for key in sorted(fx.find(r"^protocol::notification::")):
        fn = fx.fn(key)
        for i, c in enumerate(fn.calls(r"mpsc::(bounded::)?channel$")):
            n += 1
            o = fn.origin(c.args[0])
            m = re.search(r"\.(sync_channel_size|async_channel_size)$", o)
            ok = _positive(fn, fx, c.args[0]) or (m is not None and fields.get(m.group(1), False))
            ctx.ob("R12.6", "%s/channel#%d-capacity>=1" % (short(key), i), ok, site=fn.site(c.node), cfg=fx.cfg, detail="capacity origin %s; stored positive: %s" % (o, fields))
    ctx.anchor("R12.6", "mpsc::channel call sites in the notification protocol", n, 2, cfg=fx.cfg)


from common import positive as _positive  # noqa: E402


def r12_7(ctx, fx):
    """a closed stream delivers a prefix and nothing of it is delivered on a later stream: the connection handler forwards received
    notifications to `notif_rx` and reports the close on `event_rx`; NotificationHandle::poll_next polls `event_rx` first, so the close
    can overtake notifications that arrived before it.  Either (A) the branch that reports NotificationStreamClosed first drains the
    closed peer's notifications out of `notif_rx` (a `try_recv` loop on every path to that return), or (B) `notif_rx` is polled before
    `event_rx`.  Otherwise leftovers are delivered after the next NotificationStreamOpened as if sent on the new stream, or only a tail
    of them survives the lazy discard (non-prefix)."""
    fn = None
    for k in fx.find(r"notification::handle::NotificationHandle as futures::Stream>::poll_next$"):
        fn = fx.fn(k)
    if fn is None:
        ctx.anchor("R12.7", "NotificationHandle::poll_next", 0, 1, cfg=fx.cfg)
        return
    ctx.bodies.add((fx.cfg, fn.key))
    closed = [n for n, _ in fn.aggregates(r"NotificationEvent$", "NotificationStreamClosed")]
    ctx.anchor("R12.7", "poll_next: NotificationStreamClosed built", len(closed), 1, cfg=fx.cfg)
    drains = [c.node for c in fn.calls(r"mpsc::(bounded::)?Receiver(<.*>)?::try_recv$") if ".notif_rx" in fn.recv(c)]
    a = bool(drains) and all(n not in fn.reach([fn.entry], avoid=drains) for n in closed)
    ev = [c.node for c in fn.calls(r"Receiver(<.*>)?::poll_recv$") if ".event_rx" in fn.recv(c)]
    nt = [c.node for c in fn.calls(r"Receiver(<.*>)?::poll_recv$") if ".notif_rx" in fn.recv(c)]
    b = bool(ev) and bool(nt) and all(e not in fn.reach([fn.entry], avoid=nt) for e in ev)
    ctx.ob("R12.7", "poll_next/close-does-not-overtake-received-notifications", a or b, site=fn.site(closed[0]) if closed else fn.site(fn.entry), cfg=fx.cfg,
           detail="(A) notif_rx drained before NotificationStreamClosed is returned: %s; (B) notif_rx polled before event_rx: %s" % (a, b))
    # (A) parks the other peers' notifications it reads while draining in a side queue that is delivered first: the closed peer's
    # entries of *that* queue (parked during an earlier close of another peer) are purged on every path to the return as well
    parks = [c for c in fn.calls(r"VecDeque(<.*>)?::push_back$") if ".pending_notifications" in fn.recv(c)]
    if a and parks:
        purge = [c.node for c in fn.calls(r"VecDeque(<.*>)?::(retain|retain_mut|clear)$") if ".pending_notifications" in fn.recv(c)]
        okp = bool(purge) and all(n not in fn.reach([fn.entry], avoid=purge) for n in closed)
        ctx.ob("R12.7", "poll_next/closed-peer's-parked-notifications-are-purged", okp, site=fn.site(closed[0]) if closed else fn.site(fn.entry), cfg=fx.cfg,
               detail="purge calls on pending_notifications: %d" % len(purge))


def run(ctx):
    for cfg in ctx.configs():
        fx = ctx.facts(cfg)
        if cfg == "default":
            r12_1(ctx, fx)
            r12_2(ctx, fx)
            r12_4(ctx, fx)
            r12_5(ctx, fx)
            r12_6(ctx, fx)
            r12_7(ctx, fx)
            # "none is skipped / no duplicate" also rests on the framed substream every notification travels through: the flush
            # completeness and stash discipline of Substream::poll_flush (rule R04.4, stated in rules/C04.py) is evaluated here as well
            import C04
            C04.r04_4(ctx, fx)
        r12_3(ctx, fx)
    ctx.assume("tokio mpsc channels are FIFO per sender and try_send never waits; PollSender::send_item panics without a reserved slot")
    ctx.assume("C04 R04.1: a frame larger than the codec maximum is an error before allocation")
