"""C20 - Bitswap blocks are verified against their CID (provenance part) and outgoing batches are size-guarded prefixes.

R20.1 block_to_response: the CID of the returned Block is Cid::new(prefix.version, prefix.codec, wrap(code(d), digest(d))) with
      d = Code::try_from(prefix.multihash_type).digest(block.data); the block payload is block.data; Some(..) only over the
      Some/Ok edges of every fallible step; the remote-supplied multihash_len is never read
R20.2 ResponseType::Block is constructed only in block_to_response (and the derived Clone); on_message_received fills the response
      vector only from block_to_response results and Presence aggregates
R20.3 send_response: every send_framed lies behind `message.len() <= MAX_MESSAGE_SIZE` for the very message sent;
      MAX_BATCH_SIZE <= MAX_MESSAGE_SIZE; extract_next_batch drains a prefix (`..n`), n counts only blocks accepted over the
      `total + next > max` false edge, accumulates the same length it compared, and discards a front block only when it alone exceeds max
Not decided: 'every fitting block exactly once' as a count; protobuf framing overhead arithmetic.
"""
import re
from common import short, slice_locals, closure_arg
import guards

EXPLANATION = ("Provenance and guard rules over the MIR CFG of the bitswap inbound/outbound paths: the content identifier reported with a "
               "received block is rooted in a digest computed locally over the received bytes with the hash function named by the prefix, "
               "every fallible step guards the Some exit, Block responses have a single construction site, and each outgoing message is "
               "behind its size comparison; batches are order-preserving prefixes whose count is guarded by the running-sum comparison.")

BS = "protocol::libp2p::bitswap::"
ALLOWED_CID_ROOTS = re.compile(
    r"Multihash(<.*>)?::(wrap|code|digest)$|MultihashDigest(<.*>)?>?::digest$|Code as std::convert::TryFrom<u64>>::try_from$|"
    r"bitswap::Prefix::from_bytes$|Deref>?::deref$|CidGeneric(<.*>)?::new$")


def local_of(fn, o):
    m = re.match(r"^&?_(\d+)", fn.origin(o))
    return int(m.group(1)) if m else None


def r20_1(ctx, fx):
    fn = ctx.fn(fx, BS + "block_to_response", "R20.1")
    if fn is None:
        return
    dg = fn.calls(r"MultihashDigest(<.*>)?>?::digest$")
    wrap = fn.calls(r"Multihash(<.*>)?::wrap$")
    cidnew = fn.calls(r"CidGeneric(<.*>)?::new$")
    pfx = fn.calls(r"bitswap::Prefix::from_bytes$")
    code = fn.calls(r"Code as std::convert::TryFrom<u64>>::try_from$")
    blocks = fn.aggregates(r"ResponseType$", "Block")
    for what, xs in (("MultihashDigest::digest", dg), ("Multihash::wrap", wrap), ("Cid::new", cidnew), ("Prefix::from_bytes", pfx), ("Code::try_from", code), ("ResponseType::Block aggregate", blocks)):
        ctx.anchor("R20.1", "block_to_response: " + what, len(xs), 1, cfg=fx.cfg)
    if not (dg and wrap and cidnew and pfx and code and blocks) or len(dg) != 1 or len(wrap) != 1 or len(cidnew) != 1:
        ctx.ob("R20.1", "block_to_response/single-hash-pipeline", False, site=fn.site(fn.entry), cfg=fx.cfg,
               detail="expected exactly one digest / wrap / Cid::new call: %d %d %d; the identifier must be assembled by the validating constructor "
                      "Cid::new(version, codec, multihash) - new_v0 / new_v1 skip the version-codec consistency check, so a malformed prefix "
                      "(v0 with a foreign codec) would be delivered instead of dropped" % (len(dg), len(wrap), len(cidnew)))
        return
    d, w, cn = dg[0], wrap[0], cidnew[0]
    o = fn.origin(d.args[1])
    ctx.ob("R20.1", "block_to_response/digest-over-received-data", bool(re.match(r"^&?_2\.data$", o)), site=fn.site(d.node), cfg=fx.cfg,
           detail="the hashed bytes must be block.data; origin of the digest input: %s" % o)
    rc = guards.rootstrs(fn, d.args[0])
    ok = any("try_from" in x for x in rc) and any("Prefix::from_bytes" in x for x in rc) and not any(x.startswith("const:") and re.match(r"const:\d+$", x) for x in rc)
    ctx.ob("R20.1", "block_to_response/hash-function-from-prefix.multihash_type", ok, site=fn.site(d.node), cfg=fx.cfg, detail="roots: %s" % sorted(rc))
    ta = fn.origin(code[0].args[0])
    # the argument of Code::try_from is the multihash_type field of the parsed prefix
    src = [s for n, s in fn.assigns() if s["lhs"][0] in slice_locals(fn, code[0].args[0]) and s["rv"]["r"] == "use" and "".join((s["rv"]["o"].get("c") or s["rv"]["o"].get("m") or [0])[1:]).endswith(".multihash_type")]
    ctx.ob("R20.1", "block_to_response/Code::try_from(prefix.multihash_type)", bool(src), site=fn.site(code[0].node), cfg=fx.cfg, detail="origin %s" % ta)
    # wrap(code(d), digest(d)) with d the local digest
    p0, p1 = fn.producer(w.args[0]), fn.producer(w.args[1])
    ok = (p0 is not None and p0.matches(r"Multihash(<.*>)?::code$") and local_of(fn, p0.args[0]) == d.dest[0]
          and p1 is not None and p1.matches(r"Multihash(<.*>)?::digest$") and local_of(fn, p1.args[0]) == d.dest[0])
    ctx.ob("R20.1", "block_to_response/wrap(code(d),digest(d))-of-the-local-digest", ok, site=fn.site(w.node), cfg=fx.cfg,
           detail="producers: %s / %s" % (p0, p1))
    # Cid::new(version, codec, multihash): multihash is the Ok payload of wrap; version/codec from the prefix
    mh = slice_locals(fn, cn.args[2])
    ok = any(fn.single_def(l) and fn.single_def(l)[1] == "assign" and fn.single_def(l)[2]["rv"]["r"] == "use"
             and (fn.single_def(l)[2]["rv"]["o"].get("c") or fn.single_def(l)[2]["rv"]["o"].get("m") or [None])[0] == w.dest[0] for l in mh)
    ctx.ob("R20.1", "block_to_response/Cid::new-multihash-is-wrap-result", ok, site=fn.site(cn.node), cfg=fx.cfg)
    for i, nm in ((0, "version"), (1, "codec")):
        rs = guards.rootstrs(fn, cn.args[i])
        ctx.ob("R20.1", "block_to_response/Cid::new-%s-from-prefix" % nm, rs == {"call:protocol::libp2p::bitswap::Prefix::from_bytes", "call:<std::vec::Vec<T, A> as std::ops::Deref>::deref", "param:_2.prefix"} or
               (any("Prefix::from_bytes" in x for x in rs) and not any("digest" in x or ".data" in x for x in rs)), site=fn.site(cn.node), cfg=fx.cfg, detail="roots: %s" % sorted(rs))
    for node, s in blocks:
        cid_op, data_op = s["rv"]["ops"][0], s["rv"]["ops"][1]
        calls_ = {r[1] for r in fn.roots(cid_op) if r[0] in ("call", "mutcall")}
        foreign = sorted(c for c in calls_ if not ALLOWED_CID_ROOTS.search(c))
        ok = any(re.search(r"CidGeneric(<.*>)?::new$", c) for c in calls_) and any(re.search(r"MultihashDigest(<.*>)?>?::digest$", c) for c in calls_) and not foreign
        ctx.ob("R20.1", "block_to_response/Block.cid-rooted-only-in-the-local-hash-pipeline", ok, site=fn.site(node), cfg=fx.cfg,
               detail="call roots outside the pipeline: %s" % foreign)
        do = fn.origin(data_op)
        ctx.ob("R20.1", "block_to_response/Block.block-is-received-data", bool(re.match(r"^_2\.data$", do)), site=fn.site(node), cfg=fx.cfg, detail="origin: %s" % do)
    # Some only over the success edge of every fallible step
    somes = [n for n, sh in fn.exits(r"^Some") if any(x.startswith("Some") for x in sh)]
    ctx.anchor("R20.1", "block_to_response: Some exit", len(somes), 1, cfg=fx.cfg)
    for call, var in ((pfx[0], "Some"), (code[0], "Ok"), (w, "Ok"), (cn, "Ok")):
        sws = [sw for sw in fn.discr_switches() if sw[1][0] in fn.copies_of(call.dest[0]) and len(sw[1]) == 1]
        ok = bool(sws) and all(fn.only_via(n, sws[0][0], fn.variant_edges(sws[0], var)) for n in somes)
        ctx.ob("R20.1", "block_to_response/Some-only-over-%s-of-%s" % (var, short(call.name)), ok, site=fn.site(call.node), cfg=fx.cfg)
    # the remote-supplied digest length is never read
    reads = []
    for n, s in fn.assigns():
        rv = s["rv"]
        for k in ("o", "a", "b"):
            if k in rv and isinstance(rv[k], dict):
                p = rv[k].get("c") or rv[k].get("m")
                if p and "".join(p[1:]).endswith(".multihash_len"):
                    reads.append(fn.site(n))
        if rv["r"] == "ref" and "".join(rv["p"][1:]).endswith(".multihash_len"):
            reads.append(fn.site(n))
    ctx.ob("R20.1", "block_to_response/prefix.multihash_len-unused", not reads, site=fn.site(fn.entry), cfg=fx.cfg, detail="reads: %s" % reads)
    ctx.ob("R20.1", "block_to_response/data-not-mutated-before-return", not [c for c in fn.calls(r"Vec::\w+$") if re.match(r"^&?_2\.data$", fn.recv(c)) and re.search(r"&mut", fn.locals[(c.args[0].get("m") or c.args[0].get("c"))[0]])],
           site=fn.site(fn.entry), cfg=fx.cfg)


def r20_2(ctx, fx):
    cons = [k for k in fx.constructors_of("protocol::libp2p::bitswap::handle::ResponseType::Block")]
    foreign = [k for k in cons if k != BS + "block_to_response" and not re.search(r"as std::clone::Clone>::clone$", k)]
    ctx.ob("R20.2", "ResponseType::Block-constructed-only-in-block_to_response", BS + "block_to_response" in cons and not foreign, cfg=fx.cfg,
           detail="constructors: %s" % cons)
    fn = ctx.fn(fx, BS + "Bitswap::on_message_received::{closure#0}", "R20.2")
    if fn is None:
        return
    ev = fn.aggregates(r"BitswapEvent$", "Response")
    ctx.anchor("R20.2", "on_message_received: BitswapEvent::Response aggregate", len(ev), 1, cfg=fx.cfg)
    pushes = [c for c in fn.calls(r"Vec::push$") if "ResponseType" in fn.locals[(c.args[1].get("m") or c.args[1].get("c") or [0])[0]]]
    # `responses.extend(payload.into_iter().filter_map(block_to_response))`: the blocks arrive through the verifying function as well
    exts = [c for c in fn.calls(r"Extend(<.*>)?>?::extend$|Vec(<.*>)?::extend$") if len(c.args) > 1 and "ResponseType" in fn.locals[(c.args[0].get("m") or c.args[0].get("c") or [0])[0]]]
    for i, c in enumerate(exts):
        rs = guards.rootstrs(fn, c.args[1])
        ok = any(re.search(r"Iterator>?::filter_map$", x) for x in rs) and any(x.startswith("const:fn:") and x.endswith("bitswap::block_to_response") for x in rs)
        if not ok and any(re.search(r"Iterator>?::filter_map$", x) for x in rs):
            # .. or through a closure `|block| block_to_response(peer, block)` whose result is that call's result
            for fm in fn.calls(r"Iterator>?::filter_map$"):
                q = fm.args[1].get("m") or fm.args[1].get("c")
                d = fn.single_def(q[0]) if q and len(q) == 1 else None
                if d is not None and d[1] == "assign" and d[2]["rv"]["r"] == "agg" and d[2]["rv"].get("closure") and fx.fn(d[2]["rv"]["closure"]) is not None:
                    clf = fx.fn(d[2]["rv"]["closure"])
                    ctx.bodies.add((fx.cfg, clf.key))
                    r0 = guards.rootstrs(clf, {"c": [0]})
                    if any(x == "call:" + BS + "block_to_response" or x.endswith("bitswap::block_to_response") for x in r0) and ("call", fm.name) in fn.roots(c.args[1]):
                        ok = True
        ctx.ob("R20.2", "on_message_received/extended-responses#%d-come-from-block_to_response" % i, ok, site=fn.site(c.node), cfg=fx.cfg, detail=str(sorted(x for x in rs if "fn:" in x or "filter" in x)))
    ctx.anchor("R20.2", "on_message_received: pushes of ResponseType", len(pushes) + len(exts), 2, cfg=fx.cfg)
    for i, c in enumerate(pushes):
        rs = fn.roots(c.args[1])
        from_btr = any(r[0] == "call" and r[1].endswith("bitswap::block_to_response") for r in rs)
        loc = (c.args[1].get("m") or c.args[1].get("c"))[0]
        is_presence = any(kind == "assign" and pl["rv"]["r"] == "agg" and pl["rv"].get("var") == "Presence" for _, kind, pl in fn.defs().get(loc, []))
        ctx.ob("R20.2", "on_message_received/pushed-response#%d-is-verified-block-or-presence" % i, from_btr != is_presence or from_btr, site=fn.site(c.node), cfg=fx.cfg,
               detail="from block_to_response: %s, presence aggregate: %s" % (from_btr, is_presence))
    for node, s in ev:
        ops = s["rv"]["ops"]
        vec_locals = {local_of(fn, c.args[0]) for c in pushes}
        sent = {(o.get("m") or o.get("c") or [None])[0] for o in ops}
        ok = bool(vec_locals & set().union(*[slice_locals(fn, o) for o in ops]))
        ctx.ob("R20.2", "on_message_received/Response-carries-the-filled-vector", ok, site=fn.site(node), cfg=fx.cfg,
               detail="vector locals %s, event operands %s" % (sorted(x for x in vec_locals if x is not None), sorted(x for x in sent if x is not None)))
    btr = fn.calls(r"bitswap::block_to_response$")
    for c in btr:
        o = guards.rootstrs(fn, c.args[1])
        ctx.ob("R20.2", "on_message_received/block_to_response-fed-from-message.payload", any("payload" in x or "Iterator" in x for x in o), site=fn.site(c.node), cfg=fx.cfg,
               detail="roots: %s" % sorted(o)[:6])


def has_add(fn, o):
    """operand o *is* a sum: a once-assigned temporary in its copy slice is defined by an Add (an accumulator variable,
    which is assigned more than once, is not)"""
    for l in slice_locals(fn, o, strict=True):
        sd = fn.single_def(l)
        if sd is not None and sd[1] == "assign" and sd[2]["rv"]["r"] == "bin" and sd[2]["rv"]["op"].startswith("Add"):
            return True
    return False


def len_calls_in(fn, o, depth=2):
    """Vec::len / Bytes::len call destinations in the (copy + one arithmetic step) slice of operand o"""
    out = set()
    work = list(slice_locals(fn, o, strict=True))
    seen = set(work)
    while work:
        l = work.pop()
        for node, kind, pl in fn.defs().get(l, []):
            if kind == "call" and re.search(r"(Vec|Bytes)(<.*>)?::len$", fn.call_at(node).name or ""):
                out.add(l)
            if kind == "assign" and pl["rv"]["r"] == "bin" and fn.single_def(l) is not None:
                for k in ("a", "b"):
                    for x in slice_locals(fn, pl["rv"][k], strict=True):
                        if x not in seen:
                            seen.add(x)
                            work.append(x)
    return out


def _none_only_when_empty(ctx, fx, fn):
    """every exit of extract_next_batch is Some(..) or the None that stems from `front()` having found the queue empty
    (`front()?`, or the None edge of a match / while-let on front()/is_empty()).  Anything else - a computed Option, a None behind an
    unrelated test - can drop queued blocks: send_response stops at the first None."""
    emptiness = [c for c in fn.calls(r"VecDeque(<.*>)?::(front|is_empty|len|get|iter)$|Iterator::next$")]
    cut = set()
    for sw in fn.discr_switches():
        node, place = sw[0], sw[1]
        prod = fn.producer(place)
        if prod is not None and re.search(r"ops::Try>?::branch$", prod.name):
            prod = fn.producer(prod.args[0])
        if prod is not None and re.search(r"VecDeque(<.*>)?::front$", prod.name):
            for v in ("None", "Break"):
                for lab in fn.variant_edges(sw, v):
                    cut.add((node, lab))
    for sw_node, t, f in [x for c in fn.calls(r"VecDeque(<.*>)?::is_empty$") for x in fn.bool_tests(c.dest[0])]:
        cut.add((sw_node, t))
    fr = [c.node for c in fn.calls(r"VecDeque(<.*>)?::(front|is_empty)$")]
    r_nocut = fn.reach([fn.entry], cut=cut)
    bad = []
    for n, sh in fn.exits():
        if all(x.startswith("Some") for x in sh):
            continue
        if all(x.startswith("None") or x == "residual" for x in sh) and fr and n not in r_nocut:
            continue
        bad.append((fn.site(n), sorted(sh)))
    ctx.ob("R20.3", "extract_next_batch/None-only-when-queue-empty", not bad, site=fn.site(fn.entry), cfg=fx.cfg,
           detail="exits that are neither Some(..) nor the None of an empty queue: %s" % bad)


def r20_4(ctx, fx):
    """no single message exceeds the limit *and* every block is sent: the batch is also cut by an upper bound of its encoded size.
    send_response drops a message whose encoding exceeds MAX_MESSAGE_SIZE, so a batch cut by payload bytes alone (many tiny blocks:
    the CID prefix and protobuf framing dominate) would be discarded as a whole with Ok(()).  In extract_next_batch the count is
    incremented only on the edge where an accumulated size that adds a positive per-block overhead to each payload length stays
    `<= MAX_MESSAGE_SIZE` (or the batch is still empty)."""
    fn = ctx.fn(fx, BS + "extract_next_batch", "R20.4")
    if fn is None:
        return
    mm = fx.const(BS + "config::MAX_MESSAGE_SIZE")
    is_b = lambda f, o: any(r == ("const", BS + "config::MAX_MESSAGE_SIZE") for r in f.roots(o)) or (isinstance(mm, int) and f.const_value(o) == mm)
    is_q = lambda f, o: has_add(f, o) and bool(len_calls_in(f, o)) and not is_b(f, o)
    facts = guards.edge_facts(fn, is_q, is_b)
    ctx.ob("R20.4", "extract_next_batch/batch-also-cut-by-encoded-size-vs-MAX_MESSAGE_SIZE", bool(facts), site=fn.site(fn.entry), cfg=fx.cfg,
           detail="comparisons of an accumulated size with MAX_MESSAGE_SIZE: %d" % len({cn for *_, cn in facts}))
    if not facts:
        return
    # the compared quantity carries a per-block overhead: a positive constant (or a callee computing the encoded length) besides len()
    over = False
    for cn in {cn for *_, cn in facts}:
        at = fn.stmt(cn) if not fn.is_term(cn) else None
        ops = [at["rv"]["a"], at["rv"]["b"]] if at and "rv" in at else []
        for o in ops:
            if is_q(fn, o):
                rs = guards.rootstrs(fn, o)
                consts = [fx.const(x[6:]) if not x[6:].lstrip("-").isdigit() else int(x[6:]) for x in rs if x.startswith("const:")]
                over = over or any(isinstance(v, int) and v >= 1 for v in consts) or any(x.startswith("call:") and not re.search(r"::len$", x) for x in rs)
    ctx.ob("R20.4", "extract_next_batch/encoded-size-adds-a-positive-per-block-overhead", over, site=fn.site(fn.entry), cfg=fx.cfg)


def r20_3(ctx, fx):
    mm = fx.const(BS + "config::MAX_MESSAGE_SIZE")
    mb = fx.const(BS + "config::MAX_BATCH_SIZE")
    ctx.ob("R20.3", "MAX_BATCH_SIZE<=MAX_MESSAGE_SIZE", isinstance(mm, int) and isinstance(mb, int) and 0 < mb <= mm, cfg=fx.cfg, detail="%s <= %s" % (mb, mm))
    fn = ctx.fn(fx, BS + "send_response::{closure#0}", "R20.3")
    if fn is not None:
        sends = fn.calls(r"Substream::send_framed$")
        ctx.anchor("R20.3", "send_response: send_framed calls", len(sends), 2, cfg=fx.cfg)
        for i, c in enumerate(sends):
            msg = local_of(fn, c.args[1])

            def is_q(f, o, msg=msg):
                for l in f.calls(r"Bytes::len$"):
                    if l.dest[0] in slice_locals(f, o) and local_of(f, l.args[0]) == msg:
                        return True
                return False

            def is_b(f, o):
                return any(r == ("const", BS + "config::MAX_MESSAGE_SIZE") for r in f.roots(o)) or f.const_value(o) == mm
            ok, why = guards.guarded(fn, c.node, is_q, is_b, "<=")
            ctx.ob("R20.3", "send_response/send_framed#%d-behind-len(message)<=MAX_MESSAGE_SIZE" % i, ok, site=fn.site(c.node), cfg=fx.cfg, detail=why)
        ex = fn.calls(r"bitswap::extract_next_batch$")
        ctx.anchor("R20.3", "send_response: extract_next_batch", len(ex), 1, cfg=fx.cfg)
        for c in ex:
            ok = any(r == ("const", BS + "config::MAX_BATCH_SIZE") for r in fn.roots(c.args[1]))
            ctx.ob("R20.3", "send_response/batches-limited-by-MAX_BATCH_SIZE", ok, site=fn.site(c.node), cfg=fx.cfg, detail=str(sorted(guards.rootstrs(fn, c.args[1]))))
    fn = ctx.fn(fx, BS + "extract_next_batch", "R20.3")
    if fn is None:
        return
    _none_only_when_empty(ctx, fx, fn)
    dr = fn.calls(r"VecDeque(<.*>)?::drain$")
    ctx.anchor("R20.3", "extract_next_batch: drain", len(dr), 1, cfg=fx.cfg)
    if not dr:
        return
    d = dr[0]
    rng_l = (d.args[1].get("m") or d.args[1].get("c"))[0]
    rdef = fn.single_def(rng_l)
    is_prefix = rdef is not None and rdef[1] == "assign" and rdef[2]["rv"]["r"] == "agg" and rdef[2]["rv"]["adt"].endswith("ops::RangeTo")
    ctx.ob("R20.3", "extract_next_batch/drains-a-prefix(..n)", is_prefix, site=fn.site(d.node), cfg=fx.cfg,
           detail="a prefix drain keeps the order and removes exactly the blocks that are sent")
    if not is_prefix:
        return
    cnt_locals = slice_locals(fn, rdef[2]["rv"]["ops"][0])
    is_b = lambda f, o: guards.rootstrs(f, o) == {"param:_2"}
    # increments of the count
    incs = []
    for l in cnt_locals:
        for node, kind, pl in fn.defs().get(l, []):
            if kind == "assign" and pl["rv"]["r"] == "use" and pl["rv"]["o"].get("k") is None:
                src = (pl["rv"]["o"].get("m") or pl["rv"]["o"].get("c"))
                sd = fn.single_def(src[0]) if src else None
                if sd and sd[1] == "assign" and sd[2]["rv"]["r"] == "bin" and sd[2]["rv"]["op"].startswith("Add"):
                    incs.append(node)
    ctx.anchor("R20.3", "extract_next_batch: increment of the batch count", len(incs), 1, cfg=fx.cfg)
    is_sum = lambda f, o: has_add(f, o) and bool(len_calls_in(f, o))
    is_single = lambda f, o: not has_add(f, o) and bool(len_calls_in(f, o))
    for n in incs:
        ok, why = guards.guarded(fn, n, is_sum, is_b, "<=")
        ctx.ob("R20.3", "extract_next_batch/count-incremented-only-if-total+next<=max", ok, site=fn.site(n), cfg=fx.cfg, detail=why)
    # every running total accumulates what was compared: for each comparison `acc + x <=> bound` the accumulator `acc` (a local
    # assigned more than once) is updated by adding an `x` with the same len() sources
    def acc_of(o):
        """(accumulator locals, len-call locals, const addends) in the one-step arithmetic slice of a sum operand"""
        accs, consts = set(), set()
        for l in slice_locals(fn, o, strict=True):
            sd = fn.single_def(l)
            if sd is not None and sd[1] == "assign" and sd[2]["rv"]["r"] == "bin" and sd[2]["rv"]["op"].startswith("Add"):
                for k_ in ("a", "b"):
                    for x in slice_locals(fn, sd[2]["rv"][k_], strict=True):
                        if fn.single_def(x) is None and not (1 <= x <= fn.argc):
                            accs.add(x)
        return accs
    updates = {}   # accumulator local -> set of len-call locals added to it
    n_acc = 0
    for node, s in fn.assigns():
        if s["rv"]["r"] != "use" or len(s["lhs"]) != 1 or fn.single_def(s["lhs"][0]) is not None or s["lhs"][0] in cnt_locals:
            continue
        src = s["rv"]["o"].get("m") or s["rv"]["o"].get("c")
        sd = fn.single_def(src[0]) if src else None
        if sd and sd[1] == "assign" and sd[2]["rv"]["r"] == "bin" and sd[2]["rv"]["op"].startswith("Add"):
            n_acc += 1
            updates.setdefault(s["lhs"][0], set()).update(len_calls_in(fn, sd[2]["rv"]["a"]) | len_calls_in(fn, sd[2]["rv"]["b"]))
    ctx.anchor("R20.3", "extract_next_batch: update of the running total", n_acc, 1, cfg=fx.cfg)
    is_any_bound = lambda f, o: is_b(f, o) or any(r[0] == "const" and str(r[1]).endswith("MAX_MESSAGE_SIZE") for r in f.roots(o))
    pairs = []
    for node, dest, rel in guards.comparisons(fn, is_sum, is_any_bound):
        st = fn.stmt(node)
        for k in ("a", "b"):
            o = st["rv"][k]
            if is_sum(fn, o):
                for a in acc_of(o):
                    pairs.append((a, len_calls_in(fn, o), fn.site(node)))
    okp = bool(pairs) and all(updates.get(a) is not None and lens <= updates.get(a, set()) and updates.get(a) <= lens for a, lens, _ in pairs)
    # .. and it is the very term that was compared: `acc + X <= bound` is followed by `acc += X`, not by `acc += <part of X>` (a per-block
    # overhead that is compared but not accumulated makes the bound unreachable)
    def other_term(sum_def, acc):
        out = set()
        for k_ in ("a", "b"):
            o_ = sum_def["rv"][k_]
            sl = slice_locals(fn, o_, strict=True)
            q_ = o_.get("m") or o_.get("c")
            if q_ and (q_[0] == acc or acc in slice_locals(fn, o_)):
                continue
            out |= sl
        return out
    cmp_terms, upd_terms = {}, {}
    for node, dest, rel in guards.comparisons(fn, is_sum, is_any_bound):
        st = fn.stmt(node)
        for k in ("a", "b"):
            o = st["rv"][k]
            if is_sum(fn, o):
                for l_ in slice_locals(fn, o, strict=True):
                    sd_ = fn.single_def(l_)
                    if sd_ and sd_[1] == "assign" and sd_[2]["rv"]["r"] == "bin" and sd_[2]["rv"]["op"].startswith("Add"):
                        for a in acc_of(o):
                            cmp_terms.setdefault(a, set()).update(other_term(sd_[2], a))
    for node, s_ in fn.assigns():
        if s_["rv"]["r"] != "use" or len(s_["lhs"]) != 1 or fn.single_def(s_["lhs"][0]) is not None or s_["lhs"][0] in cnt_locals:
            continue
        src_ = s_["rv"]["o"].get("m") or s_["rv"]["o"].get("c")
        sd_ = fn.single_def(src_[0]) if src_ else None
        if sd_ and sd_[1] == "assign" and sd_[2]["rv"]["r"] == "bin" and sd_[2]["rv"]["op"].startswith("Add"):
            upd_terms.setdefault(s_["lhs"][0], set()).update(other_term(sd_[2], s_["lhs"][0]))
    same_term = bool(cmp_terms) and all(a in upd_terms and (cmp_terms[a] & upd_terms[a]) for a in cmp_terms)
    ctx.ob("R20.3", "extract_next_batch/accumulates-the-compared-term", same_term, site=fn.site(d.node), cfg=fx.cfg,
           detail="accumulators compared: %d; with an update by the compared term: %d" % (len(cmp_terms), sum(1 for a in cmp_terms if a in upd_terms and cmp_terms[a] & upd_terms[a])))
    ctx.ob("R20.3", "extract_next_batch/accumulates-the-compared-length", okp, site=fn.site(d.node), cfg=fx.cfg,
           detail="(accumulator, lengths compared, lengths accumulated): %s" % [(a, sorted(l_), sorted(updates.get(a, []))) for a, l_, _ in pairs])
    pops = fn.calls(r"VecDeque(<.*>)?::pop_front$")
    ctx.anchor("R20.3", "extract_next_batch: pop_front of oversized blocks", len(pops), 1, cfg=fx.cfg)
    for p in pops:
        ok, why = guards.guarded(fn, p.node, is_single, is_b, ">")
        ctx.ob("R20.3", "extract_next_batch/discard-only-if-block-alone-exceeds-max", ok, site=fn.site(p.node), cfg=fx.cfg, detail=why)


def r20_5(ctx, fx):
    """"outgoing responses are split": the presence part of a response is cut into messages too.  send_response discards a message
    whose encoding exceeds MAX_MESSAGE_SIZE (and returns Ok), so handing *all* presences of a response to `presences_message` at once
    drops a large answer (the DontHave answer to one legal 4 MiB wantlist) as a whole.  In the body that builds the argument of
    `presences_message` an accumulated encoded size is compared with MAX_MESSAGE_SIZE before the call, the accumulated quantity adds a
    positive per-item term, and the call is made once per batch (inside a loop)."""
    key = BS + "send_response::{closure#0}"
    fn = ctx.fn(fx, key, "R20.5")
    if fn is None:
        return
    pm = fn.calls(r"bitswap::presences_message$")
    ctx.anchor("R20.5", "send_response: presences_message", len(pm), 1, cfg=fx.cfg)
    mm = fx.const(BS + "config::MAX_MESSAGE_SIZE")
    is_b = lambda f, o: any(r == ("const", BS + "config::MAX_MESSAGE_SIZE") for r in f.roots(o)) or (isinstance(mm, int) and f.const_value(o) == mm)
    is_q = lambda f, o: has_add(f, o) and not is_b(f, o)
    for i, c in enumerate(pm):
        # bodies that build the batch: this one, and a helper whose result is the argument
        holders = [fn]
        for x in guards.rootstrs(fn, c.args[0]):
            if x.startswith("call:protocol::libp2p::bitswap::") and fx.has(x[5:]):
                holders.append(fx.fn(x[5:]))
        cut, over = False, False
        for h in holders:
            facts = guards.edge_facts(h, is_q, is_b)
            cmpn = {cn for *_, cn in facts}
            if h is fn:
                cmpn = {cn for cn in cmpn if c.node in fn.reach([cn])}
            else:
                ctx.bodies.add((fx.cfg, h.key))
            cut = cut or bool(cmpn)
            for cn in cmpn:
                at = h.stmt(cn) if not h.is_term(cn) else None
                for o in ([at["rv"]["a"], at["rv"]["b"]] if at and "rv" in at else []):
                    if is_q(h, o):
                        rs = guards.rootstrs(h, o)
                        consts = [fx.const(x[6:]) if not x[6:].lstrip("-").isdigit() else int(x[6:]) for x in rs if x.startswith("const:")]
                        over = over or any(isinstance(v, int) and v >= 1 for v in consts) or any(x.startswith("call:") and re.search(r"encoded_len$|::len$", x) for x in rs)
        ctx.ob("R20.5", "send_response/presences#%d-cut-by-encoded-size-vs-MAX_MESSAGE_SIZE" % i, cut, site=fn.site(c.node), cfg=fx.cfg,
               detail="an oversized presence message is dropped whole with Ok(()): the batch must be cut before it is encoded")
        if cut:
            ctx.ob("R20.5", "send_response/presences#%d-encoded-size-adds-a-positive-per-item-term" % i, over, site=fn.site(c.node), cfg=fx.cfg)
            in_loop = c.node in fn.reach([n for n, _ in fn.succs(c.node)])
            ctx.ob("R20.5", "send_response/presences_message#%d-called-once-per-batch(in-a-loop)" % i, in_loop or holders[1:] != [], site=fn.site(c.node), cfg=fx.cfg,
                   detail="the remainder after a cut is sent in further messages, not dropped")


def run(ctx):
    fx = ctx.facts("default")
    r20_1(ctx, fx)
    r20_2(ctx, fx)
    r20_3(ctx, fx)
    r20_4(ctx, fx)
    r20_5(ctx, fx)
    ctx.assume("multihash_codetable::Code::digest computes the named hash of its input; Multihash::wrap/Cid::new only validate sizes/versions")
    ctx.assume("VecDeque::drain(..n) yields the first n elements in order")
