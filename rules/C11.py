"""C11 - Notification streams follow a strict open/close protocol (typestate and pairing rules).

R11.1 (K1 typestate) poison restoration: for every `mem::replace(&mut ctx.state, PeerState::Poisoned)` (discovered by type) every
      non-diverging path from the site to a function exit re-assigns that `state` place with a non-Poisoned value, or
      removes / overwrites the peer's entry in `self.peers`
R11.2 (K2 pairing) report_notification_stream_opened <=> assignment of PeerState::Open on the same path (both directions), built from
      Validating{outbound: Open, inbound: Open}; the connection task is spawned only after the report; a matched PeerState::Open is,
      on every path, restored or its shutdown sender fired; an open-failure report is never on a path whose matched previous
      state is Open
R11.3 (K1) notification::Connection::start: every exit passes close_connection, which on every path reports
      notification_stream_closed, and sends on conn_closed_tx exactly when NotifyProtocol::Yes; the protocol reacts to that message
      by leaving the Open state
R11.4 (K4) on_open_substream: for an unknown peer, a `Closed` peer and a `ValidationPending` peer every path performs exactly one of
      {initiate: dial Ok + state Dialing / open_substream Ok or pending reuse + state OutboundInitiated} or
      {report_notification_stream_open_failure}; on_dial_failure / on_substream_open_failure / on_connection_closed report the
      failure for a user-initiated attempt (Dialing, OutboundInitiated)
R11.6 (K5) connectivity bookkeeping of a pending validation (ValidationPending{Open|Closed}) in on_connection_closed /
      on_connection_established / on_validation_result
R11.5 (K2) inbound acceptance: HandshakeService::send_handshake is reached only over ValidationResult::Accept or over the
      `auto_accept && outbound != Closed` edges; report_inbound_substream (validation request) only when not auto-accepted
Not decided: the event grammar over all interleavings of two real instances; arms the code marks debug_assert!(false).
"""
import re
from paths import refine_cuts, region_uncovered, region_second_hit, Inter
from common import short, slice_locals, matches_tests
import guards

EXPLANATION = ("Typestate and pairing rules over the MIR CFG (pre-coroutine-transform) of the NotificationProtocol handlers: every state "
               "taken out with mem::replace(.., Poisoned) is put back on every non-diverging path, the user-visible opened / open-failure / "
               "closed reports are paired with the state assignments that justify them, and an inbound handshake is answered only after "
               "acceptance.")

NP = "protocol::notification::NotificationProtocol::"
PS = "notification::PeerState"


def state_base(fn, c):
    return fn.origin(c.args[0]).lstrip("&")


def poison_sites(fn):
    return [c for c in fn.calls(r"mem::replace$") if any(PS in a for a in (c.f.get("args") or [])) and "Poisoned" in fn.shape(c.args[1])]


def restores(fn, base):
    out = [nd for nd, s in fn.assigns() if fn.origin({"c": s["lhs"]}).lstrip("&") == base
           and not (s["rv"]["r"] == "use" and fn.shape(s["rv"]["o"]) == {"Poisoned"})]
    out += [x.node for x in fn.calls(r"HashMap(<.*>)?::(remove|insert)$") if ".peers" in fn.origin(x.args[0])]
    return out


def handlers(fx):
    return [fx.fn(k) for k in sorted(fx.find(r"^protocol::notification::NotificationProtocol::\w+::\{closure#0\}$"))]


def r11_1(ctx, fx):
    n = 0
    for fn in handlers(fx):
        for i, c in enumerate(poison_sites(fn)):
            n += 1
            ctx.bodies.add((fx.cfg, fn.key))
            base = state_base(fn, c)
            rest = restores(fn, base)
            exits = [x for x, _ in fn.exits()]
            p = fn.witness_path([c.node], exits, avoid=rest, after=True)
            ctx.ob("R11.1", "%s/poison#%d-restored-on-every-path" % (short(fn.key), i), p is None, site=fn.site(c.node), cfg=fx.cfg,
                   detail="restore sites %d; a path that leaves the peer Poisoned: %s" % (len(rest), fn.path_sites(p) if p else None))
    ctx.anchor("R11.1", "mem::replace(&mut ctx.state, PeerState::Poisoned) sites", n, 10, cfg=fx.cfg)


def state_assigns(fn, variant):
    """assignment nodes storing a PeerState::<variant> aggregate (directly or via a temp) into a `.state` place"""
    out = []
    for nd, s in fn.assigns():
        if not "".join(s["lhs"][1:]).endswith(".state"):
            continue
        rv = s["rv"]
        if rv["r"] == "agg" and rv["adt"].endswith(PS) and rv.get("var") == variant:
            out.append(nd)
        elif rv["r"] == "use" and fn.shape(rv["o"]) and all(x == variant or x.startswith(variant + ".") for x in fn.shape(rv["o"])):
            p = rv["o"].get("m") or rv["o"].get("c")
            if p and PS in fn.locals[p[0]]:
                out.append(nd)
    return out


def matched_edges(fn, variant, moved_only=False):
    """[(switch, [labels])] for discriminant switches over a PeerState value on the edges of `variant`"""
    out = []
    for sw in fn.discr_switches():
        if sw[2] and sw[2].endswith(PS) and (not moved_only or "*" not in "".join(map(str, sw[1][1:]))):
            e = fn.variant_edges(sw, variant)
            if e:
                out.append((sw, e))
    return out


def r11_2(ctx, fx):
    n_open = 0
    for fn in handlers(fx):
        rep = fn.calls(r"NotificationEventHandle::report_notification_stream_opened$")
        opens = state_assigns(fn, "Open")
        if not rep and not opens:
            continue
        ctx.bodies.add((fx.cfg, fn.key))
        n_open += len(opens)
        for i, c in enumerate(rep):
            ok = bool(opens) and c.node not in fn.reach([fn.entry], avoid=opens)
            ctx.ob("R11.2", "%s/opened-report#%d-only-with-state-Open" % (short(fn.key), i), ok, site=fn.site(c.node), cfg=fx.cfg,
                   detail="the user is told `opened` only on paths that stored PeerState::Open")
        for i, a in enumerate(opens):
            p = fn.witness_path([a], [x for x, _ in fn.exits()], avoid=[c.node for c in rep], after=True)
            ctx.ob("R11.2", "%s/state-Open#%d-implies-opened-report" % (short(fn.key), i), p is None and bool(rep), site=fn.site(a), cfg=fx.cfg,
                   detail="path from the Open assignment to an exit without the report: %s" % (fn.path_sites(p) if p else None))
            # built from Validating{outbound: Open, inbound: Open}
            ok = False
            for sw in fn.discr_switches():
                pass
            ob = [(sw, fn.variant_edges(sw, "Open")) for sw in fn.discr_switches() if sw[2] and sw[2].endswith("notification::OutboundState")]
            ib = [(sw, fn.variant_edges(sw, "Open")) for sw in fn.discr_switches() if sw[2] and sw[2].endswith("notification::InboundState")]
            okb = any(fn.only_via(a, sw[0], e) for sw, e in ob if e) and any(fn.only_via(a, sw[0], e) for sw, e in ib if e)
            ctx.ob("R11.2", "%s/state-Open#%d-only-from-both-substreams-open" % (short(fn.key), i), okb, site=fn.site(a), cfg=fx.cfg,
                   detail="PeerState::Open must lie behind the Open edges of both the outbound and the inbound sub-state")
        # the connection task starts only after the report (event order opened -> closed)
        runs = [c for c in fn.calls(r"Executor>?::run$|executor::Executor::run$") if not c.from_macro]
        for c in runs:
            if rep:
                ok = c.node not in fn.reach([fn.entry], avoid=[r.node for r in rep])
                ctx.ob("R11.2", "%s/connection-task-spawned-after-opened-report" % short(fn.key), ok, site=fn.site(c.node), cfg=fx.cfg)
    ctx.anchor("R11.2", "assignments of PeerState::Open", n_open, 1, cfg=fx.cfg)
    # a matched Open is restored or shut down; no open-failure on such a path
    n_m = 0
    for fn in handlers(fx):
        for mi, (sw, edges) in enumerate(matched_edges(fn, "Open", moved_only=True)):
            # only switches over a value *moved out* of the state (mem::replace result / removed context)
            n_m += 1
            ctx.bodies.add((fx.cfg, fn.key))
            starts = [n for n, l in fn.succs(sw[0]) if l in edges]
            # do other variants share the edge (catch-all arm `state => ...`)?
            shared = [v for v in ("Closed", "Dialing", "OutboundInitiated", "Validating", "ValidationPending") if set(fn.variant_edges(sw, v)) & set(edges)]
            fire = [c.node for c in fn.calls(r"oneshot::Sender(<.*>)?::send$")]
            base_restores = [nd for nd, s in fn.assigns() if "".join(s["lhs"][1:]).endswith(".state") and s["rv"]["r"] == "use" and PS in fn.locals[(s["rv"]["o"].get("m") or s["rv"]["o"].get("c") or [0])[0]]
                             and not all(re.match(r"(Closed|Dialing|OutboundInitiated|Validating|ValidationPending|Poisoned)\b", x) for x in fn.shape(s["rv"]["o"]))]
            reinserts = [c.node for c in fn.calls(r"HashMap(<.*>)?::insert$") if ".peers" in fn.origin(c.args[0])]
            p = fn.witness_path(starts, [x for x, _ in fn.exits()], avoid=fire + base_restores + reinserts)
            if shared and p is not None:
                # catch-all arm that cannot hold an Open state is fine only if the arm restores; report
                pass
            ctx.ob("R11.2", "%s/matched-Open#%d@%s-restored-or-shut-down" % (short(fn.key), mi, "+".join(["Open"] + shared)), p is None, site=fn.site(sw[0]), cfg=fx.cfg,
                   detail="a path that forgets an open stream (no restore, no shutdown.send): %s" % (fn.path_sites(p) if p else None))
            if not shared:
                fails = [c.node for c in fn.calls(r"report_notification_stream_open_failure$")]
                r = fn.reach(starts)
                ctx.ob("R11.2", "%s/no-open-failure-for-an-open-stream" % short(fn.key), not any(f in r for f in fails), site=fn.site(sw[0]), cfg=fx.cfg)
    ctx.anchor("R11.2", "matches on a PeerState value with an Open edge", n_m, 3, cfg=fx.cfg)


def r11_3(ctx, fx):
    C = "protocol::notification::connection::Connection::"
    fn = ctx.fn(fx, C + "start::{closure#0}", "R11.3")
    if fn is not None:
        it = Inter(fx, r"Connection::close_connection$")
        bad = it.uncovered_exits(fn, [fn.entry])
        ctx.ob("R11.3", "Connection::start/every-exit-passes-close_connection", not bad, site=fn.site(fn.entry), cfg=fx.cfg,
               detail=str([fn.path_sites(p) for _, _, p in bad]))
        # the NotifyProtocol flag passed equals the event's flag: Yes for None / CloseConnection{Yes} / failed delivery, No for CloseConnection{No}
        cc = fn.calls(r"Connection::close_connection$")
        # (`CloseConnection { notify } => close_connection(notify)` hands the event's own flag on: the same mapping without literals)
        flags = sorted("event.notify" if re.search(r"@CloseConnection\.(notify|0)$", fn.origin(c.args[1])) else "|".join(sorted(fn.shape(c.args[1]))) for c in cc)
        okf = (flags.count("No") == 1 and flags.count("Yes") >= 2 and "event.notify" not in flags) or (flags.count("event.notify") == 1 and flags.count("No") == 0 and flags.count("Yes") >= 1)
        ctx.ob("R11.3", "Connection::start/close-flags", okf and all(x in ("Yes", "No", "event.notify") for x in flags), site=fn.site(fn.entry), cfg=fx.cfg, detail=str(flags))
        sws = [sw for sw in fn.discr_switches() if sw[2] and sw[2].endswith("NotifyProtocol")]
        for c in cc:
            if fn.shape(c.args[1]) == {"No"}:
                ok = bool(sws) and any(fn.only_via(c.node, sw[0], fn.variant_edges(sw, "No")) for sw in sws)
                ctx.ob("R11.3", "Connection::start/silent-close-only-when-protocol-asked", ok, site=fn.site(c.node), cfg=fx.cfg,
                       detail="close_connection(No) (protocol not told) only for CloseConnection{notify: No}")
    fn = ctx.fn(fx, C + "close_connection::{closure#0}", "R11.3")
    if fn is not None:
        it = Inter(fx, r"NotificationEventHandle::report_notification_stream_closed$")
        bad = it.uncovered_exits(fn, [fn.entry])
        ctx.ob("R11.3", "close_connection/reports-stream-closed-on-every-path", not bad, site=fn.site(fn.entry), cfg=fx.cfg)
        snd = [c for c in fn.calls(r"mpsc::(bounded::)?Sender(<.*>)?::send$") if "conn_closed_tx" in fn.origin(c.args[0])]
        ctx.anchor("R11.3", "close_connection: conn_closed_tx.send", len(snd), 1, cfg=fx.cfg)
        # R11.14 the protocol learns about the close before the user does: the notice to NotificationProtocol is sent (awaited) before
        # NotificationStreamClosed is reported to the user, so a user that reacts to the close at once (open_substream) finds the peer
        # Closed - not still Open, where the request is silently ignored.  (next_event polls the notices before the commands.)
        reps = [c for c in fn.calls(r"NotificationEventHandle::report_notification_stream_closed$")]
        for c_ in snd:
            late = [r_ for r_ in reps if c_.node in fn.reach([r_.node], after=True)]
            ctx.ob("R11.14", "close_connection/protocol-is-told-before-the-user", bool(reps) and not late, site=fn.site(c_.node), cfg=fx.cfg,
                   detail="user reports after which the notice to the protocol is still to be sent: %d" % len(late))
        sws = [sw for sw in fn.discr_switches() if sw[2] and sw[2].endswith("NotifyProtocol")]
        ctx.anchor("R11.3", "close_connection: test of notify_protocol", len(sws), 1, cfg=fx.cfg)
        for c in snd:
            tests = matches_tests(fn, sws[0], "Yes") if sws else []
            ok = (bool(sws) and fn.only_via(c.node, sws[0][0], fn.variant_edges(sws[0], "Yes"))) or any(fn.only_via(c.node, sw, [t]) for sw, t, f in tests)
            ctx.ob("R11.3", "close_connection/protocol-notified-only-if-Yes", ok, site=fn.site(c.node), cfg=fx.cfg)
            if sws:
                starts = [n for sw, t, f in tests for n, l in fn.succs(sw) if l == t] or [n for n, l in fn.succs(sws[0][0]) if l in fn.variant_edges(sws[0], "Yes")]
                p = fn.witness_path(starts, [x for x, _ in fn.exits()], avoid=[c.node])
                ctx.ob("R11.3", "close_connection/protocol-notified-whenever-Yes", p is None, site=fn.site(c.node), cfg=fx.cfg)
            rs = guards.rootstrs(fn, c.args[1])
            ctx.ob("R11.3", "close_connection/notifies-with-own-peer-id", any(x.endswith(".peer") for x in rs), site=fn.site(c.node), cfg=fx.cfg, detail=str(sorted(rs)))
    fn = ctx.fn(fx, NP + "next_event::{closure#0}", "R11.3")
    if fn is not None:
        rc = [c for c in fn.calls(r"Receiver(<.*>)?::recv$") if "shutdown_rx" in fn.origin(c.args[0])]
        ctx.anchor("R11.3", "next_event: shutdown_rx.recv()", len(rc), 1, cfg=fx.cfg)
        closed = state_assigns(fn, "Closed")
        ctx.ob("R11.3", "next_event/closed-connection-task-leaves-Open", bool(rc) and bool(closed), site=fn.site(rc[0].node) if rc else fn.site(fn.entry), cfg=fx.cfg, nontrivial=False)


def r11_4(ctx, fx):
    fn = ctx.fn(fx, NP + "on_open_substream::{closure#0}", "R11.4")
    if fn is not None:
        fail = [c.node for c in fn.calls(r"report_notification_stream_open_failure$")]
        dial = fn.calls(r"TransportService::dial$")
        osb = fn.calls(r"TransportService::open_substream$")
        gm = [c for c in fn.calls(r"HashMap(<.*>)?::get_mut$") if ".peers" in fn.origin(c.args[0])]
        ctx.anchor("R11.4", "on_open_substream: peers.get_mut / dial / open_substream / failure reports", min(len(gm), len(dial), len(osb), len(fail)), 1, cfg=fx.cfg)
        dialing_ins = [c.node for c in fn.calls(r"HashMap(<.*>)?::insert$") if ".peers" in fn.origin(c.args[0])]
        initiated = state_assigns(fn, "OutboundInitiated")
        hits = set(fail) | set(dialing_ins) | set(initiated)
        exits = [x for x, _ in fn.exits()]
        if gm:
            # unknown peer
            cuts = refine_cuts(fn, gm[0], ["None"])
            starts = [gm[0].node]
            p = fn.witness_path(starts, exits, avoid=hits, cut=cuts, after=True)
            ctx.ob("R11.4", "on_open_substream/unknown-peer:at-least-one-outcome", p is None and bool(cuts), site=fn.site(gm[0].node), cfg=fx.cfg,
                   detail="a path with neither a dial in flight nor an open-failure: %s" % (fn.path_sites(p) if p else None))
            r = fn.reach([gm[0].node], cut=cuts, after=True)
            two = region_second_hit(fn, gm[0].node, [h for h in hits if h in r], cuts=cuts)
            ctx.ob("R11.4", "on_open_substream/unknown-peer:at-most-one-outcome", two is None, site=fn.site(gm[0].node), cfg=fx.cfg,
                   detail=str(two and fn.path_sites(two[2])))
        if dial:
            d = dial[0]
            cuts = refine_cuts(fn, d, ["Err", "?"])
            r = fn.reach([d.node], cut=cuts, after=True)
            ctx.ob("R11.4", "on_open_substream/dial-Err=>open-failure-and-no-Dialing-state", any(f in r for f in fail) and not any(x in r for x in dialing_ins), site=fn.site(d.node), cfg=fx.cfg)
            cuts = refine_cuts(fn, d, ["Ok", "?"])
            r = fn.reach([d.node], cut=cuts, after=True)
            aggs = [s for n, s in fn.aggregates(PS + "$", "Dialing") if n in r]
            ctx.ob("R11.4", "on_open_substream/dial-Ok=>state-Dialing-and-no-failure", bool(aggs) and any(x in r for x in dialing_ins) and not any(f in r for f in fail), site=fn.site(d.node), cfg=fx.cfg)
        # known peer: Closed and ValidationPending arms
        for sw, edges in matched_edges(fn, "Closed"):
            for var in ("Closed", "ValidationPending"):
                e = fn.variant_edges(sw, var)
                starts = [n for n, l in fn.succs(sw[0]) if l in e]
                p = fn.witness_path(starts, exits, avoid=hits)
                ctx.ob("R11.4", "on_open_substream/%s:at-least-one-outcome" % var, p is None and bool(e), site=fn.site(sw[0]), cfg=fx.cfg,
                       detail="a path answering the open request with nothing: %s" % (fn.path_sites(p) if p else None))
                r = fn.reach(starts)
                hs = [h for h in hits if h in r]
                two = None
                for h in hs:
                    w = fn.witness_path([h], hs, after=True)
                    if w is not None:
                        two = (h, w)
                ctx.ob("R11.4", "on_open_substream/%s:at-most-one-outcome" % var, two is None, site=fn.site(sw[0]), cfg=fx.cfg, detail=str(two and fn.path_sites(two[1])))
            e = fn.variant_edges(sw, "ValidationPending")
            r = fn.reach([n for n, l in fn.succs(sw[0]) if l in e])
            ctx.ob("R11.4", "on_open_substream/ValidationPending:never-initiates", not any(c.node in r for c in osb) and not any(x in r for x in initiated), site=fn.site(sw[0]), cfg=fx.cfg)
        for o in osb:
            cuts = refine_cuts(fn, o, ["Err", "?"])
            r = fn.reach([o.node], cut=cuts, after=True)
            ctx.ob("R11.4", "on_open_substream/open_substream-Err=>open-failure", any(f in r for f in fail) and not any(x in r for x in initiated), site=fn.site(o.node), cfg=fx.cfg)
            cuts = refine_cuts(fn, o, ["Ok", "?"])
            r = fn.reach([o.node], cut=cuts, after=True)
            po = [c.node for c in fn.calls(r"HashMap(<.*>)?::insert$") if ".pending_outbound" in fn.origin(c.args[0]) and c.node in r]
            ctx.ob("R11.4", "on_open_substream/open_substream-Ok=>tracked-and-OutboundInitiated", bool(po) and any(x in r for x in initiated) and not any(f in r for f in fail), site=fn.site(o.node), cfg=fx.cfg)
    # failures of a user-initiated attempt are reported
    for meth, var in (("on_dial_failure", "Dialing"), ("on_substream_open_failure", "OutboundInitiated"), ("on_connection_closed", "OutboundInitiated")):
        fn = ctx.fn(fx, NP + meth + "::{closure#0}", "R11.4")
        if fn is None:
            continue
        fail = [c.node for c in fn.calls(r"report_notification_stream_open_failure$")]
        ms = [(sw, e) for sw, e in matched_edges(fn, var) if not (set(e) & set(fn.variant_edges(sw, "Open")))]
        ctx.anchor("R11.4", "%s: match arm for %s" % (meth, var), len(ms), 1, cfg=fx.cfg)
        for sw, e in ms[:1]:
            starts = [n for n, l in fn.succs(sw[0]) if l in e]
            p = fn.witness_path(starts, [x for x, _ in fn.exits()], avoid=fail)
            ctx.ob("R11.4", "%s/%s=>open-failure-reported" % (meth, var), p is None, site=fn.site(sw[0]), cfg=fx.cfg,
                   detail="the user asked to open a stream and must learn that it failed: %s" % (fn.path_sites(p) if p else None))


def r11_5(ctx, fx):
    n = 0
    for fn in handlers(fx):
        sh = fn.calls(r"HandshakeService::send_handshake$")
        if not sh:
            continue
        ctx.bodies.add((fx.cfg, fn.key))
        vsw = [sw for sw in fn.discr_switches() if sw[2] and sw[2].endswith("ValidationResult")]
        auto = [t for nd, s in fn.assigns() if s["rv"]["r"] == "use" and "".join((s["rv"]["o"].get("c") or s["rv"]["o"].get("m") or [0])[1:]).endswith(".auto_accept") for t in fn.bool_tests(s["lhs"][0])]
        for n0 in fn.all_nodes():
            if fn.is_term(n0) and fn.term(n0[0])["k"] == "switch":
                p = fn.term(n0[0])["o"].get("c") or fn.term(n0[0])["o"].get("m")
                if p and "".join(map(str, p[1:])).endswith(".auto_accept"):
                    labs = fn.succs(n0)
                    t = [l for m, l in labs if l[1] != 0]
                    f = [l for m, l in labs if l[1] == 0]
                    if t and f:
                        auto.append((n0, t[0], f[0]))
        for i, c in enumerate(sh):
            n += 1
            via_accept = any(fn.only_via(c.node, sw[0], fn.variant_edges(sw, "Accept")) for sw in vsw)
            via_auto = any(fn.only_via(c.node, sw, [t]) for sw, t, f in auto)
            ctx.ob("R11.5", "%s/send_handshake#%d-only-after-acceptance" % (short(fn.key), i), via_accept or via_auto, site=fn.site(c.node), cfg=fx.cfg,
                   detail="behind ValidationResult::Accept: %s; behind auto_accept: %s" % (via_accept, via_auto))
            if via_auto and not via_accept:
                osw = [sw for sw in fn.discr_switches() if sw[2] and sw[2].endswith("notification::OutboundState")]
                ok = any(fn.only_via(c.node, sw[0], [l for m, l in fn.succs(sw[0]) if l not in fn.variant_edges(sw, "Closed")]) for sw in osw) or \
                    any(fn.only_via(c.node, s2, [f]) for sw in osw for s2, t, f in matches_tests(fn, sw, "Closed"))
                ctx.ob("R11.5", "%s/auto-accept#%d-only-with-own-outbound-in-flight" % (short(fn.key), i), ok, site=fn.site(c.node), cfg=fx.cfg,
                       detail="auto-accept applies only to the inbound half of a stream the local user asked for")
                ris = [x.node for x in fn.calls(r"report_inbound_substream$")]
                r = fn.reach([c.node], after=True)
                ctx.ob("R11.5", "%s/auto-accepted-substream-is-not-also-sent-for-validation" % short(fn.key), not any(x in r for x in ris), site=fn.site(c.node), cfg=fx.cfg)
        # rejection closes the inbound substream and never sends the handshake
        for vi, sw in enumerate(vsw):
            e = fn.variant_edges(sw, "Reject")
            r = fn.reach([m for m, l in fn.succs(sw[0]) if l in e])
            if not (set(e) & set(fn.variant_edges(sw, "Accept"))):
                ctx.ob("R11.5", "%s/Reject#%d-never-sends-handshake" % (short(fn.key), vi), not any(c.node in r for c in sh), site=fn.site(sw[0]), cfg=fx.cfg)
    ctx.anchor("R11.5", "send_handshake call sites", n, 3, cfg=fx.cfg)


def r11_6(ctx, fx):
    """connectivity bookkeeping of a pending validation: on_connection_closed keeps a peer only as ValidationPending{Closed};
    on_connection_established turns ValidationPending into {Open}; a validation answered for {Open} leaves the peer Closed
    (re-usable), for {Closed} removes it"""
    fn = ctx.fn(fx, NP + "on_connection_closed::{closure#0}", "R11.6")
    if fn is not None:
        ins = [c for c in fn.calls(r"HashMap(<.*>)?::insert$") if ".peers" in fn.origin(c.args[0])]
        ctx.anchor("R11.6", "on_connection_closed: peers.insert", len(ins), 2, cfg=fx.cfg)
        for i, c in enumerate(ins):
            ok = False
            why = "inserted context is not a literal"
            for l in slice_locals(fn, c.args[2]):
                d = fn.single_def(l)
                if d and d[1] == "assign" and d[2]["rv"]["r"] == "agg" and d[2]["rv"]["adt"].endswith("notification::PeerContext"):
                    sh = fn.shape(d[2]["rv"]["ops"][0])
                    ok = sh == {"ValidationPending.Closed"}
                    why = "state stored: %s" % sorted(sh)
            ctx.ob("R11.6", "on_connection_closed/kept-peer#%d-is-ValidationPending{Closed}" % i, ok, site=fn.site(c.node), cfg=fx.cfg,
                   detail="after the connection is gone the only thing remembered is a pending validation with connectivity Closed; " + why)
        # a pending validation survives the disconnect whatever the recorded connectivity was
        for sw, e in matched_edges(fn, "ValidationPending", moved_only=True):
            if set(e) & set(fn.variant_edges(sw, "Open")):
                continue
            starts = [n for n, l in fn.succs(sw[0]) if l in e]
            p = fn.witness_path(starts, [x for x, _ in fn.exits()], avoid=[c.node for c in ins])
            ctx.ob("R11.6", "on_connection_closed/ValidationPending=>kept-across-the-disconnect", p is None, site=fn.site(sw[0]), cfg=fx.cfg,
                   detail="a path on which an unanswered validation is forgotten (a late answer would then apply to a different substream): %s" % (fn.path_sites(p) if p else None))
        # and so does Validating{outbound: Closed, inbound: Validating}: the first insert is reachable from the Validating edge
        for sw, e in matched_edges(fn, "Validating", moved_only=True):
            if set(e) & set(fn.variant_edges(sw, "Open")):
                continue
            r = fn.reach([n for n, l in fn.succs(sw[0]) if l in e])
            ctx.ob("R11.6", "on_connection_closed/inbound-under-validation=>becomes-ValidationPending", any(c.node in r for c in ins), site=fn.site(sw[0]), cfg=fx.cfg)
    fn = ctx.fn(fx, NP + "on_connection_established::{closure#0}", "R11.6")
    if fn is not None:
        for sw, e in matched_edges(fn, "ValidationPending", moved_only=True):
            if set(e) & set(fn.variant_edges(sw, "Open")):
                continue
            r = fn.reach([n for n, l in fn.succs(sw[0]) if l in e])
            st = [n for n in state_assigns(fn, "ValidationPending") if n in r]
            shapes = set()
            for n in st:
                shapes |= fn.shape(fn.stmt(n)["rv"]["o"]) if fn.stmt(n)["rv"]["r"] == "use" else {"?"}
            ctx.ob("R11.6", "on_connection_established/ValidationPending-becomes-{Open}", shapes == {"ValidationPending.Open"}, site=fn.site(sw[0]), cfg=fx.cfg, detail=str(sorted(shapes)))
    fn = ctx.fn(fx, NP + "on_validation_result::{closure#0}", "R11.6")
    if fn is not None:
        csw = [sw for sw in fn.discr_switches() if sw[2] and sw[2].endswith("notification::ConnectionState")]
        ctx.anchor("R11.6", "on_validation_result: match on ConnectionState", len(csw), 1, cfg=fx.cfg)
        for sw in csw[:1]:
            ro = fn.reach([n for n, l in fn.succs(sw[0]) if l in fn.variant_edges(sw, "Open")])
            rc = fn.reach([n for n, l in fn.succs(sw[0]) if l in fn.variant_edges(sw, "Closed")])
            closed = state_assigns(fn, "Closed")
            rem = [c.node for c in fn.calls(r"HashMap(<.*>)?::remove$") if ".peers" in fn.origin(c.args[0])]
            # the two arms join afterwards, so compare what is reachable before the join: first statement sets
            only_o = [n for n in closed if n in ro and n not in rc]
            only_c = [n for n in rem if n in rc and n not in ro]
            ctx.ob("R11.6", "on_validation_result/pending{Open}=>peer-Closed,pending{Closed}=>peer-removed", bool(only_o) and bool(only_c), site=fn.site(sw[0]), cfg=fx.cfg,
                   detail="Closed assignments only on the Open edge: %d; removals only on the Closed edge: %d" % (len(only_o), len(only_c)))

SAFE_SUB = {"inbound": {"Closed", "Validating", "Open"}, "outbound": {"Closed", "OutboundInitiated", "Open"}}


def r11_7(ctx, fx):
    """no negotiation entry outlives the Validating state: the HandshakeService holds the substream of a peer exactly while its
    inbound sub-state is ReadingHandshake/SendingHandshake or its outbound sub-state is Negotiating.  Wherever a handler leaves
    `Validating` for `Closed` (or forgets the peer), each direction is either removed from the service on every path to that point,
    or pinned by the match to a sub-state that has nothing in the service.  A survivor produces a handshake event for a Closed peer
    later: a debug_assert!(false) (panic of the whole protocol task) or a peer left Poisoned."""
    n = 0
    for key in sorted(fx.find(r"^protocol::notification::NotificationProtocol::on_\w+::\{closure#0\}$")):
        fn = fx.fn(key)
        sws = [sw for sw in fn.discr_switches() if sw[2].endswith("notification::PeerState") and "Validating" in sw[3]]
        if not sws:
            continue
        region = set()
        for sw in sws:
            labs = fn.variant_edges(sw, "Validating")
            region |= fn.reach([n_ for n_, l in fn.succs(sw[0]) if l in labs])
        sites = [(nd, "state=Closed") for nd, _ in fn.aggregates(r"notification::PeerState$", "Closed") if nd in region]
        sites += [(c.node, "peers.remove") for c in fn.calls(r"HashMap(<.*>)?::remove$") if c.node in region and ".peers" in fn.recv(c)]
        if not sites:
            continue
        ctx.bodies.add((fx.cfg, key))
        for d in ("inbound", "outbound"):
            it = Inter(fx, r"HandshakeService::remove_%s$" % d)
            rm = [c.node for c in fn.calls() if not c.from_macro and it.classify_call(fn, c, 3) == ("hit",)]   # direct, or a helper that always removes
            safe = set()
            for sw in fn.discr_switches():
                if not re.search(r"@Validating\.%s$" % d, fn.origin({"c": list(sw[1])})):
                    continue
                node, place, adt, m, other, other_vars = sw
                for v, lab in m.items():
                    if v in SAFE_SUB[d]:
                        safe.add((node, lab))
                if other_vars and set(other_vars) <= SAFE_SUB[d]:
                    safe.add((node, other))
            for i, (nd, what) in enumerate(sites):
                n += 1
                dominated = bool(rm) and nd not in fn.reach([fn.entry], avoid=rm)
                pinned = bool(safe) and nd not in fn.reach([fn.entry], cut=safe)
                ctx.ob("R11.7", "%s/leave-Validating#%d(%s):%s-not-left-in-negotiation" % (short(key), i, what, d), dominated or pinned, site=fn.site(nd), cfg=fx.cfg,
                       detail="remove_%s on every path: %s; %s sub-state pinned to %s by the match: %s" % (d, dominated, d, sorted(SAFE_SUB[d]), pinned))
    ctx.anchor("R11.7", "leave-Validating sites x directions", n, 8, cfg=fx.cfg)


def r11_8(ctx, fx):
    """event order of the protocol task: the connection handler sends its close notice (shutdown_tx) before it reports
    NotificationStreamClosed to the user, so a user command issued in reaction can already be queued when the protocol task is polled
    next.  The select in next_event must therefore be `biased` and poll the close notices before the user commands; otherwise an
    OpenSubstream is evaluated against the stale `Open` state and silently ignored (no opened / open-failure ever)."""
    keys = [k for k in fx.find(r"^protocol::notification::NotificationProtocol::next_event::\{closure#0\}::\{closure#\d+\}$")
            if fx.fn(k).aggregates(r"__tokio_select_util::Out$")]
    ctx.anchor("R11.8", "next_event: select poll closure", len(keys), 1, cfg=fx.cfg)
    for key in keys:
        fn = fx.fn(key)
        ctx.bodies.add((fx.cfg, key))
        rnd = fn.calls(r"thread_rng_n$")
        ctx.ob("R11.8", "next_event/select-is-biased", not rnd, site=fn.site(fn.entry), cfg=fx.cfg, detail="random start index calls: %d" % len(rnd))
        polls = [c for c in fn.calls(r"Future>?::poll$")]
        idx = {}
        for c in polls:
            ty = fn.local_ty((c.args[0].get("m") or c.args[0].get("c"))[0])
            r = fn.reach([c.node], after=True, avoid=[p.node for p in polls if p is not c])
            ks = sorted({s_["rv"].get("var") for n_, s_ in fn.aggregates(r"__tokio_select_util::Out$") if n_ in r and s_["rv"].get("var", "").startswith("_")})
            if len(ks) == 1:
                idx[ty] = int(ks[0][1:])
        close = [v for t, v in idx.items() if re.search(r"Output = std::option::Option<peer_id::PeerId>>", t)]
        cmd = [v for t, v in idx.items() if "NotificationCommand" in t]
        ctx.anchor("R11.8", "next_event: close-notice branch / command branch", min(len(close), len(cmd)), 1, cfg=fx.cfg)
        ctx.ob("R11.8", "next_event/close-notices-polled-before-user-commands", bool(close) and bool(cmd) and max(close) < min(cmd), site=fn.site(fn.entry), cfg=fx.cfg,
               detail="branch index of shutdown_rx.recv(): %s, of command_rx.recv(): %s" % (close, cmd))


def r11_9(ctx, fx):
    """the substream whose failure is being handled is never remembered as still pending: every `PeerState::Closed` stored by
    on_substream_open_failure has `pending_open: None`.  (`pending_open: Some(id)` makes the next open request 'reuse' an id for which
    no event will ever arrive - the request is never answered - and makes on_inbound_substream refuse every inbound substream.)"""
    fn = ctx.fn(fx, NP + "on_substream_open_failure::{closure#0}", "R11.9")
    if fn is None:
        return
    aggs = [(n, s_) for n, s_ in fn.aggregates(r"notification::PeerState$", "Closed")]
    ctx.anchor("R11.9", "on_substream_open_failure: Closed aggregates", len(aggs), 3, cfg=fx.cfg)
    # keyed by the sub-state the arm came from (stable under reordering), falling back to the index
    for i, (n, s_) in enumerate(aggs):
        sh = fn.shape(s_["rv"]["ops"][0])
        arm = "?"
        for sw in fn.discr_switches():
            if sw[2].endswith("notification::PeerState"):
                for v in list(sw[3]) + list(sw[5]):
                    labs = fn.variant_edges(sw, v)
                    if labs and fn.only_via(n, sw[0], labs):
                        arm = v
        ctx.ob("R11.9", "on_substream_open_failure/from-%s:stores-Closed{pending_open:None}" % arm, sh == {"None"}, site=fn.site(n), cfg=fx.cfg,
               detail="pending_open stored: %s" % sorted(sh))


def r11_10(ctx, fx):
    """an answer of the user is applied only to the inbound substream it was asked about.  Either (A) answers carry the identity of their
    request (the futures in pending_validations yield more than (peer, result) and the receiver compares it), or (B) a peer whose
    inbound substream awaits an answer is parked as ValidationPending whenever that substream is discarded, so that no second request
    can be outstanding.  With neither, a late Accept of request #1 opens the substream of request #2 although the user rejects it."""
    a = fx.adts.get("protocol::notification::NotificationProtocol") or {}
    ty = [f.get("ty", "") for v in a.get("variants", []) for f in v.get("fields", []) if f.get("name") == "pending_validations"]
    ctx.anchor("R11.10", "NotificationProtocol.pending_validations", len(ty), 1, cfg=fx.cfg)
    m = re.search(r"Output = \((.*?)\)> \+", ty[0]) if ty else None
    comps = [c.strip() for c in m.group(1).split(",")] if m else []
    tagged = len(comps) >= 3 or any(c and "PeerId" not in c and "ValidationResult" not in c for c in comps)
    # (B): every leave of Validating with the inbound sub-state possibly `Validating` (awaiting the answer) stores ValidationPending
    parked_everywhere = True
    witnesses = []
    for key in sorted(fx.find(r"^protocol::notification::NotificationProtocol::on_(connection_closed|substream_open_failure|handshake_event)::\{closure#0\}$")):
        fn = fx.fn(key)
        sws = [sw for sw in fn.discr_switches() if sw[2].endswith("notification::PeerState") and "Validating" in sw[3]]
        region = set()
        for sw in sws:
            region |= fn.reach([n_ for n_, l in fn.succs(sw[0]) if l in fn.variant_edges(sw, "Validating")])
        leaves = [nd for nd, _ in fn.aggregates(r"notification::PeerState$", "Closed") if nd in region]
        leaves += [c.node for c in fn.calls(r"HashMap(<.*>)?::remove$") if c.node in region and ".peers" in fn.recv(c)]
        if not leaves:
            continue
        pinned = set()
        for sw in fn.discr_switches():
            if re.search(r"@Validating\.inbound$", fn.origin({"c": list(sw[1])})):
                node, place, adt, mm, other, other_vars = sw
                for v, lab in mm.items():
                    if v != "Validating":
                        pinned.add((node, lab))
                if other_vars and "Validating" not in other_vars:
                    pinned.add((node, other))
        vp = [nd for nd, _ in fn.aggregates(r"notification::PeerState$", "ValidationPending")]
        for nd in leaves:
            not_waiting = bool(pinned) and nd not in fn.reach([fn.entry], cut=pinned)
            if not not_waiting:
                parked_everywhere = False
                witnesses.append("%s@%s" % (short(key), fn.site(nd)))
    ctx.ob("R11.10", "validation-answers-are-matched-to-their-request", tagged or parked_everywhere, cfg=fx.cfg,
           detail="(A) answers tagged: %s (future output %s); (B) inbound awaiting an answer is never discarded without parking: %s, leaves that may discard it: %s"
                  % (tagged, comps, parked_everywhere, witnesses[:6]))


def r11_11(ctx, fx):
    """a close notice of a connection handler closes only an open stream: in next_event's `shutdown_rx` branch the peer is set to
    `Closed` only on the `Open` edge of its current state.  The notice can be stale (the user closed the stream, the peer moved on to a
    new negotiation while the old handler was still shutting down); applied unconditionally it wipes e.g. `Validating` while the
    HandshakeService still holds the substream - the next handshake event hits debug_assert!(false) / leaves the peer Poisoned."""
    key = NP + "next_event::{closure#0}"
    fn = ctx.fn(fx, key, "R11.11")
    if fn is None:
        return
    # the assignments of Closed in next_event itself (not in the handlers it calls) whose peer comes out of the shutdown_rx branch
    sites = []
    for n, s_ in fn.aggregates(r"notification::PeerState$", "Closed"):
        sites.append(n)
    ctx.anchor("R11.11", "next_event: Closed assigned on a close notice", len(sites), 1, cfg=fx.cfg)
    open_edges = set()
    for sw in fn.discr_switches():
        if sw[2].endswith("notification::PeerState"):
            for lab in fn.variant_edges(sw, "Open"):
                if all(lab not in fn.variant_edges(sw, v) for v in list(sw[3]) + list(sw[5]) if v != "Open"):
                    open_edges.add((sw[0], lab))
            # `matches!(state, PeerState::Open { .. })` (also as a match guard) lowers to a bool temporary
            for swn, t, f in matches_tests(fn, sw, "Open"):
                open_edges.add((swn, t))
    # only the close-notice branch: sites that do not follow a `mem::replace(&mut state, Poisoned)` (those are the timer arm's)
    taken = fn.reach([c.node for c in fn.calls(r"mem::replace$")], after=True)
    sites = [n for n in sites if n not in taken]
    for i, n in enumerate(sites):
        ok = bool(open_edges) and n not in fn.reach([fn.entry], cut=open_edges)
        ctx.ob("R11.11", "next_event/close-notice#%d-applies-only-to-an-Open-peer" % i, ok, site=fn.site(n), cfg=fx.cfg,
               detail="tests of the peer state for `Open` found: %d" % len(open_edges))


def r11_12(ctx, fx):
    """a finished negotiation is reported for the substream it belongs to: HandshakeService queues results in `ready` keyed by
    (peer, direction), the same key under which the next substream of that peer is stored.  Every function of the service that removes
    or replaces the substream stored under a key first purges the not-yet-reported results of that key from `ready` (a `retain` on
    `self.ready`, directly or through a helper).  Otherwise the handshake of a failed attempt is handed to the user as the handshake of
    a new substream that has not sent anything yet."""
    HS = "protocol::notification::negotiation::HandshakeService::"
    n = 0
    it = Inter(fx, r"^$", extra_hit=lambda f, node: f.is_term(node) and f.term(node[0])["k"] == "call" and bool(re.search(r"(VecDeque|Vec)(<.*>)?::(retain|pop_front|clear)$", f.call_at(node).name or "")) and ".ready" in f.recv(f.call_at(node)))
    for key in sorted(fx.find("^" + re.escape(HS) + r"\w+$")):
        fn = fx.fn(key)
        touch = [c for c in fn.calls(r"HashMap(<.*>)?::(insert|remove)$") if ".substreams" in fn.recv(c)]
        if not touch:
            continue
        ctx.bodies.add((fx.cfg, key))
        purge = [c.node for c in fn.calls() if not c.from_macro and (it.classify_call(fn, c, 3) == ("hit",))]
        for i, c in enumerate(touch):
            n += 1
            ok = bool(purge) and c.node not in fn.reach([fn.entry], avoid=purge)
            ctx.ob("R11.12", "%s/%s#%d-purges-unreported-results-of-the-key-first" % (short(key), c.name.rsplit("::", 1)[-1], i), ok, site=fn.site(c.node), cfg=fx.cfg,
                   detail="purge calls in this function: %d" % len(purge))
    ctx.anchor("R11.12", "HandshakeService functions touching `substreams`", n, 5, cfg=fx.cfg)


def run(ctx):
    fx = ctx.facts("default")
    r11_6(ctx, fx)
    r11_1(ctx, fx)
    r11_2(ctx, fx)
    r11_3(ctx, fx)
    r11_4(ctx, fx)
    r11_5(ctx, fx)
    r11_7(ctx, fx)
    r11_8(ctx, fx)
    r11_9(ctx, fx)
    r11_10(ctx, fx)
    r11_11(ctx, fx)
    r11_12(ctx, fx)
    from common import check_no_dropped_futures
    check_no_dropped_futures(ctx, ctx.facts("default"), "R11.13", r"^protocol::notification::(connection|handle|NotificationProtocol|negotiation)\b.*::\{closure#0\}(::\{closure#\d+\})*$", "notification-protocol", 8)
    ctx.assume("arms ending in debug_assert!(false) diverge in the analysed profile and are not exits (stated beliefs of the developers)")
    ctx.assume("a dropped oneshot shutdown sender also wakes the connection task (Receiver resolves with Err), which closes silently")
    # an open request waiting for its substream must get an outcome when the connection it is opened on dies beside a second one:
    # R13.8 (stated in rules/C13.py) is evaluated here as well
    import C13
    C13.r13_8(ctx, fx)
