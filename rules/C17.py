"""C17 - The DHT record and provider store respects its bounds and freshness rules (structural part).

R17.1 records: the only growth site (VacantEntry::insert of the `records` entry in `put`) lies behind `records.len() < max_records`
R17.2 value size: every store of a record in `put` lies behind `value.len() < max_record_size_bytes`
R17.3 provider keys: the vacant insert in `put_provider` lies behind `provider_keys.len() < max_provider_keys`
R17.4 providers per key: Vec::insert into the per-key list only over `i != max` and (`len != max` or after `pop`); addresses are
      truncated to max_provider_addresses before any store
R17.5 freshness: get / get_providers return stored entries only over the not-expired edge; an occupied `put` replaces only when
      the stored expiry is not later than the new one
R17.6 who-may: the three maps are mutated only in the listed methods
R17.7 local_providers grows only after put_provider returned true
R17.8 per-key provider lists are touched only by order-preserving operations; inserts use the binary-search position
"""
import re
from paths import refine_cuts
from common import nested_closures, short, proj_roots, from_field, slice_locals, polarity, closure_returns, closure_arg
import guards

EXPLANATION = ("Bounded-growth and freshness guards over all MIR CFG paths of MemoryStore: each growth construct of the record / provider maps "
               "is separated from the entry by the edge of the comparison with its configured bound (comparison strictness is part of the "
               "rule), expiry closures return the (negated) is_expired result, and the maps are mutated only in the enumerated methods.")

MS = "protocol::libp2p::kademlia::store::MemoryStore::"
MUT_RX = r"(HashMap|hash_map::\w+Entry|Vec)::(insert|remove|entry|get_mut|retain|clear|drain|extend|values_mut|iter_mut|push|pop|truncate|remove_entry|or_insert\w*|or_default)$"






def q_len_of(field, lenrx=r"HashMap::len$"):
    def is_q(fn, o):
        for c in fn.calls(lenrx):
            if ("." + field) in fn.recv(c) and c.dest[0] in slice_locals(fn, o):
                return True
        return False
    return is_q


def b_cfg(name):
    return lambda fn, o: any(p.endswith(".config." + name) for p in proj_roots(fn, o)) and not any(r[0] in ("call", "mutcall") for r in fn.roots(o))




def growth_guard(ctx, fx, fn, rule, name, site_call, is_q, is_b, what):
    ok, why = guards.guarded(fn, site_call.node, is_q, is_b, "<")
    ctx.ob(rule, "%s/%s" % (name, what), ok, site=fn.site(site_call.node), cfg=fx.cfg,
           detail="growth site must be separated from the entry by an edge implying quantity < bound; " + why)


def r17_1_2(ctx, fx):
    fn = ctx.fn(fx, MS + "put", "R17.1")
    if fn is None:
        return
    class _Site:      # a store site that is not a call: `*records.get_mut(k)? = record`
        def __init__(self, node):
            self.node = node
    vac = [c for c in fn.calls(r"VacantEntry::insert$|VacantEntry<.*>::insert$") if from_field(fn, c.args[0], "records")]
    occ = [c for c in fn.calls(r"OccupiedEntry::insert$|OccupiedEntry<.*>::insert$") if from_field(fn, c.args[0], "records")]
    plain = []
    if not vac:
        # the same written with get_mut / insert: a `records.insert(k, v)` on the edge where the key is known to be absent grows the map,
        # an assignment through the `get_mut` reference replaces the stored record
        from common import map_presence_edges
        present, absent = map_presence_edges(fn, "records")
        plain = [c for c in fn.calls(r"HashMap::insert$") if ".records" in fn.recv(c)]
        vac = [c for c in plain if absent and c.node not in fn.reach([fn.entry], cut=absent)]
        gm = [c for c in fn.calls(r"HashMap::get_mut$") if ".records" in fn.recv(c)]
        for n_, st in fn.assigns():
            if len(st["lhs"]) == 2 and st["lhs"][1] == "*" and any(("call", g.name) in fn.roots({"c": [st["lhs"][0]]}) for g in gm) and "Record" in fn.locals[st["lhs"][0]]:
                occ.append(_Site(n_))
    ctx.anchor("R17.1", "put: VacantEntry::insert on records", len(vac), 1, cfg=fx.cfg)
    ctx.anchor("R17.2", "put: OccupiedEntry::insert on records", len(occ), 1, cfg=fx.cfg)
    for c in vac:
        growth_guard(ctx, fx, fn, "R17.1", "put", c, q_len_of("records"), b_cfg("max_records"), "vacant-insert-behind-len<max_records")
    # the len used in the comparison is taken before the entry() call and nothing grows the map in between
    lens = [c for c in fn.calls(r"HashMap::len$") if ".records" in fn.recv(c)]
    for c in vac:
        muts = [m.node for m in fn.calls(r"HashMap::(insert|extend)$") if ".records" in fn.recv(m) and m.node not in {v.node for v in vac}]
        ctx.ob("R17.1", "put/no-other-growth-of-records", not muts, site=fn.site(c.node), cfg=fx.cfg, detail="other growth calls: %d" % len(muts))
    for c in vac + occ:
        is_q = q_len_of("value", r"Vec::len$")
        ok, why = guards.guarded(fn, c.node, is_q, b_cfg("max_record_size_bytes"), "<")
        ctx.ob("R17.2", "put/%s-behind-value.len<max_record_size_bytes" % ("vacant-insert" if c in vac else "occupied-insert"), ok,
               site=fn.site(c.node), cfg=fx.cfg, detail=why)
    # R17.5 (replacement freshness)
    STORED_RX = r"OccupiedEntry(<.*>)?::get$|HashMap(<.*>)?::get(_mut)?$"

    def is_stored(f, o):
        # (the stored record is later overwritten with the new one through the same reference, so a flow-insensitive provenance of the
        # stored side may also mention the new record; the new side never mentions the lookup)
        return any(r[0] == "call" and re.search(STORED_RX, r[1]) for r in f.roots(o))

    def is_new(f, o):
        rs = f.roots(o)
        return any(r[0] == "param" and r[1] == 2 and ".expires" in r[2] for r in rs) and not any(
            r[0] == "call" and re.search(STORED_RX, r[1]) for r in rs)
    facts = guards.edge_facts(fn, is_stored, is_new)
    ctx.anchor("R17.5", "put: comparison stored.expires vs new.expires", len({cn for _, _, _, cn in facts}), 1, cfg=fx.cfg)
    for c in occ:
        bad = []
        some_good = False
        for sw, lab, rel, cn in facts:
            succ = [n for n, l in fn.succs(sw) if l == lab]
            reaches = c.node in fn.reach(succ)
            if reaches and rel not in guards.IMPLIES["<="]:
                bad.append((fn.site(sw), rel))
            if not reaches and rel in (">", ">="):
                some_good = True
        ctx.ob("R17.5", "put/occupied-replace-only-if-stored.expires<=new.expires", bool(facts) and not bad and some_good, site=fn.site(c.node), cfg=fx.cfg,
               detail="edges reaching the replacement with a fact not implying stored <= new: %s; an edge stored > new that avoids the replacement exists: %s" % (bad, some_good))


def r17_3_4(ctx, fx):
    fn = ctx.fn(fx, MS + "put_provider", "R17.3")
    if fn is None:
        return
    vac = [c for c in fn.calls(r"VacantEntry(<.*>)?::insert$") if from_field(fn, c.args[0], "provider_keys")]
    ctx.anchor("R17.3", "put_provider: VacantEntry::insert on provider_keys", len(vac), 1, cfg=fx.cfg)
    for c in vac:
        growth_guard(ctx, fx, fn, "R17.3", "put_provider", c, q_len_of("provider_keys"), b_cfg("max_provider_keys"), "vacant-insert-behind-len<max_provider_keys")
    ins = [c for c in fn.calls(r"Vec::insert$") if from_field(fn, c.args[0], "provider_keys")]
    ctx.anchor("R17.4", "put_provider: Vec::insert into the per-key list", len(ins), 1, cfg=fx.cfg)
    pops = [c.node for c in fn.calls(r"Vec::(pop|remove|truncate)$") if from_field(fn, c.args[0], "provider_keys")]
    bmax = b_cfg("max_providers_per_key")

    def is_len(f, o):
        for c in f.calls(r"Vec::len$"):
            if from_field(f, c.args[0], "provider_keys") and c.dest[0] in slice_locals(f, o):
                return True
        return False

    def is_pos(f, o):
        return any(r[0] == "call" and re.search(r"binary_search_by(_key)?$", r[1]) for r in f.roots(o)) and not is_len(f, o)
    len_facts = guards.edge_facts(fn, is_len, bmax)
    pos_facts = guards.edge_facts(fn, is_pos, bmax)
    ctx.anchor("R17.4", "put_provider: comparison providers.len() vs max_providers_per_key", len({cn for *_, cn in len_facts}), 1, cfg=fx.cfg)
    ctx.anchor("R17.4", "put_provider: comparison insertion point vs max_providers_per_key", len({cn for *_, cn in pos_facts}), 1, cfg=fx.cfg)
    for c in ins:
        # inductive step (hypothesis len <= max): growth only if len != max / len < max, or after a pop
        good = {(sw, lab) for sw, lab, rel, cn in len_facts if rel in ("<", "!=")}
        r = fn.reach([fn.entry], cut=good, avoid=pops)
        ctx.ob("R17.4", "put_provider/insert-only-if-len<max-or-after-pop", bool(good) and c.node not in r, site=fn.site(c.node), cfg=fx.cfg,
               detail="under the invariant len <= max_providers_per_key, the per-key list may grow only over an edge implying len != max "
                      "(or len < max) or after dropping the furthest provider")
        # the pop itself only when the list is full (else a provider is lost although there is room)
        full = {(sw, lab) for sw, lab, rel, cn in len_facts if rel in ("==", ">=", ">")}
        for p in pops:
            rp = fn.reach([fn.entry], cut=full)
            ctx.ob("R17.4", "put_provider/pop-only-if-len>=max", p not in rp, site=fn.site(p), cfg=fx.cfg,
                   detail="the furthest provider is discarded only when the per-key bound is reached")
        goodp = {(sw, lab) for sw, lab, rel, cn in pos_facts if rel in guards.IMPLIES["!="]}
        r = fn.reach([fn.entry], cut=goodp)
        ctx.ob("R17.4", "put_provider/insert-only-if-position!=max", bool(goodp) and c.node not in r, site=fn.site(c.node), cfg=fx.cfg,
               detail="a provider whose insertion point equals the bound is further than all retained ones and must be refused")
    # addresses truncated before any store
    tr = [c for c in fn.calls(r"Vec::truncate$") if ".addresses" in fn.recv(c)]
    ctx.anchor("R17.4", "put_provider: addresses.truncate", len(tr), 1, cfg=fx.cfg)
    if tr:
        t = tr[0]
        ok_arg = b_cfg("max_provider_addresses")(fn, t.args[1])
        ctx.ob("R17.4", "put_provider/truncate-to-max_provider_addresses", ok_arg, site=fn.site(t.node), cfg=fx.cfg,
               detail="roots of the truncate length: %s" % sorted(guards.rootstrs(fn, t.args[1])))
        stores = vac + ins + [c for c in fn.calls(r"IndexMut(<.*>)?>?::index_mut$") if from_field(fn, c.args[0], "provider_keys")]
        r = fn.reach([fn.entry], avoid=[t.node])
        late = [fn.site(s.node) for s in stores if s.node in r]
        ctx.ob("R17.4", "put_provider/truncate-dominates-every-store", len(stores) >= 3 and not late, site=fn.site(t.node), cfg=fx.cfg,
               detail="store sites: %d; reachable without the truncate: %s" % (len(stores), late))
        after = fn.reach([t.node], after=True)
        grow = [fn.site(c.node) for c in fn.calls(r"Vec::(push|extend|insert|append|extend_from_slice)$") if ".addresses" in fn.recv(c) and c.node in after]
        wr = [fn.site(n) for n, s in fn.assigns() if "".join(s["lhs"][1:]).endswith(".addresses") and n in after]
        ctx.ob("R17.4", "put_provider/addresses-not-grown-after-truncate", not grow and not wr, site=fn.site(t.node), cfg=fx.cfg,
               detail="growth after truncate: %s %s" % (grow, wr))
        # "a re-announcement by the same provider updates it in place": the slot found by the search is overwritten as a whole with the
        # new record (fresh expiry included) - not field by field
        ims = [c for c in fn.calls(r"IndexMut(<.*>)?>?::index_mut$") if from_field(fn, c.args[0], "provider_keys")]
        whole = []
        for c in ims:
            for n_, s_ in fn.assigns():
                if s_["lhs"][0] == c.dest[0]:
                    proj = "".join(str(x) for x in s_["lhs"][1:])
                    rs = guards.rootstrs(fn, s_["rv"]["o"]) if s_["rv"]["r"] == "use" else set()
                    whole.append((proj == "*" and any("Instant::now" in x for x in rs), fn.site(n_), proj))
        for c in ims:
            for m_ in fn.calls(r"mem::(replace|swap)$"):
                if len(m_.args) == 2 and fn.producer(m_.args[0]) is not None and fn.producer(m_.args[0]).node == c.node:
                    whole.append((any("Instant::now" in x for x in guards.rootstrs(fn, m_.args[1])), fn.site(m_.node), "*"))
        ctx.ob("R17.4", "put_provider/re-announcement-replaces-the-whole-record(fresh-expiry)", bool(whole) and all(w[0] for w in whole),
               site=fn.site(ims[0].node) if ims else fn.site(fn.entry), cfg=fx.cfg, detail="writes through the found slot: %s" % whole)






def r17_5(ctx, fx):
    # get
    fn = ctx.fn(fx, MS + "get", "R17.5")
    cl = ctx.fn(fx, MS + "get::{closure#0}", "R17.5", required=False)
    if fn is not None and cl is None:
        # the expiry test written in the function itself (`matches!(self.records.get(key), Some(r) if r.is_expired(now))`, `if let`)
        ie = [c for c in fn.calls(r"Record::is_expired$")]
        ctx.anchor("R17.5", "get: records.get(key).is_some_and(expired)", len(ie), 1, cfg=fx.cfg)
        tests = [t for c in ie for t in fn.bool_tests(c.dest[0])]
        # the constant-bool temporary of a `matches!` carries the same verdict
        import guards as _g
        fake = [(sw, t, "==", c.node) for c in ie for sw, t, f in fn.bool_tests(c.dest[0])]
        tests += [(sw, lab, None) for sw, lab, rel, cn in _g.forward_through_bools(fn, fake)]
        ctx.anchor("R17.5", "get: branch on is_expired", len(tests), 1, cfg=fx.cfg)
        rem = [c for c in fn.calls(r"HashMap::remove$") if ".records" in fn.recv(c)]
        retgets = [c for c in fn.calls(r"HashMap::get$") if c.dest == [0] or 0 in {l for l in _flows_to_ret(fn, c)}]
        ctx.anchor("R17.5", "get: returned lookup", len(retgets), 1, cfg=fx.cfg)
        texp = {(sw, t) for sw, t, f in tests}
        for c in retgets:
            ctx.ob("R17.5", "get/returns-record-only-if-not-expired", bool(texp) and not any(c.node in fn.reach([n for n, l in fn.succs(sw) if l == t]) for sw, t in texp), site=fn.site(c.node), cfg=fx.cfg,
                   detail="the lookup whose result is returned must not be reachable from the expired edge")
        for sw, t in sorted(texp)[:1]:
            r = set()
            for sw2, t2 in texp:
                r |= fn.reach([n for n, l in fn.succs(sw2) if l == t2])
            exits_some = [n for n, sh in fn.exits() if n in r and not all(s.startswith("None") for s in sh)]
            ctx.ob("R17.5", "get/expired-edge-returns-None-and-removes", not exits_some and any(c.node in r for c in rem), site=fn.site(sw), cfg=fx.cfg,
                   detail="exits on the expired edge that may return a record: %s" % [fn.site(n) for n in exits_some])
    if fn is not None and cl is not None:
        rets = closure_returns(cl)
        ok = bool(rets) and all(r is not None and r[0] == 1 and r[1].matches(r"Record::is_expired$") for r in rets)
        ctx.ob("R17.5", "get/expiry-closure-returns-is_expired", ok, site=cl.site(cl.entry), cfg=fx.cfg, detail=str(rets))
        isa = [c for c in fn.calls(r"Option::is_some_and$") if any(r[0] == "call" and r[1].endswith("HashMap::get") for r in fn.roots(c.args[0]))]
        # `map_or(false, |r| r.is_expired(..))` is the same test
        isa += [c for c in fn.calls(r"Option::map_or$") if len(c.args) == 3 and fn.const_value(c.args[1]) == 0 and any(r[0] == "call" and r[1].endswith("HashMap::get") for r in fn.roots(c.args[0]))]
        ctx.anchor("R17.5", "get: records.get(key).is_some_and(expired)", len(isa), 1, cfg=fx.cfg)
        if isa:
            tests = fn.bool_tests(isa[0].dest[0])
            ctx.anchor("R17.5", "get: branch on is_expired", len(tests), 1, cfg=fx.cfg)
            # the HashMap::get whose result is returned
            retgets = [c for c in fn.calls(r"HashMap::get$") if c.dest == [0] or 0 in {l for l in _flows_to_ret(fn, c)}]
            ctx.anchor("R17.5", "get: returned lookup", len(retgets), 1, cfg=fx.cfg)
            for c in retgets:
                ok = any(fn.only_via(c.node, sw, [f]) for sw, t, f in tests)
                ctx.ob("R17.5", "get/returns-record-only-if-not-expired", ok, site=fn.site(c.node), cfg=fx.cfg,
                       detail="the lookup whose result is returned must lie behind the false edge of is_expired")
            rem = [c for c in fn.calls(r"HashMap::remove$") if ".records" in fn.recv(c)]
            for sw, t, f in tests:
                succ = [n for n, l in fn.succs(sw) if l == t]
                r = fn.reach(succ)
                exits_some = [n for n, sh in fn.exits() if n in r and not all(s.startswith("None") for s in sh)]
                ctx.ob("R17.5", "get/expired-edge-returns-None-and-removes", not exits_some and any(c.node in r for c in rem), site=fn.site(sw), cfg=fx.cfg,
                       detail="exits on the expired edge that may return a record: %s" % [fn.site(n) for n in exits_some])
    # get_providers: the expired providers are pruned (retain keeps exactly the unexpired) before anything is returned for a key that
    # is present - whether the pruning is a closure handed to `get_mut(key).is_some_and(..)` or the Some arm of a match on `get_mut(key)`
    fn = ctx.fn(fx, MS + "get_providers", "R17.5")
    if fn is not None:
        holders = [fn] + nested_closures(fx, fn)
        for h in holders:
            ctx.bodies.add((fx.cfg, h.key))
        preds = [h for h in holders[1:] if h.ret == "bool" and h.calls(r"ProviderRecord::is_expired$")]
        ctx.anchor("R17.5", "get_providers: retain predicate (closure calling ProviderRecord::is_expired)", len(preds), 1, cfg=fx.cfg)
        for cl00 in preds[:1]:
            rets = closure_returns(cl00)
            ok = bool(rets) and all(r is not None and r[0] == -1 and r[1].matches(r"ProviderRecord::is_expired$") for r in rets)
            ctx.ob("R17.5", "get_providers/retain-closure-keeps-exactly-the-unexpired", ok, site=cl00.site(cl00.entry), cfg=fx.cfg, detail=str(rets))
        retains = [(h, c) for h in holders for c in h.calls(r"Vec(<.*>)?::retain$")]
        ctx.anchor("R17.5", "get_providers: Vec::retain", len(retains), 1, cfg=fx.cfg)
        for cl0, rc in retains[:1]:
            if cl0 is fn:
                gm = [c for c in fn.calls(r"HashMap(<.*>)?::get_mut$") if ".provider_keys" in fn.recv(c)]
                ctx.anchor("R17.5", "get_providers: provider_keys.get_mut(key)", len(gm), 1, cfg=fx.cfg)
                cut = set()
                for c in gm:
                    cp = fn.copies_of(c.dest[0]) | {c.dest[0]}
                    for sw in fn.discr_switches():
                        if sw[1] and sw[1][0] in cp and len(sw[1]) == 1:
                            cut |= {(sw[0], l) for l in fn.variant_edges(sw, "None") if l not in fn.variant_edges(sw, "Some")}
                r = fn.reach([fn.entry], avoid=[rc.node], cut=cut)
                bad = [n for n, _ in fn.exits() if n in r]
                ctx.ob("R17.5", "get_providers/retain-on-every-path-of-the-pruning-closure", bool(gm) and bool(cut), site=fn.site(rc.node), cfg=fx.cfg,
                       detail="pruning written in the Some arm of the match on provider_keys.get_mut(key)")
                ctx.ob("R17.5", "get_providers/pruning-dominates-every-exit", bool(cut) and not bad, site=fn.site(rc.node), cfg=fx.cfg,
                       detail="exits reachable for a present key without the retain: %s" % [fn.site(n) for n in bad])
                continue
            ret = cl0.calls(r"Vec(<.*>)?::retain$")
            r = cl0.reach([cl0.entry], avoid=[c.node for c in ret])
            bad = [n for n in cl0.return_nodes() if n in r]
            ctx.ob("R17.5", "get_providers/retain-on-every-path-of-the-pruning-closure", bool(ret) and not bad, site=cl0.site(cl0.entry), cfg=fx.cfg)
            # the pruning closure is the one handed to is_some_and on provider_keys.get_mut, and that call dominates every exit
            isa = [c for c in fn.calls(r"Option::is_some_and$") if any(r[0] == "call" and r[1].endswith("HashMap::get_mut") for r in fn.roots(c.args[0]))]
            isa += [c for c in fn.calls(r"Option::map_or$") if len(c.args) == 3 and fn.const_value(c.args[1]) == 0 and any(r[0] == "call" and r[1].endswith("HashMap::get_mut") for r in fn.roots(c.args[0]))]
            ctx.anchor("R17.5", "get_providers: provider_keys.get_mut(key).is_some_and(prune)", len(isa), 1, cfg=fx.cfg)
            if isa:
                r = fn.reach([fn.entry], avoid=[isa[0].node])
                bad = [n for n, _ in fn.exits() if n in r]
                tail = cl0.key[len(fn.key) - len("get_providers"):]
                clo = any(("const", "fn:" + cl0.key) in fn.roots(a) or any(x[0] == "const" and tail in str(x[1]) for x in fn.roots(a)) for a in isa[0].args[-1:])
                ctx.ob("R17.5", "get_providers/pruning-dominates-every-exit", not bad, site=fn.site(isa[0].node), cfg=fx.cfg)
                ctx.ob("R17.5", "get_providers/pruning-closure-is-the-retain-closure", clo or closure_arg(fn, isa[0], tail), site=fn.site(isa[0].node), cfg=fx.cfg,
                       detail="roots: %s" % [sorted(guards.rootstrs(fn, a)) for a in isa[0].args[1:]])


def _flows_to_ret(fn, c):
    """locals that (through copies) receive the result of call c"""
    return fn.copies_of(c.dest[0])


EXPECTED_MUTATORS = {
    "records": {"get", "put"},
    "provider_keys": {"get_providers", "put_provider", "remove_local_provider"},
    "local_providers": {"put_local_provider", "remove_local_provider"},
}


def r17_6(ctx, fx):
    seen = {k: set() for k in EXPECTED_MUTATORS}
    for key in sorted(fx.find(r"^protocol::libp2p::kademlia::store::")):
        fn = fx.fn(key)
        for c in fn.calls(MUT_RX):
            rc = fn.recv(c)
            for fld in EXPECTED_MUTATORS:
                if re.search(r"\.%s\b" % fld, rc):
                    m = re.sub(r"::\{closure#\d+\}", "", key).rsplit("::", 1)[-1]
                    seen[fld].add(m)
    for fld, want in EXPECTED_MUTATORS.items():
        ctx.ob("R17.6", "%s-mutated-only-in-%s" % (fld, "+".join(sorted(want))), seen[fld] == want, cfg=fx.cfg,
               detail="mutating methods found: %s" % sorted(seen[fld]))
    # privacy of the fields (so no other module can write them)
    adt = fx.adts.get("protocol::libp2p::kademlia::store::MemoryStore")
    if adt is None:
        ctx.anchor("R17.6", "adt MemoryStore", 0, 1, cfg=fx.cfg)
    else:
        pub = []
        for v in adt.get("variants", []):
            for f in v.get("fields", []):
                if f.get("name") in EXPECTED_MUTATORS and not re.search(r"::store\)\)$", str(f.get("vis"))):
                    pub.append((f.get("name"), f.get("vis")))
        ctx.ob("R17.6", "maps-are-private-fields", not pub, cfg=fx.cfg, detail=str(pub))


def r17_7(ctx, fx):
    fn = ctx.fn(fx, MS + "put_local_provider", "R17.7")
    if fn is None:
        return
    ins = [c for c in fn.calls(r"HashMap::insert$") if ".local_providers" in fn.recv(c)]
    pp = fn.calls(r"MemoryStore::put_provider$")
    ctx.anchor("R17.7", "put_local_provider: local_providers.insert + put_provider", min(len(ins), len(pp)), 1, cfg=fx.cfg)
    if ins and pp:
        tests = fn.bool_tests(pp[0].dest[0])
        ok = any(fn.only_via(ins[0].node, sw, [t]) for sw, t, f in tests)
        ctx.ob("R17.7", "put_local_provider/insert-only-if-put_provider-accepted", ok, site=fn.site(ins[0].node), cfg=fx.cfg,
               detail="local_providers must not grow when the bounded provider map refused the key")


ORDER_PRESERVING = r"Vec(<.*>)?::(insert|remove|pop|retain|truncate|len|is_empty|iter|clone|binary_search_by|binary_search_by_key|first|last|get|get_mut|iter_mut|clear|drain)$|Index(Mut)?(<.*>)?>?::index(_mut)?$|Deref(Mut)?>?::deref(_mut)?$|slice::(<impl .*>::)?(binary_search_by|binary_search_by_key|iter|len|is_empty|first|last|get)$|Clone>?::clone$|IntoIterator>?::into_iter$|vec::from_elem$"


def r17_8(ctx, fx):
    """sortedness by distance is maintained structurally: the per-key provider list is touched only by order-preserving
    operations, new elements enter at the binary-search position, and the comparator orders by distance to the key"""
    bad = []
    n = 0
    for key in sorted(fx.find(r"^protocol::libp2p::kademlia::store::MemoryStore::")):
        fn = fx.fn(key)
        for c in fn.calls():
            if c.from_macro or not c.args:
                continue
            ty = fn.locals[(c.args[0].get("m") or c.args[0].get("c") or [0])[0]]
            if not re.match(r"^(&mut |&)*(std::vec::Vec<protocol::libp2p::kademlia::record::ProviderRecord|\[protocol::libp2p::kademlia::record::ProviderRecord\])", ty):
                continue
            n += 1
            if not c.matches(ORDER_PRESERVING):
                bad.append((short(key), c.name.rsplit("::", 1)[-1], fn.site(c.node)))
    ctx.anchor("R17.8", "calls on a provider list", n, 8, cfg=fx.cfg)
    ctx.ob("R17.8", "provider-lists-touched-only-by-order-preserving-operations", not bad, cfg=fx.cfg,
           detail="swap_remove / push / sort / reverse on the distance-sorted per-key list would break the binary searches: %s" % bad)
    fn = ctx.fn(fx, MS + "put_provider", "R17.8")
    if fn is not None:
        bs = fn.calls(r"binary_search_by(_key)?$")
        ins = [c for c in fn.calls(r"Vec(<.*>)?::insert$") if from_field(fn, c.args[0], "provider_keys")]
        ctx.anchor("R17.8", "put_provider: binary_search_by + insert", min(len(bs), len(ins)), 1, cfg=fx.cfg)
        for c in ins:
            rs = guards.rootstrs(fn, c.args[1])
            ok = any(re.search(r"binary_search_by(_key)?$", x) for x in rs) and not any(re.match(r"const:\d+$", x) for x in rs)
            sw = [sw for sw in fn.discr_switches() if bs and sw[1][0] in fn.copies_of(bs[0].dest[0])]
            ok = ok and bool(sw) and fn.only_via(c.node, sw[0][0], fn.variant_edges(sw[0], "Err"))
            ctx.ob("R17.8", "put_provider/insert-at-the-binary-search-position", ok, site=fn.site(c.node), cfg=fx.cfg, detail="index roots: %s" % sorted(rs))
    # the comparator closures, found by role (the closure handed to binary_search_by), not by their index in the function
    cmp_keys = []
    for fkey in (MS + "put_provider", MS + "remove_local_provider"):
        f2 = fx.fn(fkey)
        if f2 is None:
            continue
        for c in f2.calls(r"binary_search_by(_key)?$"):
            if len(c.args) < 2:
                continue
            q = c.args[-1].get("m") or c.args[-1].get("c")
            d = f2.single_def(q[0]) if q and len(q) == 1 else None
            if d is not None and d[1] == "assign" and d[2]["rv"]["r"] == "agg" and d[2]["rv"].get("closure"):
                k = d[2]["rv"]["closure"]
                k = fx._alias.get(k, k)
                if fx.fn(k) is not None and k not in cmp_keys:
                    cmp_keys.append((fkey, k))
    for fkey, key in cmp_keys:
        cl = ctx.fn(fx, key, "R17.8", required=False)
        if cl is None:
            continue
        key = fkey + "::{closure#0}"     # stable obligation name
        cmp_ = [c for c in cl.calls(r"cmp::Ord>?::cmp$|Ord(<.*>)?>?::cmp$") if c.dest == [0]]
        dist = cl.calls(r"ProviderRecord::distance$|Key(<.*>)?::distance$")
        ok = len(cmp_) == 1 and bool(dist) and any(("call", d.name) in cl.roots(cmp_[0].args[0]) for d in dist)
        if not cmp_:
            # `binary_search_by_key(&d, |p| p.distance())`: the key extractor returns the element's distance
            ok = len(dist) == 1 and dist[0].dest == [0] and any(x.startswith("param:_2") for x in guards.rootstrs(cl, dist[0].args[0]))
        ctx.ob("R17.8", "%s/comparator-orders-by-distance" % (short(key) + key[key.index("::{closure"):]), ok, site=cl.site(cl.entry), cfg=fx.cfg)


def run(ctx):
    fx = ctx.facts("default")
    r17_8(ctx, fx)
    r17_1_2(ctx, fx)
    r17_3_4(ctx, fx)
    r17_5(ctx, fx)
    r17_6(ctx, fx)
    r17_7(ctx, fx)
    ctx.assume("invariant used inductively for the per-key provider list: len <= max_providers_per_key (established by the vacant insert of a 1-element vector, max >= 1)")
    ctx.assume("HashMap::entry does not change the number of entries before VacantEntry::insert")
