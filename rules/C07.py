"""C07 - A terminated connection is reported closed to everyone exactly once (structural part).

R07.1 (K1, summaries): every exit of every transport's connection event loop passes through
       ProtocolSet::report_connection_closed (webrtc: WebRtcConnection::on_connection_closed).
R07.2 (K1 + order): inside report_connection_closed the send to the manager lies on every path to
       every exit that does not stem from that send failing, and the protocol fan-out loop has no exit.
R07.3 (K5 sibling): report_connection_established must not leave its fan-out loop on a single
       failed protocol send (its sibling report_connection_closed continues).
R07.5 (K4, at most once): one close-report call site per connection loop closure, outside loops (tcp/websocket/quic)
R07.6 (K1): both protocol fan-outs run to completion whatever the loop form (no break / return after a completed send)
R07.4 (K2): TransportManager::on_connection_closed yields TransportEvent::ConnectionClosed only over the
       'true' result of PeerState::on_connection_closed.
"""
import re
import guards
from paths import Inter
from common import nested_closures, slice_locals, exit_desc, short, local_used, for_loops, loop_left_early

EXPLANATION = ("All-paths structural obligations on the MIR CFG (pre-coroutine-transform) of the connection event loops "
               "and ProtocolSet report functions: every exit of each transport's connection loop is preceded by the close "
               "report (interprocedural must-pass-through with exit-shape summaries and result refinement); the manager "
               "notification in report_connection_closed is on every path; fan-out loops have no early exit.")

LOOPS = {
    # body of the connection task, call that constitutes the close report
    "transport::tcp::connection::TcpConnection::start::{closure#0}": r"ProtocolSet::report_connection_closed$",
    "transport::websocket::connection::WebSocketConnection::start::{closure#0}": r"ProtocolSet::report_connection_closed$",
    "transport::quic::connection::QuicConnection::start::{closure#0}": r"ProtocolSet::report_connection_closed$",
    "transport::webrtc::connection::WebRtcConnection::run_event_loop::{closure#0}": r"ProtocolSet::report_connection_closed$",
    "transport::webrtc::connection::WebRtcConnection::run::{closure#0}": r"ProtocolSet::report_connection_closed$",
}


def r07_1(ctx, fx):
    n = 0
    for key, hit in LOOPS.items():
        if not fx.has(key):
            continue
        n += 1
        fn = ctx.fn(fx, key, "R07.1")
        it = Inter(fx, hit)
        bad = it.uncovered_exits(fn, [fn.entry])
        for k in it.visited_bodies:
            ctx.bodies.add((fx.cfg, k))
        badnodes = {b[0] for b in bad}
        seen = set()
        for node, shapes, path in bad:
            d = exit_desc(fn, node, shapes, path)
            if d in seen:
                continue
            seen.add(d)
            ctx.ob("R07.1", "%s/%s" % (short(key), d), False, site=fn.site(node),
                   detail="exit of the connection loop reachable without %s; witness %s" % (hit, fn.path_sites(path)), cfg=fx.cfg)
        for node, shapes in fn.exits():
            if node not in badnodes:
                ctx.ob("R07.1", "%s/covered-exit:%s@bb%d" % (short(key), "|".join(sorted(shapes)), node[0]), True,
                       site=fn.site(node), detail="every path to this exit passes the close report", cfg=fx.cfg)
    ctx.anchor("R07.1", "connection loops", n, 1 if fx.cfg == "default" else 4, cfg=fx.cfg)


def _local_closure(fx, it, fn, limit=400):
    """crate-local bodies transitively executed by fn (direct calls and polls of local coroutines)"""
    seen = {fn.key: fn}
    work = [fn]
    while work and len(seen) < limit:
        f = work.pop()
        for c in f.calls():
            b = it.callee_body(c)
            if b is not None and b.key not in seen:
                seen[b.key] = b
                work.append(b)
    return seen


def r07_5(ctx, fx):
    """at most once: the close report has a single call site in the closure of each connection loop, and that site is not
    inside a loop"""
    for key, hit in LOOPS.items():
        if not fx.has(key) or "run_event_loop" in key:
            continue
        fn = fx.fn(key)
        it = Inter(fx, hit)
        sites = []
        for k, b in _local_closure(fx, it, fn).items():
            if re.search(r"ProtocolSet::report_connection_closed", k):
                continue
            for c in b.calls(hit):
                sites.append((k, c, b))
        if "webrtc" in key:
            continue
        ok = len(sites) == 1 and sites[0][1].node not in sites[0][2].reach([sites[0][1].node], after=True)
        ctx.ob("R07.5", "%s/close-report-has-one-call-site-outside-loops" % short(key), ok, site=sites[0][2].site(sites[0][1].node) if sites else "", cfg=fx.cfg,
               detail="call sites of the close report in the loop's call closure: %s" % [(short(k), b.site(c.node)) for k, c, b in sites])


def r07_2(ctx, fx):
    key = "protocol::protocol_set::ProtocolSet::report_connection_closed::{closure#0}"
    fn = ctx.fn(fx, key, "R07.2")
    if fn is None:
        return
    # the manager send: a call to Sender::send whose argument type is TransportManagerEvent
    sends = [c for c in fn.calls(r"mpsc::(bounded::)?Sender::send$")
             if any("TransportManagerEvent" in a for a in c.f.get("args", []))]
    ctx.anchor("R07.2", "mgr_tx.send(TransportManagerEvent)", len(sends), 1, cfg=fx.cfg)
    if not sends:
        return
    it = Inter(fx, r"^$", extra_hit=lambda f, n: f is fn and n in {s.node for s in sends})
    bad = it.uncovered_exits(fn, [fn.entry])
    ctx.ob("R07.2", "report_connection_closed/manager-send-on-every-path", not bad,
           site=fn.site(sends[0].node),
           detail="exits reachable without the manager send: %s" % [fn.path_sites(p) for _, _, p in bad], cfg=fx.cfg)
    # the aggregate sent must be the ConnectionClosed variant
    aggs = fn.aggregates(r"TransportManagerEvent$", "ConnectionClosed")
    ctx.ob("R07.2", "report_connection_closed/sends-ConnectionClosed", len(aggs) >= 1, site=fn.site(sends[0].node),
           detail="TransportManagerEvent::ConnectionClosed aggregates: %d" % len(aggs), cfg=fx.cfg)
    # protocols before manager: every poll of the fan-out (FuturesUnordered next) precedes the send:
    # no fan-out poll is reachable after the manager send
    fan = [c for c in fn.calls(r"StreamExt::next$|FuturesUnordered.*::poll_next|Next<.*>.*::poll$|future::Future::poll$")
           if any("FuturesUnordered" in a for a in c.f.get("args", []))]
    # sequential form: `for p in protocols { p.tx.send(event).await }`
    seq = [c for c in fn.calls(r"mpsc::(bounded::)?Sender::send$") if any("InnerTransportEvent" in a for a in c.f.get("args", []))]
    drains = fanout_drains(fn)
    ctx.anchor("R07.2", "protocol notification sites (fan-out poll or awaited send)", len(fan) + len(seq) + len(drains), 1, cfg=fx.cfg)
    after = fn.reach([s.node for s in sends], after=True)
    late = [c for c in fan + seq + drains if c.node in after]
    ctx.ob("R07.2", "report_connection_closed/protocols-before-manager", not late,
           site=fn.site(sends[0].node), detail="fan-out polls reachable after the manager send: %s" % late, cfg=fx.cfg)
    # the manager send is not reachable without passing the fan-out loop's exit test (is_empty)
    empties = fn.calls(r"FuturesUnordered.*::is_empty$")
    # the `while !futures.is_empty()` form; the `while let Some(..) = futures.next().await` form is covered by R07.6
    if empties:
        r = fn.reach([fn.entry], avoid=[e.node for e in empties])
        ctx.ob("R07.2", "report_connection_closed/send-after-loop", sends[0].node not in r,
               site=fn.site(sends[0].node), detail="manager send must be dominated by the loop-exit test", cfg=fx.cfg)
        # no exit inside the fan-out loop: from the loop test, no exit site reachable without passing the manager send
        ex = [n for n, _ in fn.exits()]
        r2 = fn.reach([e.node for e in empties], avoid=[s.node for s in sends], after=True)
        inloop = [n for n in ex if n in r2]
        ctx.ob("R07.2", "report_connection_closed/no-exit-in-fanout-loop", not inloop,
               site=fn.site(empties[0].node), detail="exits reachable from the fan-out loop without the manager send: %s" % [fn.site(n) for n in inloop], cfg=fx.cfg)


def fanout_drains(fn):
    """the fan-out consumed by a combinator that polls the FuturesUnordered until it is exhausted (`futures.fold(..)`,
    `for_each`, `collect`, `count`): it runs to completion by construction"""
    return [c for c in fn.calls(r"StreamExt::(fold|for_each|collect|count|for_each_concurrent)$") if any("FuturesUnordered" in a for a in c.f.get("args", []))]


def fanout_polls(fn):
    """polls of `futures.next()` on the FuturesUnordered of per-protocol sends"""
    return [c for c in fn.calls(r"StreamExt::next$|FuturesUnordered.*::poll_next|Next<.*>.*::poll$|future::Future::poll$")
            if any("FuturesUnordered" in a for a in c.f.get("args", [])) and c.matches(r"poll")]


def fanout_left_early(fn, targets):
    """witness path from a `Ready(Some(_))` result of the fan-out poll to one of `targets` that neither polls the fan-out again
    nor re-tests is_empty: the loop was left while sends may still be outstanding.  Works for both loop forms
    (`while !futures.is_empty() { futures.next().await }` and `while let Some(r) = futures.next().await`)."""
    from paths import refine_cuts
    polls = fanout_polls(fn)
    retest = [c.node for c in polls] + [c.node for c in fn.calls(r"FuturesUnordered.*::is_empty$")]
    for p in polls:
        cuts = refine_cuts(fn, p, ["Ready", "Some", "?"])
        if not cuts:
            continue
        w = fn.witness_path([p.node], targets, avoid=retest, cut=cuts, after=True)
        if w is not None:
            return w
    return None


def r07_6(ctx, fx):
    """both fan-outs run to completion: neither the manager send / exits of report_connection_closed nor the exits of
    report_connection_established are reachable from a completed send without re-checking that the fan-out is drained"""
    for meth in ("report_connection_closed", "report_connection_established"):
        fn = ctx.fn(fx, "protocol::protocol_set::ProtocolSet::%s::{closure#0}" % meth, "R07.6")
        if fn is None:
            continue
        polls = fanout_polls(fn)
        seq = [c for c in fn.calls(r"mpsc::(bounded::)?Sender::send$") if any("InnerTransportEvent" in a for a in c.f.get("args", []))]
        drains = fanout_drains(fn)
        ctx.anchor("R07.6", "%s: protocol notification sites" % meth, len(polls) + len(seq) + len(drains), 1, cfg=fx.cfg)
        # R07.8: a protocol is told with the waiting send; a `try_send` gives up on a protocol whose channel is momentarily full, and that
        # protocol then never learns about the connection (closed: stale context forever)
        holders = [fn] + nested_closures(fx, fn)
        trys = [(h, c) for h in holders for c in h.calls(r"mpsc::(bounded::)?Sender::try_send$|Sender::try_reserve$|Sender::send_timeout$")
                if any("InnerTransportEvent" in a for a in c.f.get("args", []))]
        waits = [(h, c) for h in holders for c in h.calls(r"mpsc::(bounded::)?Sender::send$") if any("InnerTransportEvent" in a for a in c.f.get("args", []))]
        ctx.ob("R07.8", "%s/protocols-are-told-with-the-waiting-send" % meth, bool(waits) and not trys, site=fn.site(fn.entry), cfg=fx.cfg,
               detail="waiting sends: %d, non-waiting sends: %s" % (len(waits), [h.site(c.node) for h, c in trys]))
        if seq and not polls:
            for i, lp in enumerate(for_loops(fn)):
                body = fn.reach([x for x, l in fn.succs(lp[1][0]) if l in lp[3]], avoid=[lp[0].node])
                if not any(c.node in body for c in seq):
                    continue
                w = loop_left_early(fn, lp)
                ctx.ob("R07.6", "%s/fan-out-runs-to-completion" % meth, w is None, site=fn.site(lp[0].node), cfg=fx.cfg,
                       detail="sequential fan-out left early at %s" % (fn.site(w) if w else None))
            continue
        if drains and not polls and not seq:
            ctx.ob("R07.6", "%s/fan-out-runs-to-completion" % meth, True, site=fn.site(drains[0].node), cfg=fx.cfg,
                   detail="the fan-out is consumed by %s, which polls the stream until it ends" % drains[0].name)
            continue
        targets = [n for n, _ in fn.exits()]
        if meth == "report_connection_closed":
            targets += [c.node for c in fn.calls(r"mpsc::(bounded::)?Sender::send$") if any("TransportManagerEvent" in a for a in c.f.get("args", []))]
        w = fanout_left_early(fn, targets)
        ctx.ob("R07.6", "%s/fan-out-runs-to-completion" % meth, w is None, site=fn.site(polls[0].node) if polls else fn.site(fn.entry), cfg=fx.cfg,
               detail="after one protocol's send completed (possibly with an error) the loop is left without draining the remaining sends: %s"
                      % (fn.path_sites(w) if w else None))


def r07_3(ctx, fx):
    key = "protocol::protocol_set::ProtocolSet::report_connection_established::{closure#0}"
    fn = ctx.fn(fx, key, "R07.3")
    if fn is None:
        return
    empties = fn.calls(r"FuturesUnordered.*::is_empty$")
    if not empties:
        return   # other loop form: R07.6 decides
    # an exit reachable from the loop body without re-evaluating the loop test = abort on first error
    loop_test = [e.node for e in empties]
    # the loop-exit edge: is_empty() result true -> leaves loop. body = successors over the 'not empty' edge.
    e = empties[0]
    tests = fn.bool_tests(e.dest[0])
    ctx.anchor("R07.3", "branch on is_empty", len(tests), 1, cfg=fx.cfg)
    if not tests:
        return
    sw, t_lab, f_lab = tests[0]
    body_start = [n for n, l in fn.succs(sw) if l == f_lab]   # not empty => loop body
    r = fn.reach(body_start, avoid=loop_test)
    ex = [n for n, sh in fn.exits() if n in r]
    for n in ex:
        ctx.ob("R07.3", "report_connection_established/exit-inside-fanout-loop:%s" % "|".join(sorted(dict(fn.exits())[n])), False,
               site=fn.site(n), detail="the fan-out over protocols returns on the first failed send; sibling report_connection_closed continues "
               "(one dead protocol prevents the others from learning about new connections)", cfg=fx.cfg)
    if not ex:
        ctx.ob("R07.3", "report_connection_established/no-exit-inside-fanout-loop", True, site=fn.site(e.node), cfg=fx.cfg)


def r07_4(ctx, fx):
    key = "transport::manager::TransportManager::on_connection_closed"
    fn = ctx.fn(fx, key, "R07.4")
    if fn is None:
        return
    calls = fn.calls(r"PeerState::on_connection_closed$")
    ctx.anchor("R07.4", "PeerState::on_connection_closed call", len(calls), 1, cfg=fx.cfg)
    aggs = fn.aggregates(r"TransportEvent$", "ConnectionClosed")
    ctx.anchor("R07.4", "TransportEvent::ConnectionClosed aggregate", len(aggs), 1, cfg=fx.cfg)
    if not calls or not aggs:
        return
    c = calls[0]
    tests = fn.bool_tests(c.dest[0])
    thens = fn.calls(r"^(std|core)::bool::then_some$|bool::then_some$")
    for node, s in aggs:
        ok = any(fn.only_via(node, sw, [t]) for sw, t, f in tests)
        how = "guard edge"
        if not ok:
            # idiom: `flag.then_some(event)` where flag is exactly the result of the state transition
            for t in thens:
                r0 = fn.roots(t.args[0], {"opaque": r"PeerState::on_connection_closed$"})
                r0 = {x for x in r0 if x[0] != "mutcall"}
                r1 = fn.roots(t.args[1])
                if r0 == {("call", "transport::manager::peer_state::PeerState::on_connection_closed")} and t.dest == [0]:
                    ok = True
                    how = "bool::then_some(flag = result of PeerState::on_connection_closed)"
        ctx.ob("R07.4", "TransportManager::on_connection_closed/event-only-if-state-says-disconnected", ok,
               site=fn.site(node), detail="TransportEvent::ConnectionClosed must be produced only when PeerState::on_connection_closed returned true (%s)" % how, cfg=fx.cfg)
    # limits are released on every path
    it = Inter(fx, r"ConnectionLimits::on_connection_closed$")
    bad = it.uncovered_exits(fn, [fn.entry])
    ctx.ob("R07.4", "TransportManager::on_connection_closed/limits-released-on-every-path", not bad,
           site=fn.site(fn.entry), detail=str([fn.path_sites(p) for _, _, p in bad]), cfg=fx.cfg)


def r07_7(ctx, fx):
    """ConnectionClosed reaches the application exactly for announced peers.  Inside TransportManager::next the result of
    TransportManager::on_connection_closed (Some = the peer has no connection left) is turned into an application event
      (a) where peer and connection id were taken out of a ConnectionClosed event (the close report of the connection task), or
      (b) in a rollback arm, only behind a lookup in the manager's own record of announced peers (a rolled-back connection was never
          announced itself, but it may have been promoted while the announced one closed).
    A rollback that forwards its result unconditionally reports a close without an established event (round-3 seed); the asynchronous
    rollback (pending_accept Err arm) that drops its result unconditionally loses the close event of an announced peer (F27)."""
    fn = ctx.fn(fx, "transport::manager::TransportManager::next::{closure#0}", "R07.7")
    if fn is None:
        return
    calls = fn.calls(r"TransportManager::on_connection_closed$")
    ctx.anchor("R07.7", "next: on_connection_closed calls", len(calls), 3, cfg=fx.cfg)
    inspected = 0
    # lookups in a collection held by the manager, keyed by the peer: the record of announced peers
    lookups = [c for c in fn.calls(r"Hash(Map|Set)(<.*>)?::(remove|get|contains_key|contains)$") if re.search(r"\{self\}\*?\.\w+$", fn.recv(c))
               and not re.search(r"\.(peers|protocols|transports|pending_connections|opening_errors|listen_addresses)$", fn.recv(c))]
    guard_edges = set()
    for lk in lookups:
        for sw in fn.discr_switches():
            if sw[1] and lk.dest and sw[1][0] in fn.copies_of(lk.dest[0]) | {lk.dest[0]}:
                for lab in fn.variant_edges(sw, "Some"):
                    guard_edges.add((sw[0], lab))
        for sw_, t, f in (fn.bool_tests(lk.dest[0]) if lk.dest else []):
            guard_edges.add((sw_, t))
    evs = [n for n, _ in fn.aggregates(r"transport::TransportEvent$", "ConnectionClosed")]
    for i, c in enumerate(calls):
        d = c.dest[0] if c.dest else None
        org = [fn.origin(a) for a in c.args[1:]]
        from_event = len(org) == 2 and all("@ConnectionClosed." in o for o in org)
        used = d is not None and (d == 0 or bool(local_used(fn, d)))
        if from_event:
            inspected += 1 if used else 0
            continue
        region = fn.reach([c.node], after=True, stop=_event_ends(fn, c.node))
        is_async_rollback = any("@Ready.0@_0." in o for o in org)   # arguments come out of the pending_accept branch of the select
        if used:
            mine = [e for e in evs if e in region]
            exits_direct = [x for x, sh in fn.exits() if x in region and any("call:" in s_ and "on_connection_closed" in s_ for s_ in sh)]
            ok = bool(guard_edges) and not exits_direct and all(e not in fn.reach([c.node], after=True, cut=guard_edges, stop=_event_ends(fn, c.node)) for e in mine)
            ctx.ob("R07.7", "next/on_connection_closed#%d-rollback-result-forwarded-only-for-an-announced-peer" % i, ok, site=fn.site(c.node), cfg=fx.cfg,
                   detail="argument origins %s; announced-peer lookups: %d; ConnectionClosed events built in this arm: %d" % (org, len(lookups), len(mine)))
        elif is_async_rollback:
            ctx.ob("R07.7", "next/pending_accept-rollback#%d-does-not-drop-the-close-of-an-announced-peer" % i, False, site=fn.site(c.node), cfg=fx.cfg,
                   detail="the result of the rollback is discarded: if the rolled-back connection had been promoted while the announced connection closed, "
                          "the application never sees ConnectionClosed although no connection is left")
    ctx.ob("R07.7", "next/transport-ConnectionClosed-result-is-forwarded", inspected >= 1, site=fn.site(fn.entry), cfg=fx.cfg,
           detail="call sites whose result is inspected: %d" % inspected)


def _event_ends(fn, start):
    return set(fn.return_nodes()) | {start} | {sw[0] for sw in fn.discr_switches() if sw[2].endswith("__tokio_select_util::Out")}


def r07_10(ctx, fx):
    """the shutdown of one local protocol does not take a new connection away from the others: report_connection_established runs its
    fan-out to completion and reports an error to its caller - which then discards the connection *without* a ConnectionClosed for
    the protocols that were told - only when no protocol could be notified.  Every Err exit that is reachable from the fan-out lies
    behind the edge `count of notified protocols == 0`."""
    fn = ctx.fn(fx, "protocol::protocol_set::ProtocolSet::report_connection_established::{closure#0}", "R07.10")
    if fn is None:
        return
    polls = fanout_polls(fn) or fanout_drains(fn)
    errs = [n for n, sh in fn.exits() if any(x.startswith("Err") for x in sh)]
    after = fn.reach([p.node for p in polls], after=True) if polls else set()
    errs = [n for n in errs if n in after]
    ctx.anchor("R07.10", "report_connection_established: fan-out polls / Err exits after the fan-out", min(len(polls), len(errs)), 1, cfg=fx.cfg)

    def is_counter(f, o):
        # (the count that a `fold` over the fan-out hands back)
        if guards.has_root(f, o, r"StreamExt::fold$") and any(f.locals[l] == "usize" for l in slice_locals(f, o)):
            return True
        for l in slice_locals(f, o):
            ds = f.defs().get(l, [])
            if f.locals[l] == "usize" and len(ds) >= 2 and any(k == "assign" and pl["rv"]["r"] == "use" and isinstance(f.const_value(pl["rv"]["o"]), int) and "k" in pl["rv"]["o"] for _, k, pl in ds):
                return True
        return False
    zero = {(sw, lab) for sw, lab, rel, cn in guards.edge_facts(fn, is_counter, lambda f, o: "k" in o and f.const_value(o) == 0) if rel == "=="}
    ok = bool(zero) and all(n not in fn.reach([fn.entry], cut=zero) for n in errs)
    ctx.ob("R07.10", "report_connection_established/error-only-if-no-protocol-was-notified", ok, site=fn.site(errs[0]) if errs else fn.site(fn.entry), cfg=fx.cfg,
           detail="`notified == 0` edges: %d; Err exits after the fan-out: %d" % (len(zero), len(errs)))


def run(ctx):
    for cfg in ctx.configs():
        fx = ctx.facts(cfg)
        r07_1(ctx, fx)
        r07_5(ctx, fx)
        if cfg == "default":
            r07_2(ctx, fx)
            r07_3(ctx, fx)
            r07_4(ctx, fx)
            r07_6(ctx, fx)
            r07_7(ctx, fx)
    r07_10(ctx, ctx.facts("default"))
    from common import check_no_dropped_futures
    check_no_dropped_futures(ctx, ctx.facts("default"), "R07.9", r"^protocol::protocol_set::ProtocolSet::\w+::\{closure#0\}(::\{closure#\d+\})*$", "ProtocolSet", 4)
    ctx.assume("cancellation of the connection task (executor shutdown) is not an exit")
