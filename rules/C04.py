"""C04 - Framed substream messages round-trip within limits (structural clauses).

R04.1 (K6) receiver: the allocation sized by a decoded length (BytesMut::zeroed(size) in the varint arm of Stream::poll_next) lies
      behind `size <= max_size` whenever a maximum is configured, and `size` is the result of read_payload_size on the bytes read;
      read_payload_size scans at most min(len, usize_buffer().len()) bytes and never returns Ok without `is_last`
R04.2 (K2 + sibling K5) sender refusal: every hand-over of a payload (queueing in start_send, write_all / write_all_chunks in the
      direct senders) lies behind the codec's size predicate (== payload_size for Identity; <= max or no max for UnsignedVarint);
      every transport arm of send_framed dispatches each codec to a guarded sender; the direct senders end in flush on every Ok path
R04.3 (K6) the Identity read buffer always holds payload_size bytes: sized from the codec at construction and re-created with
      payload_size after each frame
R04.4 (K7) flush completeness: Sink::poll_flush can complete (return anything but Pending / Ready(Err)) only over the edges where
      pending_out_frame and pending_out_frames are both empty; after the transport refused a frame (Pending) every exit is
      Pending or Ready(Err)
R04.5 (K11) poll_ready / poll_flush / poll_next return Pending only behind an inner Pending
Not decided: equality of received and sent sequences; behaviour under flow control (values / schedules).
"""
import re
from paths import refine_cuts, Inter
from common import short, slice_locals, ref_local, nested_closures, closure_operand, closure_returns
import guards
from cfg import op_place
import k11

EXPLANATION = ("Bounded-growth, guarded-by, sibling-agreement and return-shape rules over the MIR CFG of the framed substream: remote-"
               "controlled allocation behind the codec maximum, payload hand-over behind the codec's size predicate in every sender and "
               "transport arm, identity read buffer sized from the codec, and a flush that cannot complete while a frame is stashed.")

S = "substream::Substream::"
SINK = "<substream::Substream as futures::Sink<bytes::Bytes>>::"
STREAM = "<substream::Substream as futures::Stream>::poll_next"


def uses_of(fn, o):
    """projection strings of all places read on the strict backward copy-slice of operand o"""
    out = set()
    for l in slice_locals(fn, o, strict=True):
        d = fn.single_def(l)
        if d is None or d[1] != "assign":
            continue
        rv = d[2]["rv"]
        if rv["r"] == "use":
            p = rv["o"].get("c") or rv["o"].get("m")
            if p is not None:
                out.add("_%d%s" % (p[0], "".join(p[1:])))
                # read through a reference taken in a pattern guard (`Some(max) if len > max` binds `max` by reference first)
                if len(p) >= 2 and p[1] == "*":
                    rd = fn.single_def(p[0])
                    if rd is not None and rd[1] == "assign" and rd[2]["rv"]["r"] == "ref":
                        q = rd[2]["rv"]["p"]
                        out.add("_%d%s" % (q[0], "".join(q[1:] + p[2:])))
    return out


def _is_input(fn, l):
    """local l is a parameter of the body, or (coroutine / closure) a copy of a captured argument"""
    if 1 <= l <= fn.argc:
        return True
    d = fn.single_def(l)
    if d and d[1] == "assign" and d[2]["rv"]["r"] == "use":
        p = d[2]["rv"]["o"].get("c") or d[2]["rv"]["o"].get("m")
        return bool(p) and p[0] == 1 and len(p) >= 2 and p[1].startswith(".")
    return False


def is_len_of(fn, o, local_rx=None):
    """operand o is `x.len()` where x is the `bytes::Bytes` argument of the body (the payload handed in by the caller);
    found by type and role, not by name"""
    for c in fn.calls(r"Bytes::len$"):
        if c.dest[0] not in slice_locals(fn, o, strict=True):
            continue
        l = ref_local(fn, c.args[0])
        if l is not None and fn.locals[l] == "bytes::Bytes" and _is_input(fn, l):
            return True
    return False


def bound_kind(fn, o):
    us = uses_of(fn, o)
    sl = slice_locals(fn, o, strict=True)
    if any(u.endswith("@Identity.0") for u in us) or any(fn.locals[l] == "usize" and _is_input(fn, l) for l in sl):
        return "identity"
    if any(u.endswith("@Some.0") for u in us):
        return "varint"
    return None


def size_guard(ctx, fx, fn, rule, name, sites, payload_rx, want):
    """sites: nodes handing the payload over. want: 'identity' | 'varint'"""
    is_q = lambda f, o: is_len_of(f, o, payload_rx)
    is_b = lambda f, o: bound_kind(f, o) == want
    facts = guards.edge_facts(fn, is_q, is_b)
    cmps = {cn for *_, cn in facts}
    ctx.ob(rule, "%s/%s-size-comparison-present" % (name, want), len(cmps) >= 1, site=fn.site(sorted(cmps)[0]) if cmps else fn.site(fn.entry), cfg=fx.cfg, nontrivial=False,
           detail="comparisons between the payload length and the %s bound: %d" % (want, len(cmps)))
    need = "==" if want == "identity" else "<="
    good = {(sw, lab) for sw, lab, rel, cn in facts if rel in guards.IMPLIES[need]}
    none_edges = set()
    if want == "varint":
        for sw in fn.discr_switches():
            if sw[2] and sw[2].endswith("option::Option") and ((fn.locals[sw[1][0]].startswith("std::option::Option<usize>") and _is_input(fn, sw[1][0])) or any(u.endswith("@UnsignedVarint.0") for u in uses_of(fn, {"c": [sw[1][0]]})) or "".join(map(str, sw[1][1:])).endswith("@UnsignedVarint.0")):
                for lab in fn.variant_edges(sw, "None"):
                    none_edges.add((sw[0], lab))
    r = fn.reach([fn.entry], cut=good | none_edges)
    for i, n in enumerate(sites):
        ctx.ob(rule, "%s/%s-handover#%d-behind-size-predicate" % (name, want, i), bool(good) and n not in r, site=fn.site(n), cfg=fx.cfg,
               detail="the payload is handed to the transport only over an edge implying len %s bound%s" % (need, " (or no maximum configured)" if want == "varint" else ""))
    # exactness: a message of exactly the maximum passes, one byte more is refused (sender and receiver must agree on this boundary,
    # otherwise a message the sender accepts is an error at the receiver or a legal size is refused)
    rels = sorted({rel for sw, lab, rel, cn in facts})
    ctx.ob(rule, "%s/%s-boundary-is-exact" % (name, want), rels == (["!=", "=="] if want == "identity" else ["<=", ">"]), cfg=fx.cfg,
           site=fn.site(sorted(cmps)[0]) if cmps else fn.site(fn.entry), detail="facts on the edges of the size comparison: %s" % rels)
    # tightness: the refusal is reached only when the predicate fails
    bad_edges = {(sw, lab) for sw, lab, rel, cn in facts if rel in guards.IMPLIES["!=" if want == "identity" else ">"]}
    errs = [n for n, sh in fn.exits() if any("PermissionDenied" in s or s.startswith("Err") for s in sh)]
    return good, bad_edges


def arm_nodes(fn, codec_sw, var):
    edges = fn.variant_edges(codec_sw, var)
    return fn.reach([n for n, l in fn.succs(codec_sw[0]) if l in edges])


def r04_1(ctx, fx):
    fn = ctx.fn(fx, STREAM, "R04.1")
    if fn is not None:
        rps = fn.calls(r"substream::read_payload_size$")
        ctx.anchor("R04.1", "poll_next: read_payload_size", len(rps), 1, cfg=fx.cfg)
        allocs = [c for c in fn.calls(r"BytesMut::zeroed$") if not c.from_macro or True]
        remote = [c for c in allocs if any(r[0] == "call" and r[1].endswith("read_payload_size") for r in fn.roots(c.args[0]))
                  and not any(u.endswith("@Identity.0") for u in uses_of(fn, c.args[0]))]
        ctx.anchor("R04.1", "poll_next: allocation sized by the decoded length", len(remote), 1, cfg=fx.cfg)
        is_q = lambda f, o: any(r[0] == "call" and r[1].endswith("read_payload_size") for r in f.roots(o)) and bound_kind(f, o) != "varint"
        is_b = lambda f, o: bound_kind(f, o) == "varint" and not any(r[0] == "call" and r[1].endswith("read_payload_size") for r in f.roots(o))
        facts = guards.edge_facts(fn, is_q, is_b)
        good = {(sw, lab) for sw, lab, rel, cn in facts if rel in guards.IMPLIES["<="]}
        none_edges = set()
        for sw in fn.discr_switches():
            if sw[2] and sw[2].endswith("option::Option") and any(u.endswith("@UnsignedVarint.0") for u in uses_of(fn, {"c": [sw[1][0]]}) | {"_%d%s" % (sw[1][0], "".join(map(str, sw[1][1:])))}):
                for lab in fn.variant_edges(sw, "None"):
                    none_edges.add((sw[0], lab))
        ctx.anchor("R04.1", "poll_next: comparison size vs max_size / Option switch on max_size", min(len(good), len(none_edges)), 1, cfg=fx.cfg)
        rels = sorted({rel for sw, lab, rel, cn in facts})
        ctx.ob("R04.1", "poll_next/receiver-boundary-is-exact(size<=max passes, size>max fails)", rels == ["<=", ">"], site=fn.site(fn.entry), cfg=fx.cfg,
               detail="facts on the edges of the size comparison: %s; must be the sender's boundary (R04.2)" % rels)
        for i, c in enumerate(remote):
            r = fn.reach([rp.node for rp in rps], cut=good | none_edges, after=True)
            ctx.ob("R04.1", "poll_next/alloc#%d-behind-size<=max_size" % i, bool(good) and c.node not in r, site=fn.site(c.node), cfg=fx.cfg,
                   detail="a remote-chosen length allocates only after it was compared with the configured maximum")
        # without a maximum (`UnsignedVarint(None)`) the announced length is not trusted either: what is allocated up front on that
        # edge is bounded by a constant (`min(size, CHUNK)`), the rest grows as payload arrives.  zeroed(2^63) is a capacity-overflow
        # panic, zeroed(2^45) aborts in the allocator - "a malformed incoming length yields an error, never a panic"
        some_edges = set()
        for sw in fn.discr_switches():
            if any((sw[0], lab) in none_edges for lab in fn.variant_edges(sw, "None")):
                for lab in fn.variant_edges(sw, "Some"):
                    if (sw[0], lab) not in none_edges:
                        some_edges.add((sw[0], lab))
        from_none = fn.reach([n_ for sw_, lab in none_edges for n_, l in fn.succs(sw_) if l == lab], cut=some_edges) if none_edges else set()
        def unbounded_defs(l, seen):
            """definitions of local l on the no-maximum edge that are not `min(.., CONST)` / a constant, followed through copies (a
            value chosen per arm of a match / map_or_else is a copy of each arm's result)"""
            if l in seen:
                return []
            seen.add(l)
            out = []
            for node, kind, pl in fn.defs().get(l, []):
                if node not in from_none or len(fn._lhs_of((node, kind, pl))) != 1:
                    continue
                if kind == "call":
                    d = fn.call_at(node)
                    if re.search(r"cmp::min$|Ord>?::min$", d.name) and any(isinstance(fn.const_value(a), int) or any(r[0] == "const" for r in fn.roots(a)) and not any(r[0] == "call" for r in fn.roots(a)) for a in d.args):
                        continue
                    out.append(fn.site(node))
                elif kind == "assign" and pl["rv"]["r"] in ("use", "cast"):
                    o = pl["rv"]["o"]
                    q = o.get("m") or o.get("c")
                    if isinstance(fn.const_value(o), int):
                        continue
                    if q and len(q) == 1 and not (1 <= q[0] <= fn.argc):
                        out += unbounded_defs(q[0], seen)
                        continue
                    out.append(fn.site(node))
                else:
                    out.append(fn.site(node))
            return out
        for i, c in enumerate(remote):
            q0 = c.args[0].get("m") or c.args[0].get("c")
            unb = unbounded_defs(q0[0], set()) if q0 and len(q0) == 1 else [fn.site(c.node)]
            reach_alloc = c.node in from_none
            ctx.ob("R04.1", "poll_next/alloc#%d-without-a-maximum-is-bounded-by-a-constant-step" % i, bool(none_edges) and (not reach_alloc or not unb), site=fn.site(c.node), cfg=fx.cfg,
                   detail="definitions of the allocated size on the no-maximum edge that are not min(.., CONST): %s" % unb)
        # refusal tightness: the ReadFailure after the comparison only over size > max
        # the decoded size is what is stored as frame size
        st = [n for n, s in fn.assigns() if "".join(s["lhs"][1:]).endswith(".current_frame_size") and s["rv"]["r"] == "use"]
    fn = ctx.fn(fx, "substream::read_payload_size", "R04.1")
    if fn is not None:
        mn = fn.calls(r"cmp::min$")
        ub = fn.calls(r"unsigned_varint::encode::usize_buffer$")
        # the scan for the terminating byte looks at positions < min(buffer.len(), max_len) only, written as
        #  (a) `for i in 0..min(buffer.len(), max_len) { buffer[i] }`, or
        #  (b) an iterator over the buffer cut off by `take(max_len)`: `buffer.iter().take(max_len)` + enumerate / position / a loop
        is_maxlen0 = lambda o: any(r[0] == "call" and r[1].endswith("unsigned_varint::encode::usize_buffer") for r in fn.roots(o))
        takes = [c for c in fn.calls(r"Iterator>?::take$") if len(c.args) == 2 and is_maxlen0(c.args[1])
                 and any(r[0] == "call" and re.search(r"slice::(<impl \[T\]>::)?iter$", r[1]) for r in fn.roots(c.args[0])) and any(r[0] == "param" and r[1] == 1 for r in fn.roots(c.args[0]))]
        ctx.anchor("R04.1", "read_payload_size: min(len, usize_buffer().len()) / buffer.iter().take(max_len)", max(min(len(mn), len(ub)), len(takes)), 1, cfg=fx.cfg)
        rng = [s for n, s in fn.assigns() if s["rv"]["r"] == "agg" and s["rv"]["adt"].endswith("ops::Range")]
        ok = bool(rng) and bool(mn) and all(mn[0].dest[0] in slice_locals(fn, s["rv"]["ops"][1]) for s in rng)
        il_all = [(fn, c) for c in fn.calls(r"unsigned_varint::decode::is_last$")] + [(cl, c) for cl in nested_closures(fx, fn) for c in cl.calls(r"unsigned_varint::decode::is_last$")]
        if not ok and takes and not rng:
            # every byte that is tested comes out of the cut-off iterator: the loop / adaptor that feeds is_last draws from `take(..)`
            fed = True
            for holder, c in il_all:
                if holder is fn:
                    fed = fed and any(("call", t.name) in fn.roots(c.args[0]) for t in takes)
                else:
                    users = [u for u in fn.calls(r"Iterator>?::(position|find|find_map|any|all|take_while|skip_while|map_while|filter|try_for_each)$")
                             if len(u.args) >= 2 and closure_operand(fx, fn, u.args[1]) is not None and closure_operand(fx, fn, u.args[1]).key == holder.key]
                    fed = fed and bool(users) and all(any(("call", t.name) in fn.roots(u.args[0]) for t in takes) for u in users) \
                        and all(any(x.startswith("param:_2") for x in guards.rootstrs(holder, a)) for a in c.args)
            ok = fed and bool(il_all)
        ctx.ob("R04.1", "read_payload_size/scan-bounded-by-min(len,max_len)", ok, site=fn.site(fn.entry), cfg=fx.cfg,
               detail="the loop range end is the min(..) result, or the bytes tested come from buffer.iter().take(max_len): the index stays inside the buffer and the scan ends after the longest varint")
        # NotEnoughBytes (the caller then reads one more byte into its fixed size buffer) only while len < max_len
        def is_blen(f, o):
            return any(c.dest[0] in slice_locals(f, o, strict=True) for c in f.calls(r"slice::(<impl \[T\]>::)?len$") if re.match(r"^&?_1\*?$", f.origin(c.args[0])))

        def is_maxlen(f, o):
            return any(r[0] == "call" and r[1].endswith("unsigned_varint::encode::usize_buffer") for r in f.roots(o)) and not is_blen(f, o)
        lt = {(sw, lab) for sw, lab, rel, cn in guards.edge_facts(fn, is_blen, is_maxlen) if rel == "<"}
        neb = [n for n, s2 in fn.aggregates(r"ReadError$", "NotEnoughBytes")]
        ctx.anchor("R04.1", "read_payload_size: NotEnoughBytes aggregate + len<max_len comparison", min(len(neb), len(lt)), 1, cfg=fx.cfg)
        ctx.ob("R04.1", "read_payload_size/NotEnoughBytes-only-if-len<max_len", bool(lt) and all(n not in fn.reach([fn.entry], cut=lt) for n in neb), site=fn.site(neb[0]) if neb else fn.site(fn.entry), cfg=fx.cfg,
               detail="with len == max_len and no terminating byte the answer must be Overflow: the caller's size buffer holds exactly max_len bytes")
        il = fn.calls(r"unsigned_varint::decode::is_last$")
        # every exit that is not provably an Err (an `Ok(..)` literal, or the decoder's own Result handed on through map / map_err)
        oks = [n for n, sh in fn.exits() if not all(s.startswith("Err") for s in sh)]
        found = [(sw, t) for c in il for sw, t, f in fn.bool_tests(c.dest[0])]
        # `position(|b| is_last(*b))` / `find(..)`: the Some edge of its result is "a terminating byte was found"
        for u in fn.calls(r"Iterator>?::(position|find)$"):
            cl = closure_operand(fx, fn, u.args[1]) if len(u.args) >= 2 else None
            if cl is None or not u.dest:
                continue
            rets = closure_returns(cl)
            if rets and all(r is not None and r[0] == 1 and r[1].matches(r"unsigned_varint::decode::is_last$") for r in rets):
                cp = fn.copies_of(u.dest[0]) | {u.dest[0]}
                for sw in fn.discr_switches():
                    if sw[1] and sw[1][0] in cp and len(sw[1]) == 1:
                        found += [(sw[0], l) for l in fn.variant_edges(sw, "Some") if l not in fn.variant_edges(sw, "None")]
        ok = bool(found) and all(any(fn.only_via(n, sw, [t]) for sw, t in found) for n in oks) and bool(oks)
        ctx.ob("R04.1", "read_payload_size/Ok-only-after-is_last", ok, site=fn.site(fn.entry), cfg=fx.cfg)


def _complete_writes(ctx, fx, fn, name, payload_rx, prefixed):
    """a direct sender hands the message over with whole-buffer writes only: no partial-write primitive whose count the caller would
    have to account for, the payload write covers the caller's payload without sub-slicing, and (varint) the encoded length is written
    whole and before the payload.  Necessary for 'send reported complete => whole message handed to the transport'."""
    partial = [c for c in fn.calls(r"AsyncWriteExt::(write|write_vectored|write_buf)$|AsyncWrite::poll_write(_vectored)?$") if not c.from_macro]
    ctx.ob("R04.2", "%s/no-partial-write-primitive" % name, not partial, site=fn.site(partial[0].node) if partial else fn.site(fn.entry), cfg=fx.cfg,
           detail="partial writes: %s" % [c.name for c in partial])
    wa = [c for c in fn.calls(r"AsyncWriteExt::write_all$|write_all_chunks$")]
    pay, pre = [], []
    for c in wa:
        rs = guards.rootstrs(fn, c.args[-1])
        if any("unsigned_varint::encode::usize" in x for x in rs):
            pre.append((c, rs))
        elif any(re.search(payload_rx, fn.names.get(l, "")) for l in slice_locals(fn, c.args[-1])) or any(x.startswith("param:") for x in rs):
            pay.append((c, rs))
    ctx.ob("R04.2", "%s/payload-written-by-one-whole-buffer-write" % name, len(pay) == 1 and not any("Index" in x and "::index" in x for x in pay[0][1]),
           site=fn.site(pay[0][0].node) if pay else fn.site(fn.entry), cfg=fx.cfg,
           detail="payload writes: %d; roots %s" % (len(pay), sorted(pay[0][1])[:8] if pay else None))
    if prefixed:
        ok = len(pre) == 1 and len(pay) == 1 and pay[0][0].node not in fn.reach([fn.entry], avoid=[pre[0][0].node])
        ctx.ob("R04.2", "%s/encoded-length-written-whole-before-the-payload" % name, ok, site=fn.site(pre[0][0].node) if pre else fn.site(fn.entry), cfg=fx.cfg,
               detail="prefix writes: %d" % len(pre))


def r04_2(ctx, fx):
    # --- Sink::start_send
    fn = ctx.fn(fx, SINK + "start_send", "R04.2")
    if fn is not None:
        csw = [sw for sw in fn.discr_switches() if sw[2] and sw[2].endswith("ProtocolCodec")]
        ctx.anchor("R04.2", "start_send: match on codec", len(csw), 1, cfg=fx.cfg)
        pushes = [c for c in fn.calls(r"VecDeque(<.*>)?::push_back$") if ".pending_out_frames" in fn.recv(c)]
        # `queue.extend([prefix, item])` queues the elements of the array in order: one virtual push per element
        class _Push:
            def __init__(self, call, operand):
                self.node, self.args, self.name = call.node, [call.args[0], operand], "push_back(via extend)"
        for c in fn.calls(r"Extend(<.*>)?>?::extend$|VecDeque(<.*>)?::extend$"):
            if ".pending_out_frames" not in fn.recv(c) or len(c.args) < 2:
                continue
            q = c.args[1].get("m") or c.args[1].get("c")
            d = fn.single_def(q[0]) if q and len(q) == 1 else None
            if d is not None and d[1] == "assign" and d[2]["rv"]["r"] == "agg" and d[2]["rv"].get("adt") == "[array]":
                pushes += [_Push(c, o) for o in d[2]["rv"]["ops"]]
        ctx.anchor("R04.2", "start_send: pushes into pending_out_frames", len(pushes), 3, cfg=fx.cfg)
        if csw:
            for var, want in (("Identity", "identity"), ("UnsignedVarint", "varint")):
                arm = arm_nodes(fn, csw[0], var)
                # everything queued for this message (length prefix and payload): nothing of a refused message may be queued
                sites = [c.node for c in pushes if c.node in arm]
                ctx.anchor("R04.2", "start_send: %s arm queues the item" % var, len([c for c in pushes if c.node in arm and re.match(r"^_2$", fn.origin(c.args[1]))]), 1, cfg=fx.cfg)
                size_guard(ctx, fx, fn, "R04.2", "start_send", sites, r"^_2$", want)
            # the varint prefix encodes item.len()
            enc = fn.calls(r"unsigned_varint::encode::usize$")
            ok = bool(enc) and all(is_len_of(fn, c.args[0], r"^_2$") for c in enc)
            ctx.ob("R04.2", "start_send/varint-prefix-encodes-item.len()", ok, site=fn.site(enc[0].node) if enc else fn.site(fn.entry), cfg=fx.cfg)
            arm = arm_nodes(fn, csw[0], "UnsignedVarint")
            order = [c for c in pushes if c.node in arm]
            ok = len(order) == 2 and (order[1].node in fn.reach([order[0].node], after=True) or order[1].node == order[0].node) and not re.match(r"^_2$", fn.origin(order[0].args[1])) and re.match(r"^_2$", fn.origin(order[1].args[1])) is not None
            ctx.ob("R04.2", "start_send/prefix-queued-before-payload", ok, site=fn.site(order[0].node) if order else fn.site(fn.entry), cfg=fx.cfg)
    # --- direct senders
    fn = ctx.fn(fx, S + "send_identity_payload::{closure#0}", "R04.2")
    if fn is not None:
        wa = [c for c in fn.calls(r"AsyncWriteExt::write_all$")]
        ctx.anchor("R04.2", "send_identity_payload: write_all", len(wa), 1, cfg=fx.cfg)
        rx = r"^payload$"
        size_guard(ctx, fx, fn, "R04.2", "send_identity_payload", [c.node for c in wa], rx, "identity")
        _flush_on_ok(ctx, fx, fn, "send_identity_payload")
        _complete_writes(ctx, fx, fn, "send_identity_payload", rx, False)
    fn = ctx.fn(fx, S + "send_unsigned_varint_payload::{closure#0}", "R04.2")
    if fn is not None:
        wa = [c for c in fn.calls(r"AsyncWriteExt::write_all$")]
        ctx.anchor("R04.2", "send_unsigned_varint_payload: write_all", len(wa), 1, cfg=fx.cfg)
        rx = r"^bytes$"
        size_guard(ctx, fx, fn, "R04.2", "send_unsigned_varint_payload", [c.node for c in wa], rx, "varint")
        enc = fn.calls(r"unsigned_varint::encode::usize$")
        ok = bool(enc) and all(is_len_of(fn, c.args[0], rx) for c in enc)
        ctx.ob("R04.2", "send_unsigned_varint_payload/prefix-encodes-bytes.len()", ok, site=fn.site(fn.entry), cfg=fx.cfg)
        _flush_on_ok(ctx, fx, fn, "send_unsigned_varint_payload")
        _complete_writes(ctx, fx, fn, "send_unsigned_varint_payload", rx, True)
    # --- dispatch: every transport arm x codec goes to a guarded sender
    fn = ctx.fn(fx, S + "send_framed::{closure#0}", "R04.2")
    if fn is not None:
        partial = [c for c in fn.calls(r"AsyncWriteExt::(write|write_vectored|write_buf)$|AsyncWrite::poll_write(_vectored)?$") if not c.from_macro]
        ctx.ob("R04.2", "send_framed/no-partial-write-primitive", not partial, site=fn.site(partial[0].node) if partial else fn.site(fn.entry), cfg=fx.cfg)
        tsw = [sw for sw in fn.discr_switches() if sw[2] and sw[2].endswith("SubstreamType")]
        csw = [sw for sw in fn.discr_switches() if sw[2] and sw[2].endswith("ProtocolCodec")]
        ctx.anchor("R04.2", "send_framed: match on transport / codec (%s)" % fx.cfg, len(tsw) + len(csw), 1 if fx.cfg == "default" else 5, cfg=fx.cfg)
        for sw in csw:
            # which transport arm is this codec switch in
            tname = "Tcp" if not tsw else "?"
            for t in tsw:
                for v in list(t[3].keys()) + list(t[5]):
                    if sw[0] in fn.reach([n for n, l in fn.succs(t[0]) if l in fn.variant_edges(t, v)]) and v != "Mock":
                        tname = v
            ida = arm_nodes(fn, sw, "Identity") - arm_nodes(fn, sw, "UnsignedVarint")
            vaa = arm_nodes(fn, sw, "UnsignedVarint") - arm_nodes(fn, sw, "Identity")
            ok_i = any(c.node in ida for c in fn.calls(r"Substream::send_identity_payload$"))
            ctx.ob("R04.2", "send_framed/%s/Identity->send_identity_payload" % tname, ok_i, site=fn.site(sw[0]), cfg=fx.cfg)
            via_helper = any(c.node in vaa for c in fn.calls(r"Substream::send_unsigned_varint_payload$"))
            if via_helper:
                ctx.ob("R04.2", "send_framed/%s/UnsignedVarint->send_unsigned_varint_payload" % tname, True, site=fn.site(sw[0]), cfg=fx.cfg)
            else:
                # inline sender (quic): the chunked write must lie behind the size check
                wr = [c for c in fn.calls(r"write_all_chunks$|AsyncWriteExt::write_all$") if c.node in vaa]
                rx = r"^bytes$"
                ctx.ob("R04.2", "send_framed/%s/UnsignedVarint-inline-writer-present" % tname, bool(wr), site=fn.site(sw[0]), cfg=fx.cfg)
                size_guard(ctx, fx, fn, "R04.2", "send_framed/%s" % tname, [c.node for c in wr], rx, "varint")
                for c in wr:
                    # one whole-buffer write of [encoded length, payload], in that order
                    arr = None
                    o = c.args[-1]
                    for _ in range(8):
                        pl = op_place(o)
                        d = fn.single_def(pl[0]) if pl else None
                        if not d or d[1] != "assign":
                            break
                        rv = d[2]["rv"]
                        if rv["r"] == "agg" and rv.get("adt") == "[array]":
                            arr = rv["ops"]
                            break
                        if rv["r"] in ("use", "cast"):
                            o = rv["o"]
                        elif rv["r"] == "ref":
                            o = {"c": rv["p"]}
                        else:
                            break
                    ok = False
                    why = "chunk array literal not found"
                    if arr is not None and len(arr) == 2:
                        r0, r1 = guards.rootstrs(fn, arr[0]), guards.rootstrs(fn, arr[1])
                        b = [l for l, t in enumerate(fn.locals) if t == "bytes::Bytes" and fn.names.get(l)]
                        ok = any("unsigned_varint::encode::usize" in x for x in r0) and bool(set(b) & slice_locals(fn, arr[1])) and not any("::index" in x or "slice" in x.lower() and "call:" in x for x in r1)
                        why = "chunk[0] roots %s; chunk[1] roots %s" % (sorted(r0)[:6], sorted(r1)[:6])
                    ctx.ob("R04.2", "send_framed/%s/chunks=[encoded-length,whole-payload]" % tname, ok, site=fn.site(c.node), cfg=fx.cfg, detail=why)
            # the payload passed on is the function's argument
            for c in [c for c in fn.calls(r"Substream::send_(identity|unsigned_varint)_payload$") if c.node in ida | vaa]:
                idx = 2 if c.name.endswith("identity_payload") else 1
                b = [l for l, t in enumerate(fn.locals) if t == "bytes::Bytes" and fn.names.get(l)]
                ok = bool(b) and bool(set(b) & slice_locals(fn, c.args[idx]))
                ctx.ob("R04.2", "send_framed/%s/%s-gets-the-caller's-bytes" % (tname, c.name.rsplit("::", 1)[-1]), ok, site=fn.site(c.node), cfg=fx.cfg)
                bidx = 1 if c.name.endswith("identity_payload") else 2
                ctx.ob("R04.2", "send_framed/%s/%s-gets-the-codec-bound" % (tname, c.name.rsplit("::", 1)[-1]), any(u.endswith("@Identity.0") or u.endswith("@UnsignedVarint.0") for u in uses_of(fn, c.args[bidx])), site=fn.site(c.node), cfg=fx.cfg)


def _flush_on_ok(ctx, fx, fn, name):
    fl = fn.calls(r"AsyncWriteExt::flush$")
    oks = [n for n, sh in fn.exits() if not all(s == "residual" or s.startswith("Err") for s in sh)]
    r = fn.reach([fn.entry], avoid=[c.node for c in fl])
    bad = [fn.site(n) for n in oks if n in r]
    ctx.ob("R04.2", "%s/non-error-exits-pass-flush" % name, bool(fl) and not bad, site=fn.site(fn.entry), cfg=fx.cfg, detail="exits reachable without flush: %s" % bad)


def r04_3(ctx, fx):
    fn = ctx.fn(fx, S + "new", "R04.3")
    if fn is not None:
        # the varint size buffer holds as many bytes as the longest varint (usize_buffer().len() == 10)
        n_ref, ver = None, "type-checked"
        rps = fx.fn("substream::read_payload_size")
        if rps is not None:
            for c in rps.calls(r"unsigned_varint::encode::usize_buffer$"):
                mm = re.match(r"\[u8; (\d+)\]", rps.locals[c.dest[0]])
                if mm:
                    n_ref = int(mm.group(1))
        adt0 = fx.adts.get("substream::Substream")
        f0 = [f["name"] for v in (adt0 or {}).get("variants", []) for f in v.get("fields", [])]
        ag0 = fn.aggregates(r"^substream::Substream$")
        if ag0 and "size_vec" in f0:
            zs = [c for c in fn.calls(r"BytesMut::zeroed$") if c.dest[0] in slice_locals(fn, ag0[0][1]["rv"]["ops"][f0.index("size_vec")])]
            v = fn.const_value(zs[0].args[0]) if zs else None
            ctx.ob("R04.3", "Substream::new/size_vec-holds-the-longest-varint", n_ref is not None and v is not None and v >= n_ref, site=fn.site(fn.entry), cfg=fx.cfg,
                   detail="size_vec = zeroed(%s); usize_buffer() has type [u8; %s] (%s)" % (v, n_ref, ver))
        csw = [sw for sw in fn.discr_switches() if sw[2] and sw[2].endswith("ProtocolCodec")]
        aggs = fn.aggregates(r"^substream::Substream$")
        ctx.anchor("R04.3", "Substream::new: aggregate", len(aggs), 1, cfg=fx.cfg)
        adt = fx.adts.get("substream::Substream")
        fields = [f["name"] for v in (adt or {}).get("variants", []) for f in v.get("fields", [])]
        ok = False
        why = "no match on the codec"
        if aggs and "read_buffer" in fields:
            op = aggs[0][1]["rv"]["ops"][fields.index("read_buffer")]
            zs = [c for c in fn.calls(r"BytesMut::zeroed$") if c.dest[0] in slice_locals(fn, op)]
            if csw and zs:
                ida = arm_nodes(fn, csw[0], "Identity")
                others = set()
                for v in ("UnsignedVarint", "Unspecified"):
                    others |= arm_nodes(fn, csw[0], v)
                idz = [c for c in zs if c.node in ida and c.node not in others]
                ok = len(idz) == 1 and any(u.endswith("@Identity.0") for u in uses_of(fn, idz[0].args[0]))
                why = "zeroed() calls feeding read_buffer: %s; on the Identity edge: %s" % ([fn.site(c.node) for c in zs], [sorted(uses_of(fn, c.args[0])) for c in idz])
            elif zs:
                why = "read_buffer is %s regardless of the codec" % [sorted(guards.rootstrs(fn, c.args[0])) for c in zs]
        ctx.ob("R04.3", "Substream::new/identity-read-buffer-sized-from-codec", ok, site=fn.site(fn.entry), cfg=fx.cfg,
               detail="the Identity arm of poll_next slices read_buffer[offset..payload_size]: " + why)
    fn = ctx.fn(fx, STREAM, "R04.3")
    if fn is not None:
        csw = [sw for sw in fn.discr_switches() if sw[2] and sw[2].endswith("ProtocolCodec")]
        if csw:
            ida = arm_nodes(fn, csw[0], "Identity") - arm_nodes(fn, csw[0], "UnsignedVarint")
            reps = [c for c in fn.calls(r"mem::replace$") if c.node in ida and ".read_buffer" in fn.origin(c.args[0])]
            ctx.anchor("R04.3", "poll_next: Identity arm re-creates read_buffer", len(reps), 1, cfg=fx.cfg)
            for c in reps:
                pr = fn.producer(c.args[1])
                ok = pr is not None and pr.matches(r"BytesMut::zeroed$") and any(u.endswith("@Identity.0") for u in uses_of(fn, pr.args[0]))
                ctx.ob("R04.3", "poll_next/identity-buffer-recreated-with-payload_size", ok, site=fn.site(c.node), cfg=fx.cfg)
            # nothing else assigns read_buffer in the identity arm
            wr = [fn.site(n) for n, s in fn.assigns() if n in ida and "".join(s["lhs"][1:]).endswith(".read_buffer")]
            ctx.ob("R04.3", "poll_next/identity-arm-assigns-read_buffer-only-via-replace", not wr, site=fn.site(csw[0][0]), cfg=fx.cfg, detail=str(wr))
            # a frame is delivered only when offset == payload_size
            somes = [n for n, sh in fn.exits() if n in ida and any(s.startswith("Ready.Some.Ok") for s in sh)]
            is_q = lambda f, o: any(p.endswith(".offset") for p in uses_of(f, o)) or any(r[0] == "param" and r[2].endswith(".offset") for r in f.roots(o))
            is_b = lambda f, o: bound_kind(f, o) == "identity"
            eqe = {(sw, lab) for sw, lab, rel, cn in guards.edge_facts(fn, is_q, is_b) if rel == "=="}
            ctx.ob("R04.3", "poll_next/identity-frame-delivered-only-when-offset==payload_size", bool(eqe) and bool(somes) and all(n not in fn.reach([fn.entry], cut=eqe) for n in somes),
                   site=fn.site(somes[0]) if somes else fn.site(fn.entry), cfg=fx.cfg)


def r04_4(ctx, fx):
    fn = ctx.fn(fx, SINK + "poll_flush", "R04.4")
    if fn is None:
        return
    take = [c for c in fn.calls(r"option::Option(<.*>)?::take$") if ".pending_out_frame" in fn.origin(c.args[0])]
    pop = [c for c in fn.calls(r"VecDeque(<.*>)?::pop_front$") if ".pending_out_frames" in fn.origin(c.args[0])]
    ctx.anchor("R04.4", "poll_flush: pending_out_frame.take() / pending_out_frames.pop_front()", min(len(take), len(pop)), 1, cfg=fx.cfg)
    pws = [c for c in fn.calls(r"AsyncWrite::poll_write$")]
    ctx.anchor("R04.4", "poll_flush: transport poll_write (%s)" % fx.cfg, len(pws), 1 if fx.cfg == "default" else 4, cfg=fx.cfg)
    exits = dict(fn.exits())
    done = [n for n, sh in exits.items() if not all(s.startswith("Pending") or s.startswith("Ready.Err") for s in sh)]
    ctx.anchor("R04.4", "poll_flush: completing exit", len(done), 1, cfg=fx.cfg)
    if take and pop:
        for what, c in (("pending_out_frame", take[0]), ("pending_out_frames", pop[0])):
            sws = [sw for sw in fn.discr_switches() if sw[1][0] in fn.copies_of(c.dest[0]) and len(sw[1]) == 1]
            ok = bool(sws) and all(fn.only_via(n, sws[0][0], fn.variant_edges(sws[0], "None")) for n in done)
            ctx.ob("R04.4", "poll_flush/Ok-only-with-%s-empty" % what, ok, site=fn.site(done[0]) if done else fn.site(fn.entry), cfg=fx.cfg,
                   detail="a completing return must lie behind the None edge of %s: otherwise send()/flush() report success with data still queued" % what)
    if take and pop:
        # a new frame is taken from the queue only when no partially written frame is stashed (otherwise a frame is dropped
        # or the order changes)
        tsw = [sw for sw in fn.discr_switches() if sw[1][0] in fn.copies_of(take[0].dest[0]) and len(sw[1]) == 1]
        ok = bool(tsw) and all(fn.only_via(p.node, tsw[0][0], fn.variant_edges(tsw[0], "None")) for p in pop)
        ctx.ob("R04.4", "poll_flush/next-frame-popped-only-if-nothing-stashed", ok, site=fn.site(pop[0].node), cfg=fx.cfg,
               detail="pending_out_frames.pop_front() must lie behind the None edge of pending_out_frame.take()")
        # the frame written is the stashed one or the popped one
        for i, pw in enumerate(pws[:1]):
            rs = guards.rootstrs(fn, pw.args[2]) if len(pw.args) > 2 else set()
            ctx.ob("R04.4", "poll_flush/writes-the-stashed-or-popped-frame", any("Option::take" in x for x in rs) and any("pop_front" in x for x in rs), site=fn.site(pw.node), cfg=fx.cfg, detail=str(sorted(x for x in rs if "call:" in x))[:300])
    for i, pw in enumerate(pws):
        cuts = refine_cuts(fn, pw, ["Pending"])
        r = fn.reach([pw.node], cut=cuts, after=True, stop=[t.node for t in take])
        bad = [fn.site(n) for n in done if n in r]
        st = [n for n, s in fn.assigns() if "".join(s["lhs"][1:]).endswith(".pending_out_frame") and n in r]
        ctx.ob("R04.4", "poll_flush/transport-Pending#%d=>stash-and-not-complete" % i, bool(cuts) and not bad and bool(st), site=fn.site(pw.node), cfg=fx.cfg,
               detail="completing exits reachable after the transport refused the frame: %s; frame stashed: %s" % (bad, bool(st)))
        # partial write: the remainder is stashed (is_empty false edge) and the written part is dropped from the frame
        cuts = refine_cuts(fn, pw, ["Ready", "Ok", "?"])
        r = fn.reach([pw.node], cut=cuts, after=True, stop=[t.node for t in take])
        adv = [c for c in fn.calls(r"Buf>?::advance$") if c.node in r]
        ctx.ob("R04.4", "poll_flush/partial-write#%d-advances-the-frame" % i, bool(adv), site=fn.site(pw.node), cfg=fx.cfg)
    ie = [c for c in fn.calls(r"Bytes::is_empty$")]
    st_all = [n for n, s in fn.assigns() if "".join(s["lhs"][1:]).endswith(".pending_out_frame")]
    if ie:
        # on the not-empty edge the frame is stashed before the loop comes around
        for sw, t, f in fn.bool_tests(ie[0].dest[0]):
            r = fn.reach([n for n, l in fn.succs(sw) if l == f], avoid=st_all)
            ok = not any(c.node in r for c in take)
            ctx.ob("R04.4", "poll_flush/unwritten-remainder-is-kept", ok, site=fn.site(sw), cfg=fx.cfg, detail="a partially written frame must not be dropped")


def r04_6(ctx, fx):
    """receiver, fixed-size frames: the Identity arm of Stream::poll_next yields the whole buffer of payload_size bytes - only once
    `offset == payload_size`, and anything that shortens the yielded buffer is sized by the codec's payload_size, not by the count of
    the last read (a frame that arrives in several reads would otherwise be delivered truncated)"""
    fn = None
    for k in fx.find(r"substream::Substream as futures::Stream>::poll_next$"):
        fn = fx.fn(k)
    if fn is None:
        ctx.anchor("R04.6", "Stream::poll_next", 0, 1, cfg=fx.cfg)
        return
    csw = [sw for sw in fn.discr_switches() if sw[2] and sw[2].endswith("ProtocolCodec")]
    if not csw:
        ctx.anchor("R04.6", "poll_next: match on codec", 0, 1, cfg=fx.cfg)
        return
    arm = arm_nodes(fn, csw[0], "Identity") - arm_nodes(fn, csw[0], "UnsignedVarint")
    takes = [c for c in fn.calls(r"mem::replace$") if c.node in arm and ".read_buffer" in fn.origin(c.args[0])]
    ctx.anchor("R04.6", "poll_next/Identity: read_buffer taken out", len(takes), 1, cfg=fx.cfg)
    for t in takes:
        holders = fn.copies_of(t.dest[0]) | {t.dest[0]}
        for c in fn.calls(r"BytesMut::(truncate|split_to|split_off|resize|advance|set_len|clear)$|Buf::advance$"):
            rl = ref_local(fn, c.args[0])
            if c.node in arm and rl in holders:
                k = bound_kind(fn, c.args[1]) if len(c.args) > 1 else None
                ctx.ob("R04.6", "poll_next/Identity/%s-of-the-frame-sized-by-payload_size" % c.name.rsplit("::", 1)[-1], k == "identity", site=fn.site(c.node), cfg=fx.cfg,
                       detail="argument origin %s" % ([fn.origin(a) for a in c.args[1:]]))
        # yielded only when the offset reached payload_size
        is_q = lambda f, o: re.search(r"\.offset$", f.origin(o)) is not None
        is_b = lambda f, o: bound_kind(f, o) == "identity"
        eq = {(sw, lab) for sw, lab, rel, cn in guards.edge_facts(fn, is_q, is_b) if rel == "=="}
        ctx.ob("R04.6", "poll_next/Identity/frame-yielded-only-when-offset==payload_size", bool(eq) and t.node not in fn.reach([fn.entry], cut=eq), site=fn.site(t.node), cfg=fx.cfg)
        # the offset advances by what was read
        adv = [n for n, s_ in fn.assigns() if n in arm and "".join(str(x) for x in s_["lhs"][1:]).endswith(".offset") and s_["rv"]["r"] == "use" and fn.const_value(s_["rv"]["o"]) != 0]
        ok = bool(adv) and all(any(x.endswith("ReadBuf::filled") for x in guards.rootstrs(fn, fn.stmt(n)["rv"]["o"])) for n in adv)
        ctx.ob("R04.6", "poll_next/Identity/offset-advances-by-the-bytes-read", ok, site=fn.site(adv[0]) if adv else fn.site(t.node), cfg=fx.cfg)


def r04_7(ctx, fx):
    """closing does not lose accepted frames: in Sink::poll_close and Substream::close the transport is shut down only after the
    frames accepted by start_send were handed over - behind a completed flush, or on the edges where `pending_out_frame` is None and
    `pending_out_frames` is empty.  (`feed(msg); close()` and `stream.forward(sink)` return Ok; without this the peer sees a clean end
    of stream and no message.)"""
    n = 0
    for key in sorted(fx.find(r"^<substream::Substream as futures::Sink<bytes::Bytes>>::poll_close$|^substream::Substream::close::\{closure#0\}$")):
        fn = fx.fn(key)
        n += 1
        ctx.bodies.add((fx.cfg, key))
        shut = [c.node for c in fn.calls(r"poll_shutdown$|AsyncWriteExt::shutdown$|AsyncWrite>?::poll_close$|SendStream::finish$|::poll_close$")
                if "Sink" not in c.name]
        flush = [c for c in fn.calls(r"Sink(<.*>)?>?::poll_flush$|SinkExt::flush$")]
        e1, e2 = set(), set()
        for c in fn.calls(r"option::Option(<.*>)?::is_some$|option::Option(<.*>)?::is_none$"):
            if "pending_out_frame" in fn.recv(c) and "pending_out_frames" not in fn.recv(c):
                for sw, t, f in fn.bool_tests(c.dest[0]):
                    e1.add((sw, f if c.name.endswith("is_some") else t))
        for c in fn.calls(r"VecDeque(<.*>)?::is_empty$"):
            if "pending_out_frames" in fn.recv(c):
                for sw, t, f in fn.bool_tests(c.dest[0]):
                    e2.add((sw, t))
        fl = [c.node for c in flush]
        if not shut:
            ctx.ob("R04.7", "%s/transport-shutdown-site-found" % short(key), False, site=fn.site(fn.entry), cfg=fx.cfg)
            continue
        always = not any(x in fn.reach([fn.entry], avoid=fl) for x in shut) and bool(fl)
        guarded = bool(fl) and bool(e1) and bool(e2) and not any(x in fn.reach([fn.entry], avoid=fl, cut=e1) for x in shut) \
            and not any(x in fn.reach([fn.entry], avoid=fl, cut=e2) for x in shut)
        ctx.ob("R04.7", "%s/shutdown-only-after-flush-or-with-nothing-queued" % short(key), always or guarded, site=fn.site(shut[0]), cfg=fx.cfg,
               detail="flush calls: %d; unconditional flush: %s; guarded by both queue tests: %s" % (len(fl), always, guarded))
    ctx.anchor("R04.7", "close paths of Substream", n, 2, cfg=fx.cfg)


def r04_10(ctx, fx):
    """both send APIs feed one ordered stream: `send_framed` writes straight to the transport, while the Sink keeps accepted frames in
    `pending_out_frames` / a partially written `pending_out_frame` until a flush completes.  Every direct transport write of
    send_framed comes after a completed flush of the Sink, or on the edges where nothing is queued - otherwise `feed(a);
    send_framed(b)` delivers b before a, and after a cancelled (timed out) Sink send the new frame lands in the middle of the
    half-written one and the framing is lost for good."""
    if True:
        key = "substream::Substream::send_framed::{closure#0}"
        fn = ctx.fn(fx, key, "R04.10")
        if fn is None:
            return
        writes = [c.node for c in fn.calls(r"Substream::send_\w+_payload$|write_all(_chunks)?$|AsyncWriteExt::write\w*$|AsyncWrite>?::poll_write$|SendStream::write\w*$")
                  if not c.from_macro]
        ctx.anchor("R04.10", "send_framed: direct transport writes", len(writes), 2, cfg=fx.cfg)
        flush = [c.node for c in fn.calls(r"Sink(<.*>)?>?::poll_flush$|SinkExt::flush$")]
        e1, e2 = set(), set()
        for c in fn.calls(r"option::Option(<.*>)?::is_some$|option::Option(<.*>)?::is_none$"):
            if "pending_out_frame" in fn.recv(c) and "pending_out_frames" not in fn.recv(c):
                for sw, t, f in fn.bool_tests(c.dest[0]):
                    e1.add((sw, f if c.name.endswith("is_some") else t))
        for c in fn.calls(r"VecDeque(<.*>)?::is_empty$"):
            if "pending_out_frames" in fn.recv(c):
                for sw, t, f in fn.bool_tests(c.dest[0]):
                    e2.add((sw, t))
        # a flush that is awaited: the write is reached only over the Ready / Continue continuation (the await loop re-polls on Pending)
        always = bool(flush) and not any(x in fn.reach([fn.entry], avoid=flush) for x in writes)
        guarded = bool(flush) and bool(e1) and bool(e2) and not any(x in fn.reach([fn.entry], avoid=flush, cut=e1) for x in writes) \
            and not any(x in fn.reach([fn.entry], avoid=flush, cut=e2) for x in writes)
        ctx.ob("R04.10", "send_framed/direct-write-only-after-the-sink-queue-is-flushed-or-empty", bool(writes) and (always or guarded), site=fn.site(writes[0]) if writes else fn.site(fn.entry), cfg=fx.cfg,
               detail="flush calls: %d; unconditional flush: %s; guarded by both queue tests (pending_out_frame None: %d edges, pending_out_frames empty: %d edges): %s" % (len(flush), always, len(e1), len(e2), guarded))


def r04_8(ctx, fx):
    """after a framing error the receiver does not continue with stale state: every `ReadFailure` that Stream::poll_next produces for a
    malformed / oversized length is preceded on all paths by a store that ends the stream (a flag that poll_next tests on entry) or
    that resets the partial-length offset.  Polling again after the error is legal for a Stream; with the stale `offset` the next poll
    slices `size_vec[..offset]` out of range - a remote-triggered panic."""
    fn = None
    for k in fx.find(r"substream::Substream as futures::Stream>::poll_next$"):
        fn = fx.fn(k)
    if fn is None:
        return
    errs = [n for n, s_ in fn.aggregates(r"SubstreamError$", "ReadFailure")]
    ctx.anchor("R04.8", "poll_next: ReadFailure aggregates", len(errs), 1, cfg=fx.cfg)
    markers = {}
    for n, s_ in fn.assigns():
        l = "".join(str(x) for x in s_["lhs"][1:])
        m = re.search(r"\.(\w+)$", l)
        if m and len(s_["lhs"]) >= 2 and (
                (s_["rv"]["r"] == "agg" and s_["rv"].get("var") and not s_["rv"].get("ops")) or
                (s_["rv"]["r"] == "use" and "k" not in s_["rv"]["o"] and len(fn.shape(s_["rv"]["o"])) == 1 and all(re.match(r"^[A-Z]\w*$", x) for x in fn.shape(s_["rv"]["o"])))):
            # the same flag as a two-variant private enum (`this.framing = Framing::Lost`): a constant stored in a field of self
            markers.setdefault(m.group(1), []).append(n)
            continue
        if not m or s_["rv"]["r"] != "use":
            continue
        v = fn.const_value(s_["rv"]["o"])
        if (m.group(1) == "offset" and v == 0) or (fn.local_ty(s_["lhs"][0]) and v == 1 and s_["rv"]["o"].get("k", {}).get("ty") == "bool"):
            markers.setdefault(m.group(1), []).append(n)
    tested = set()
    for sw in [x for x in fn.all_nodes() if fn.is_term(x) and fn.term(x[0])["k"] == "switch"]:
        o = fn.origin(fn.term(sw[0])["o"])
        m = re.search(r"\.(\w+)$", o)
        if m:
            tested.add(m.group(1))
    for sw in fn.discr_switches():
        m = re.search(r"\.(\w+)$", fn.origin({"c": list(sw[1])}))
        if m:
            tested.add(m.group(1))
    for c in fn.calls(r"::(eq|ne)$"):
        if c.dest and fn.bool_tests(c.dest[0]):
            for a in c.args:
                m = re.search(r"\.(\w+)$", fn.origin(a))
                if m:
                    tested.add(m.group(1))
    for i, e in enumerate(errs):
        ok = False
        why = []
        for fld, nodes in markers.items():
            dom = e not in fn.reach([fn.entry], avoid=nodes)
            if fld == "offset":
                # the reset must lie between the failed decode and the error, i.e. on every path into the error
                ok = ok or dom and False
            else:
                ok = ok or (dom and fld in tested)
            why.append("%s: dominates=%s tested=%s" % (fld, dom, fld in tested))
        ctx.ob("R04.8", "poll_next/ReadFailure#%d-ends-the-stream" % i, ok, site=fn.site(e), cfg=fx.cfg, detail="; ".join(why) or "no marker store found")


def r04_9(ctx, fx):
    """sibling of the fixed-size sender predicate: the tokio-util Encoder of codec::identity accepts a message exactly when its length
    equals the frame size (a shorter message would be merged with the next one by the fixed-size decoder)"""
    fn = ctx.fn(fx, "<codec::identity::Identity as tokio_util::codec::Encoder<bytes::Bytes>>::encode", "R04.9")
    if fn is None:
        return
    is_q = lambda f, o: any(x.endswith("Bytes::len") for x in guards.rootstrs(f, o)) and not guards.has_root(f, o, r"\.payload_len")
    is_b = lambda f, o: guards.has_root(f, o, r"\.payload_len") and not any(x.endswith("Bytes::len") for x in guards.rootstrs(f, o))
    facts = guards.edge_facts(fn, is_q, is_b)
    rels = sorted({rel for sw, lab, rel, cn in facts})
    ctx.ob("R04.9", "Identity::encode/accepts-exactly-len==payload_len", rels == ["!=", "=="], site=fn.site(fn.entry), cfg=fx.cfg,
           detail="facts on the edges of the length comparison: %s" % rels)
    eq = {(sw, lab) for sw, lab, rel, cn in facts if rel == "=="}
    oks = [n for n, sh in fn.exits() if any(x.startswith("Ok") for x in sh)]
    ctx.ob("R04.9", "Identity::encode/Ok-only-on-the-equal-edge", bool(eq) and bool(oks) and all(n not in fn.reach([fn.entry], cut=eq) for n in oks), site=fn.site(fn.entry), cfg=fx.cfg)


def r04_5(ctx, fx):
    for key, nm in ((SINK + "poll_ready", "poll_ready"), (SINK + "poll_flush", "poll_flush"), (STREAM, "poll_next"), (SINK + "poll_close", "poll_close")):
        fn = ctx.fn(fx, key, "R04.5")
        if fn is None:
            continue
        bad, npolls, nwakers, npend = k11.pending_without_waker(fn)
        ctx.ob("R04.5", "%s/Pending-only-after-inner-Pending" % nm, not bad, site=fn.site(fn.entry), cfg=fx.cfg,
               detail="inner polls %d, Pending exits %d; unguarded: %s" % (npolls, npend, [fn.path_sites(p) for _, p in bad]))


def run(ctx):
    for cfg in ctx.configs():
        fx = ctx.facts(cfg)
        if cfg == "default":
            r04_1(ctx, fx)
            r04_3(ctx, fx)
        r04_2(ctx, fx)
        r04_4(ctx, fx)
        r04_6(ctx, fx)
        r04_7(ctx, fx)
        r04_10(ctx, fx)
        if cfg == "default":
            r04_8(ctx, fx)
            r04_9(ctx, fx)
        if cfg == "default":
            r04_5(ctx, fx)
    ctx.assume("tokio write_all / write_all_chunks write the whole buffer or fail; the transports' poll_write registers the waker when Pending")
