"""C13 - Every request gets exactly one terminal outcome (obligation rules on RequestResponseProtocol).

R13.1 no silent overwrite of an obligation stored under a non-fresh key (pending_dials keyed by PeerId)
R13.2 removing an obligation from a container implies a discharge on every path
R13.3 on_send_request returns Err or stores the request; handle_user_command reports the failure on Err
R13.4 the inbound-request bound guards the push into pending_inbound_requests
R13.5 outbound future yields the captured request id on every arm
"""
import re
from paths import refine_cuts, region_uncovered
from common import for_loops, loop_left_early, exit_desc, short, field_calls, park_nodes, removal_discharged, derives_from_field
import guards
from common import nested_closures

EXPLANATION = ("Obligation-container rules over all MIR CFG paths of RequestResponseProtocol: each request context taken out of "
               "pending_dials / pending_outbound / active is, on every path, turned into an event to the user or moved into another "
               "container; inserts under non-fresh keys must not silently displace a stored request; the inbound bound guards the "
               "growth site.")

RR = "protocol::request_response::RequestResponseProtocol::"


def discharge_nodes(fn):
    out = set()
    for c in fn.calls(r"mpsc::(bounded::)?Sender::send$"):
        if any("InnerRequestResponseEvent" in a for a in c.f.get("args", [])):
            out.add(c.node)
    for c in fn.calls(r"RequestResponseProtocol::report_request_failure$"):
        out.add(c.node)
    for c in field_calls(fn, r"HashMap::insert$", "pending_outbound"):
        out.add(c.node)
    for c in fn.calls(r"(FuturesStream|FuturesUnordered)::push$"):
        if ".pending_inbound" in fn.recv(c):
            out.add(c.node)
    return out


def r13_1(ctx, fx):
    n = 0
    for key in sorted(fx.find(r"^protocol::request_response::RequestResponseProtocol::")):
        fn = fx.fn(key)
        for i, c in enumerate(park_nodes(fn, "pending_dials")):
            n += 1
            ctx.bodies.add((fx.cfg, key))
            if not c.matches(r"HashMap::insert$"):
                ctx.ob("R13.1", "%s/pending_dials-park#%d:appends" % (short(key), i), True, site=fn.site(c.node), cfg=fx.cfg,
                       detail="request parked by appending to the per-peer collection (%s)" % c.name)
                continue
            # (a) displaced value inspected: the call's destination is read by something other than a drop
            used = False
            d = c.dest[0]
            for node in fn.all_nodes():
                x = fn.at(node)
                if fn.is_term(node):
                    if x["k"] == "drop":
                        continue
                    if x["k"] == "switch" and op_place_is(x["o"], d):
                        used = True
                    if x["k"] == "call" and any(op_place_is(a, d) for a in x["args"]):
                        used = True
                else:
                    if mentions(x["rv"], d):
                        used = True
            # (b) a negative lookup on the same map dominates the insert
            looks = [l.node for l in field_calls(fn, r"HashMap::(contains_key|get|get_mut|entry|remove)$", "pending_dials")]
            guarded_ = bool(looks) and c.node not in fn.reach([fn.entry], avoid=looks)
            ctx.ob("R13.1", "%s/pending_dials.insert#%d" % (short(key), i), used or guarded_, site=fn.site(c.node), cfg=fx.cfg,
                   detail="insert into pending_dials (keyed by PeerId, not fresh) neither inspects the displaced RequestContext nor is "
                          "guarded by a lookup on the same map: a second request to a peer that is still being dialed silently replaces the "
                          "first, which then never gets a terminal event")
    ctx.anchor("R13.1", "sites parking a request in pending_dials", n, 1, cfg=fx.cfg)


def op_place_is(o, local):
    p = o.get("c") or o.get("m")
    return p is not None and p[0] == local


def mentions(rv, local):
    for k in ("o", "a", "b"):
        if k in rv and isinstance(rv[k], dict) and op_place_is(rv[k], local):
            return True
    if "p" in rv and rv["p"][0] == local:
        return True
    for o in rv.get("ops", []):
        if op_place_is(o, local):
            return True
    return False


REMOVALS = [
    # (method, call regex, field, chain when something was taken)
    ("on_dial_failure", r"HashMap::remove$", "pending_dials", ["Some", "?"]),
    ("on_connection_established", r"HashMap::remove$", "pending_dials", ["Some", "?"]),
    ("on_substream_open_failure", r"HashMap::remove$", "pending_outbound", ["Some", "?"]),
    ("on_outbound_substream", r"HashMap::remove$", "pending_outbound", ["Some", "?"]),
    ("on_substream_event", r"HashSet::remove$", "active", ["const:1"]),
]


def r13_2(ctx, fx):
    found = 0
    for meth, rx, field, chain in REMOVALS:
        key = RR + meth + "::{closure#0}"
        fn = ctx.fn(fx, key, "R13.2")
        if fn is None:
            continue
        rems = field_calls(fn, rx, field)
        ctx.anchor("R13.2", "%s: %s.remove" % (meth, field), len(rems), 1, cfg=fx.cfg)
        dis = discharge_nodes(fn)
        for i, rm in enumerate(rems):
            found += 1
            cuts = refine_cuts(fn, rm, chain)
            exits = dict(fn.exits())
            allowed = set()
            if meth == "on_substream_event":
                # documented: a request cancelled by the user yields no event. The exit must be guarded by the
                # RequestResponseError::Canceled discriminant edge.
                r = fn.reach([rm.node], avoid=dis, cut=cuts, after=True)
                for sw in fn.discr_switches():
                    if sw[2] and sw[2].endswith("RequestResponseError"):
                        for lab in fn.variant_edges(sw, "Canceled"):
                            for n in exits:
                                if n in r and fn.only_via(n, sw[0], [lab], starts=[rm.node]):
                                    allowed.add(n)
            bad = removal_discharged(fn, rm, chain, dis, allowed_exits=allowed)
            seen = set()
            for n, path in bad:
                d = exit_desc(fn, n, exits[n], path)
                if d in seen:
                    continue
                seen.add(d)
                ctx.ob("R13.2", "%s/%s.remove#%d/%s" % (meth, field, i, d), False, site=fn.site(n), cfg=fx.cfg,
                       detail="request context removed from %s at %s but this exit is reached without an event to the user or a move into "
                              "another container; witness %s" % (field, fn.site(rm.node), fn.path_sites(path)))
            if not seen:
                ctx.ob("R13.2", "%s/%s.remove#%d:discharged" % (meth, field, i), True, site=fn.site(rm.node), cfg=fx.cfg,
                       detail="cancel-exits allowed: %d" % len(allowed))
    # on_connection_closed: loop over context.active sends RequestFailed for each id
    key = RR + "on_connection_closed::{closure#0}"
    fn = ctx.fn(fx, key, "R13.2")
    if fn is not None:
        dis = discharge_nodes(fn)
        rems = field_calls(fn, r"HashMap::remove$", "peers")
        nexts = [c for c in fn.calls(r"Iterator::next$") if any("RequestId" in a for a in c.f.get("args", []))]
        ctx.anchor("R13.2", "on_connection_closed: peers.remove", len(rems), 1, cfg=fx.cfg)
        ctx.anchor("R13.2", "on_connection_closed: loop over active RequestIds", len(nexts), 1, cfg=fx.cfg)
        if rems and nexts:
            found += 1
            rm, nx = rems[0], nexts[0]
            cuts = refine_cuts(fn, rm, ["Some", "?"])
            # every path from the Some edge to an exit iterates the active set
            p = fn.witness_path([rm.node], [n for n, _ in fn.exits()] + fn.return_nodes(), avoid=[nx.node], cut=cuts, after=True)
            ctx.ob("R13.2", "on_connection_closed/active-requests-are-iterated", p is None, site=fn.site(rm.node), cfg=fx.cfg,
                   detail="exit without iterating context.active: %s" % (fn.path_sites(p) if p else ""))
            # inside the loop: from the Some edge of next(), the send precedes the next iteration / exit
            cuts2 = refine_cuts(fn, nx, ["Some", "?"])
            p2 = region_uncovered(fn, nx.node, dis, cuts=cuts2)
            ctx.ob("R13.2", "on_connection_closed/each-active-request-gets-RequestFailed", p2 is None, site=fn.site(nx.node), cfg=fx.cfg,
                   detail="loop iteration without sending RequestFailed: %s" % (fn.path_sites(p2) if p2 else ""))
    ctx.anchor("R13.2", "removal sites", found, 6, cfg=fx.cfg)


def r13_3(ctx, fx):
    fn = ctx.fn(fx, RR + "on_send_request", "R13.3")
    if fn is not None:
        stores = {c.node for c in park_nodes(fn, "pending_dials")} | {c.node for c in park_nodes(fn, "pending_outbound")}
        ctx.anchor("R13.3", "on_send_request: store sites", len(stores), 2, cfg=fx.cfg)
        okexits = [n for n, sh in fn.exits(r"^Ok")]
        r = fn.reach([fn.entry], avoid=stores)
        bad = [n for n in okexits if n in r]
        ctx.ob("R13.3", "on_send_request/Ok-implies-stored", not bad, site=fn.site(fn.entry), cfg=fx.cfg,
               detail="Ok exits reachable without storing the request: %s" % [fn.site(n) for n in bad])
        # ... and Err implies NOT stored (the caller reports RequestFailed for an Err: a request that also stays queued would get
        # a second terminal outcome later): no Err exit is reachable after a store unless the stored request is taken out again
        errexits = [n for n, sh in fn.exits() if any(not x.startswith("Ok") for x in sh)]
        unstore = {c.node for c in field_calls(fn, r"HashMap::remove$", "pending_dials")} | {c.node for c in field_calls(fn, r"HashMap::remove$", "pending_outbound")} | \
                  {c.node for c in fn.calls(r"(Vec|VecDeque)(<.*>)?::(pop|pop_back|clear)$")}
        bad2 = []
        for st in stores:
            r2 = fn.reach([st], after=True, avoid=unstore)
            bad2 += [fn.site(n) for n in errexits if n in r2]
        ctx.ob("R13.3", "on_send_request/Err-implies-not-stored", not bad2, site=fn.site(fn.entry), cfg=fx.cfg,
               detail="Err exits reachable after the request was parked in pending_dials / pending_outbound: %s" % sorted(set(bad2)))
        # the active set gets the request id on the connected path
        act = field_calls(fn, r"HashSet::insert$", "active")
        ctx.ob("R13.3", "on_send_request/active-insert-before-pending_outbound", bool(act) and all(
            c.node not in fn.reach([fn.entry], avoid=[a.node for a in act]) for c in field_calls(fn, r"HashMap::insert$", "pending_outbound")),
            site=fn.site(fn.entry), cfg=fx.cfg, detail="pending_outbound.insert must be preceded by active.insert(request_id)")
    fn = ctx.fn(fx, RR + "handle_user_command::{closure#0}", "R13.3")
    if fn is not None:
        sends = fn.calls(r"RequestResponseProtocol::on_send_request$")
        ctx.anchor("R13.3", "handle_user_command: on_send_request calls", len(sends), 2, cfg=fx.cfg)
        rep = {c.node for c in fn.calls(r"RequestResponseProtocol::report_request_failure$")}
        for i, s in enumerate(sends):
            cuts = refine_cuts(fn, s, ["Err", "?"])
            p = fn.witness_path([s.node], fn.return_nodes() + [n for n, _ in fn.exits()], avoid=rep, cut=cuts, after=True)
            ctx.ob("R13.3", "handle_user_command/send#%d:Err=>report_request_failure" % i, p is None, site=fn.site(s.node), cfg=fx.cfg,
                   detail="Err from on_send_request not reported: %s" % (fn.path_sites(p) if p else ""))


def r13_4(ctx, fx):
    fn = ctx.fn(fx, RR + "on_inbound_substream::{closure#0}", "R13.4")
    if fn is None:
        return
    pushes = [c for c in fn.calls(r"(FuturesStream|FuturesUnordered)::push$") if ".pending_inbound_requests" in fn.recv(c)]
    ctx.anchor("R13.4", "pending_inbound_requests.push", len(pushes), 1, cfg=fx.cfg)
    is_b = lambda f, o: guards.has_root(f, o, r"\.max_concurrent_inbound_requests")
    is_q = lambda f, o: guards.has_root(f, o, r"call:.*(FuturesStream|FuturesUnordered)::len$") and not guards.has_root(f, o, r"\.max_concurrent_inbound_requests")
    # on the Some(max) edge only
    some_cut = set()
    for sw in fn.discr_switches():
        if "max_concurrent_inbound_requests" in "".join(str(x) for x in sw[1]):
            for lab in fn.variant_edges(sw, "None"):
                some_cut.add((sw[0], lab))
    ctx.anchor("R13.4", "match on max_concurrent_inbound_requests", len(some_cut), 1, cfg=fx.cfg)
    for i, p in enumerate(pushes):
        # with the None edge removed, the push must be guarded by in_flight < max
        facts = guards.edge_facts(fn, is_q, is_b)
        ok = False
        desc = "no comparison found"
        by = {}
        for sw, lab, rel, cn in facts:
            by.setdefault(cn, []).append((sw, lab, rel))
        for cn, es in by.items():
            good = {(sw, lab) for sw, lab, rel in es if rel in guards.IMPLIES["<"]}
            r = fn.reach([fn.entry], cut=good | some_cut)
            desc = "cmp@%s facts=%s" % (fn.site(cn), sorted({rel for _, _, rel in es}))
            if good and p.node not in r:
                ok = True
                break
        ctx.ob("R13.4", "on_inbound_substream/push#%d:guarded-by-in_flight<max" % i, ok, site=fn.site(p.node), cfg=fx.cfg,
               detail="when a maximum is configured the push must lie behind `in_flight < max` (%s)" % desc)
        # the compared quantity counts the protocol-wide containers: the one this push grows (requests being read) and the one holding
        # requests waiting for the user's response - not a per-peer subset of them
        for cn in by:
            qs = set()
            at = fn.at(cn)
            ops = [at["rv"]["a"], at["rv"]["b"]] if "rv" in at else list(fn.call_at(cn).args)
            for o in ops:
                if is_q(fn, o):
                    qs |= guards.rootstrs(fn, o)
            grown = re.search(r"\.(\w+)$", fn.recv(p).rstrip("*"))
            need = {grown.group(1) if grown else "pending_inbound_requests", "pending_outbound_responses"}
            have = {n_ for n_ in need if any(re.search(r"^param:_1.*\." + n_ + r"\b", x) for x in qs)}
            ctx.ob("R13.4", "on_inbound_substream/push#%d:bound-counts-%s" % (i, "+".join(sorted(need))), have == need, site=fn.site(cn), cfg=fx.cfg,
                   detail="the quantity compared with the maximum must be rooted in the protocol-wide containers %s; roots %s" % (sorted(need), sorted(qs)[:12]))


def r13_7(ctx, fx):
    """loops over request contexts run to completion: in the handlers that settle several requests at once (queued for a dial, active on
    a closed connection) no `for` loop over them is left by a `break`, and the only early exits from a loop body are error returns.  A
    request left in a consumed iterator never gets a terminal event."""
    n = 0
    for key in sorted(fx.find(r"^protocol::request_response::RequestResponseProtocol::on_(connection_established|connection_closed|dial_failure)::\{closure#0\}$")):
        fn = fx.fn(key)
        ctx.bodies.add((fx.cfg, key))
        for i, lp in enumerate(for_loops(fn)):
            n += 1
            w = loop_left_early(fn, lp)
            ctx.ob("R13.7", "%s/loop#%d-runs-to-completion" % (short(key), i), w is None, site=fn.site(lp[0].node), cfg=fx.cfg,
                   detail="code after the loop reachable from the loop body without asking the iterator again: %s" % (fn.site(w) if w else None))
            c, sw, none_l, some_l = lp
            body = fn.reach([x for x, l in fn.succs(sw[0]) if l in some_l], avoid=[c.node])
            quiet = [fn.site(x) for x, sh in fn.exits() if x in body and not all(s_ == "residual" or s_.startswith("Err") for s_ in sh)
                     and x not in fn.reach([y for y, l in fn.succs(sw[0]) if l in none_l])]
            ctx.ob("R13.7", "%s/loop#%d-no-silent-return-inside" % (short(key), i), not quiet, site=fn.site(lp[0].node), cfg=fx.cfg, detail=str(quiet))
    ctx.anchor("R13.7", "for loops over request contexts", n, 4, cfg=fx.cfg)


def r13_8(ctx, fx):
    """a request waiting for its substream cannot wait forever.  A pending outbound open is answered by the connection task (R08.5)
    unless that task dies; when the peer has a second connection the protocol is not told about the death (TransportService promotes
    the secondary silently), so either (i) the protocol arms its own timer when it files the request under `pending_outbound`, or
    (ii) TransportService fails the opens that were pending on a closed connection while the peer stays connected (a
    SubstreamOpenFailure produced in on_connection_closed)."""
    timers = False
    for key in sorted(fx.find(r"^protocol::request_response::RequestResponseProtocol::(on_send_request|on_connection_established)::\{closure#0\}$")):
        fn = fx.fn(key)
        ins = [c for c in fn.calls(r"HashMap(<.*>)?::insert$") if ".pending_outbound" in fn.recv(c) and ".pending_outbound_" not in fn.recv(c)]
        tm = fn.calls(r"tokio::time::(sleep|timeout|sleep_until)$|futures_timer::Delay::new$")
        if ins and tm:
            timers = True
    fn = ctx.fn(fx, "protocol::transport_service::TransportService::on_connection_closed", "R13.8")
    fails = False
    if fn is not None:
        holders = [fn] + nested_closures(fx, fn)
        fails = any(h.aggregates(r"TransportEvent$", "SubstreamOpenFailure") for h in holders)
    ctx.ob("R13.8", "pending-outbound-open-is-bounded-when-its-connection-dies-beside-a-second-one", timers or fails, cfg=fx.cfg,
           site=fn.site(fn.entry) if fn is not None else "",
           detail="(i) timer armed with pending_outbound.insert: %s; (ii) TransportService::on_connection_closed fails the opens pending on the closed connection: %s" % (timers, fails))


def r13_5(ctx, fx):
    # the future pushed in on_outbound_substream yields tuples whose request id is the captured one
    keys = fx.find(r"^protocol::request_response::RequestResponseProtocol::on_outbound_substream::\{closure#0\}::\{closure#\d+\}$")
    bodies = [fx.fn(k) for k in keys if fx.fn(k).is_coroutine]
    if not bodies:
        # the async block moved into an `async fn` of its own (a function the baseline does not have) that on_outbound_substream calls
        # to make the future it files
        outer = fx.fn("protocol::request_response::RequestResponseProtocol::on_outbound_substream::{closure#0}")
        from facts import norm
        made = {norm(s_["rv"].get("closure") or "") for n_, s_ in (outer.assigns() if outer is not None else []) if s_["rv"]["r"] == "agg" and s_["rv"].get("adt") == "{coroutine}"}
        made |= {(c.name or "") + "::{closure#0}" for c in (outer.calls() if outer is not None else [])}
        for k in sorted(getattr(fx, "new_fns", ())):
            if norm(k) in made and fx.fn(k) is not None and fx.fn(k).is_coroutine:
                bodies.append(fx.fn(k))
    ctx.anchor("R13.5", "outbound request future body", len(bodies), 1, cfg=fx.cfg)
    for fn in bodies:
        ctx.bodies.add((fx.cfg, fn.key))
        n = 0
        bad = []
        for node, s in fn.assigns():
            rv = s["rv"]
            if rv["r"] == "agg" and rv["adt"] == "(tuple)" and len(rv["ops"]) == 4 and "RequestId" in fn.locals[s["lhs"][0]]:
                n += 1
                rs = guards.rootstrs(fn, rv["ops"][1])
                if not all(r.startswith("param:_1") for r in rs):
                    bad.append((fn.site(node), sorted(rs)))
            elif rv["r"] == "agg" and "request_id" in (rv.get("fields") or []) and rv["adt"].startswith("protocol::request_response::"):
                # the same result as a private struct built once at the end of the future (every branch then yields only the outcome)
                n += 5
                rs = guards.rootstrs(fn, rv["ops"][rv["fields"].index("request_id")])
                if not all(r.startswith("param:_1") for r in rs):
                    bad.append((fn.site(node), sorted(rs)))
        ctx.ob("R13.5", "%s/result-tuples-carry-captured-request-id" % short(fn.key), n >= 5 and not bad, site=fn.site(fn.entry), cfg=fx.cfg,
               detail="result tuples: %d (floor 5), tuples whose request id is not the captured one: %s" % (n, bad))


def terminal_event_nodes(fn):
    out = set()
    for c in fn.calls(r"mpsc::(bounded::)?Sender::send$"):
        if any("InnerRequestResponseEvent" in a for a in c.f.get("args", [])):
            out.add(c.node)
    for c in fn.calls(r"RequestResponseProtocol::report_request_failure$"):
        out.add(c.node)
    return out


def r13_6(ctx, fx):
    """at most one terminal event: a request id that is (still) registered in PeerContext::active will get a RequestFailed when the
    connection closes, so no path may both register the id as active and emit a terminal event (or return Err, which the caller
    turns into RequestFailed) without removing it from `active` in between."""
    n = 0
    for key in sorted(fx.find(r"^protocol::request_response::RequestResponseProtocol::[a-z_]+(::\{closure#0\})?$")):
        fn = fx.fn(key)
        # any call that may add to `.active`: every call on that set except the known readers / removers
        adds = [c.node for c in fn.calls() if re.search(r"\.active($|[^_a-z])", fn.recv(c)) and c.name and "HashSet" in c.name
                and not re.search(r"::(remove|take|contains|get|len|is_empty|iter|into_iter|retain|drain|clear|is_subset|is_superset|is_disjoint)$", c.name)]
        for node, s in fn.aggregates(r"request_response::PeerContext$"):
            rv = s["rv"]
            if "active" in rv.get("fields", []):
                o = rv["ops"][rv["fields"].index("active")]
                pr = fn.producer(o)
                if pr is None or not pr.matches(r"HashSet::new$|Default>?::default$"):
                    adds.append(node)
        if not adds:
            continue
        ctx.bodies.add((fx.cfg, key))
        rem = {c.node for c in field_calls(fn, r"HashSet::remove$", "active")}
        term = terminal_event_nodes(fn)
        err_exits = {x for x, sh in fn.exits(r"^(Err|residual)") if all(t.startswith(("Err", "residual")) for t in sh)}
        for i, a in enumerate(sorted(adds)):
            n += 1
            r = fn.reach([a], avoid=rem, after=True)
            bad = sorted((term | err_exits) & r)
            p = fn.witness_path([a], bad, avoid=rem, after=True) if bad else None
            ctx.ob("R13.6", "%s/active-registration#%d:no-terminal-event-while-active" % (short(key), i), not bad, site=fn.site(a), cfg=fx.cfg,
                   detail="request id registered in PeerContext::active and a terminal event / Err return on the same path without removing it: the request "
                          "would get a second RequestFailed when the connection closes; witness %s" % (fn.path_sites(p) if p else ""))
    ctx.anchor("R13.6", "active registrations", n, 1, cfg=fx.cfg)


def r13_10(ctx, fx):
    """"at most one terminal event": the outcome of a request's substream (response or error) is forwarded to the user only if the
    request is still *active* - `on_substream_event` continues past its guard only over the true edge of `active.remove(&request_id)`
    of the peer's context.  When the connection closed first, on_connection_closed has already reported RequestFailed for every
    active request of the peer and removed the context; a response that was readable by then must not produce a second event."""
    fn = ctx.fn(fx, "protocol::request_response::RequestResponseProtocol::on_substream_event::{closure#0}", "R13.10")
    if fn is None:
        return
    rem = [c for c in fn.calls(r"HashSet(<.*>)?::remove$") if ".active" in fn.recv(c) or any(x.endswith(".active") or ".active" in x for x in guards.rootstrs(fn, c.args[0]))]
    ctx.anchor("R13.10", "on_substream_event: active.remove(request_id)", len(rem), 1, cfg=fx.cfg)
    good = {(sw, t) for c in rem for sw, t, f in fn.bool_tests(c.dest[0])}
    cont = [n for n, sh in fn.exits() if not all(x.startswith("Err") or "from_residual" in x or x == "residual" for x in sh)]
    sends = [c.node for c in fn.calls(r"mpsc::(bounded::)?Sender(<.*>)?::(send|try_send)$|oneshot::Sender(<.*>)?::send$") if not c.from_macro]
    r = fn.reach([fn.entry], cut=good)
    bad = [fn.site(n) for n in cont + sends if n in r]
    ctx.ob("R13.10", "on_substream_event/outcome-forwarded-only-for-an-active-request", bool(good) and not bad, site=fn.site(rem[0].node) if rem else fn.site(fn.entry), cfg=fx.cfg,
           detail="non-error exits / user sends reachable without the true edge of active.remove: %s" % sorted(set(bad))[:6])


def run(ctx):
    fx = ctx.facts("default")
    r13_6(ctx, fx)
    r13_1(ctx, fx)
    r13_2(ctx, fx)
    r13_3(ctx, fx)
    r13_4(ctx, fx)
    r13_5(ctx, fx)
    r13_7(ctx, fx)
    r13_8(ctx, fx)
    r13_10(ctx, fx)
    from common import check_no_dropped_futures
    check_no_dropped_futures(ctx, fx, "R13.9", r"^protocol::request_response::.*::\{closure#0\}(::\{closure#\d+\})*$", "request-response", 6)
    # a request / query parked behind a dial is settled only if the dial's outcome is reported: the transport manager's obligations
    # R05.9 (stated in rules/C05.py) are part of this property's argument and evaluated here too
    import C05
    C05.r05_9(ctx, fx, which=("Reject", "DialPeer"))
