"""C15 - Iterative Kademlia lookups (structural clauses only).

R15.1 a terminal QueryAction leaves next_action only through on_query_succeeded / on_query_failed, which remove the query;
      nothing else removes from QueryEngine.queries
R15.2 the dispatchers over QueryType have no catch-all arm and forward every variant to the same-named context method
R15.4 (K1) an accepted response always feeds the candidate set and marks the responder queried
R15.3 candidate filters never admit a queried peer, a pending peer or the local node
Not decided: termination, closest-set condition, parallelism bound, ordering (value/history reasoning).
"""
import re
from paths import refine_cuts, region_uncovered
from common import nested_closures, map_inserts, short, field_calls
import guards

EXPLANATION = ("Structural necessary conditions of lookup termination: terminal actions are produced only together with the removal of the "
               "query (exactly-one terminal result), dispatch tables over the query kinds are total and agree with the method they forward, "
               "and the candidate filter closures return Some only over the negative edges of the queried / pending / local-node tests.")

QE = "protocol::libp2p::kademlia::query::QueryEngine::"
DISPATCHERS = ["register_response_failure", "register_response", "register_send_failure", "register_send_success", "next_peer_action", "next_action"]
ALT = {"register_response": r"::(register_response|register_response_failure)$"}
# documented no-op arms (all requests of these query kinds are sent when the query is created)
NOOP = {("next_peer_action", "PutRecordToFoundNodes"), ("next_peer_action", "AddProviderToFoundNodes")}


def r15_1(ctx, fx):
    removers = set()
    for key in fx.find(r"^protocol::libp2p::kademlia::query::"):
        fn = fx.fn(key)
        if field_calls(fn, r"HashMap::(remove|remove_entry|clear|retain|drain)$", "queries"):
            removers.add(key)
    allowed = {QE + "on_query_succeeded", QE + "on_query_failed"}
    ctx.ob("R15.1", "queries-removed-only-by-terminal-handlers", removers <= allowed and len(removers) == 2, cfg=fx.cfg,
           detail="bodies removing from QueryEngine.queries: %s" % sorted(removers))
    for m in ("on_query_succeeded", "on_query_failed"):
        fn = ctx.fn(fx, QE + m, "R15.1")
        if fn is None:
            continue
        rm = field_calls(fn, r"HashMap::remove$", "queries")
        r = fn.reach([fn.entry], avoid=[c.node for c in rm])
        bad = [n for n, _ in fn.exits() if n in r]
        ctx.ob("R15.1", "%s/removes-query-on-every-path" % m, bool(rm) and not bad, site=fn.site(fn.entry), cfg=fx.cfg,
               detail="exits without queries.remove: %s" % [fn.site(n) for n in bad])
    fn = ctx.fn(fx, QE + "next_action", "R15.1")
    if fn is None:
        return
    sws = [sw for sw in fn.discr_switches() if sw[2] and sw[2].endswith("query::QueryAction")]
    ctx.anchor("R15.1", "next_action: match on QueryAction", len(sws), 1, cfg=fx.cfg)
    for var, handler in (("QuerySucceeded", "on_query_succeeded"), ("QueryFailed", "on_query_failed")):
        ok = False
        detail = "no edge for variant"
        for sw in sws:
            labs = fn.variant_edges(sw, var)
            if not labs:
                continue
            starts = [n for n, l in fn.succs(sw[0]) if l in labs]
            hits = {c.node for c in fn.calls(r"QueryEngine::%s$" % handler)}
            p = fn.witness_path(starts, [n for n, _ in fn.exits()] + fn.return_nodes() + [sw[0]], avoid=hits)
            ok = p is None
            detail = "path from the %s edge to an exit / next iteration without %s: %s" % (var, handler, fn.path_sites(p) if p else "none")
        ctx.ob("R15.1", "next_action/%s=>%s" % (var, handler), ok, site=fn.site(fn.entry), cfg=fx.cfg, detail=detail)
    # terminal aggregates are not constructed elsewhere in the engine (only contexts' next_action produce them)
    makers = set()
    for key in fx.find(r"^protocol::libp2p::kademlia::query::QueryEngine::"):
        f = fx.fn(key)
        if f.aggregates(r"QueryAction$", "QuerySucceeded"):
            makers.add(key)
    ctx.ob("R15.1", "QueryEngine-never-fabricates-QuerySucceeded", not makers, cfg=fx.cfg, detail=str(sorted(makers)))


def r15_2(ctx, fx):
    n = 0
    for d in DISPATCHERS:
        fn = ctx.fn(fx, QE + d, "R15.2")
        if fn is None:
            continue
        sws = [sw for sw in fn.discr_switches() if sw[2] and sw[2].endswith("query::QueryType")]
        if not sws:
            # the dispatch written inside a closure of the function (`queries.values_mut().find_map(|state| match state { .. })`)
            for cl in nested_closures(fx, fn):
                if [sw for sw in cl.discr_switches() if sw[2] and sw[2].endswith("query::QueryType")]:
                    fn = cl
                    ctx.bodies.add((fx.cfg, cl.key))
                    sws = [sw for sw in fn.discr_switches() if sw[2] and sw[2].endswith("query::QueryType")]
                    break
        if not sws:
            ctx.anchor("R15.2", "%s: match on QueryType" % d, 0, 1, cfg=fx.cfg)
            continue
        n += 1
        sw = sws[0]
        variants = list(sw[3].keys()) + list(sw[5])
        want = ALT.get(d, r"Context::%s$" % d)
        hits = {c.node for c in fn.calls(want)}
        for var in sorted(variants):
            labs = fn.variant_edges(sw, var)
            own = var in sw[3]
            starts = [n_ for n_, l in fn.succs(sw[0]) if l in labs]
            ends = [x for x, _ in fn.exits()] + fn.return_nodes() + [sw[0]]
            p = fn.witness_path(starts, ends, avoid=hits) if starts else []
            if (d, var) in NOOP:
                # the arm must be a pure `None`
                r = fn.reach(starts)
                shapes = set()
                for x, sh in fn.exits():
                    if x in r:
                        shapes |= sh
                calls_in_arm = [c for c in fn.calls() if c.node in r and not c.from_macro]
                ctx.ob("R15.2", "%s/variant:%s=>documented-no-op" % (d, var), own and shapes == {"None"} and not calls_in_arm, site=fn.site(sw[0]), cfg=fx.cfg,
                       detail="arm yields %s, calls %s" % (sorted(shapes), calls_in_arm))
                continue
            ctx.ob("R15.2", "%s/variant:%s=>forwarded" % (d, var), own and p is None, site=fn.site(sw[0]), cfg=fx.cfg,
                   detail="own arm: %s; path through the arm without calling %s: %s" % (own, want, fn.path_sites(p) if p else "none"))
    ctx.anchor("R15.2", "dispatchers over QueryType", n, 6, cfg=fx.cfg)


def r15_3(ctx, fx):
    n = 0
    # the filter closures of the three register_response functions (also when the filtering moved into a new helper that
    # register_response calls: the helper is inlined and its closures count as written there)
    RR = r"^protocol::libp2p::kademlia::query::(find_node|get_record|get_providers)::\w+::register_response$"
    filters = {}
    for k0 in sorted(fx.find(RR)):
        for cl in nested_closures(fx, fx.fn(k0)):
            if "Option<protocol::libp2p::kademlia::types::KademliaPeer>" in cl.ret:
                filters.setdefault(k0, []).append(cl)
    for key, fn in sorted((cl.key, cl) for cls in filters.values() for cl in cls):
        n += 1
        ctx.bodies.add((fx.cfg, key))
        somes = [nd for nd, s in fn.aggregates(r"option::Option$", "Some")]
        tests = []
        for rx, fld, nm in ((r"HashSet::contains$", "queried", "queried"), (r"HashMap::contains_key$", "pending", "pending"), (r"PartialEq.*::eq$", "local_peer_id", "local")):
            cs = [c for c in fn.calls(rx) if fld in fn.recv(c) or any(fld in fn.origin(a) for a in c.args)]
            # ... and the thing tested is the closure's own argument (the candidate), not a captured outer binding
            cs = [c for c in cs if any(any(x.startswith("param:_2") for x in guards.rootstrs(fn, a)) for a in c.args)]
            ok = False
            for c in cs:
                for sw, t, f in fn.bool_tests(c.dest[0]):
                    if somes and all(fn.only_via(s, sw, [f]) for s in somes):
                        ok = True
            ctx.ob("R15.3", "%s/Some-only-if-not-%s" % (short(key), nm), ok, site=fn.site(fn.entry), cfg=fx.cfg,
                   detail="filter must return Some(candidate) only over the false edge of the %s test applied to the candidate itself (such tests found: %d, Some sites: %d)" % (nm, len(cs), len(somes)))
    # the same filter written as a `for` loop with `continue` guards inside register_response itself: the insertion into `candidates`
    # plays the role of `Some(candidate)`, the loop item that of the closure argument
    have = {re.sub(r"::register_response$", "", k0) for k0 in filters}
    for key in sorted(fx.find(r"^protocol::libp2p::kademlia::query::(find_node|get_record|get_providers)::\w+::register_response$")):
        if re.sub(r"::register_response$", "", key) in have:
            continue
        fn = fx.fn(key)
        somes = [c.node for c in fn.calls(r"BTreeMap(<.*>)?::insert$") if ".candidates" in fn.recv(c)]
        if not somes:
            continue
        n += 1
        ctx.bodies.add((fx.cfg, key))
        item = lambda a: any(re.search(r"Iterator>?::next$|IntoIter", x) for x in guards.rootstrs(fn, a))
        for rx, fld, nm in ((r"HashSet::contains$", "queried", "queried"), (r"HashMap::contains_key$", "pending", "pending"), (r"PartialEq.*::eq$", "local_peer_id", "local")):
            cs = [c for c in fn.calls(rx) if fld in fn.recv(c) or any(fld in fn.origin(a) for a in c.args)]
            cs = [c for c in cs if any(item(a) for a in c.args)]
            ok = False
            for c in cs:
                for sw, t, f in fn.bool_tests(c.dest[0]):
                    if all(fn.only_via(s_, sw, [f]) for s_ in somes):
                        ok = True
            ctx.ob("R15.3", "%s/Some-only-if-not-%s" % (short(key), nm), ok, site=fn.site(fn.entry), cfg=fx.cfg,
                   detail="a candidate is inserted only over the false edge of the %s test applied to the loop item (such tests found: %d, insert sites: %d)" % (nm, len(cs), len(somes)))
    ctx.anchor("R15.3", "candidate filter closures", n, 3, cfg=fx.cfg)


def r15_4(ctx, fx):
    """every accepted response feeds the candidate set: from the edge where the responder was found in `pending`, every exit of
    register_response passes the candidate intake (filter + insertion loop) - the peers a responder names are never discarded
    because of where the responder itself ranks"""
    from paths import refine_cuts
    n = 0
    for key in sorted(fx.find(r"^protocol::libp2p::kademlia::query::(find_node|get_record|get_providers)::\w+::register_response$")):
        fn = fx.fn(key)
        rm = [c for c in fn.calls(r"HashMap(<.*>)?::remove$") if ".pending" in fn.recv(c)]
        fm = [c for c in fn.calls(r"Iterator>?::filter_map$|Iterator>?::filter$")]
        ins = map_inserts(fn, "candidates", bulk=True)
        if not rm or not ins:
            continue
        n += 1
        ctx.bodies.add((fx.cfg, key))
        nxt = [c for c in fn.calls(r"Iterator>?::next$") if ins[0].node in fn.reach([c.node], after=True) and c.node in fn.reach([ins[0].node], after=True)]
        # the intake: the loop that inserts, else the filter feeding it, else the bulk insertion itself (`candidates.extend(..)`)
        intake = [c.node for c in nxt] or [c.node for c in fm] or [c.node for c in ins if c.name.endswith("::extend")]
        cuts = refine_cuts(fn, rm[0], ["Some", "?"])
        p = fn.witness_path([rm[0].node], [x for x, _ in fn.exits()], avoid=intake, cut=cuts, after=True)
        ctx.ob("R15.4", "%s/accepted-response-always-feeds-candidates" % short(key), bool(intake) and p is None, site=fn.site(rm[0].node), cfg=fx.cfg,
               detail="a path from an accepted response to an exit that skips the candidate intake: %s" % (fn.path_sites(p) if p else None))
        # and always marks the responder as queried
        q = [c.node for c in fn.calls(r"HashSet(<.*>)?::insert$") if ".queried" in fn.recv(c)]
        p2 = fn.witness_path([rm[0].node], [x for x, _ in fn.exits()], avoid=q, cut=cuts, after=True)
        ctx.ob("R15.4", "%s/responder-marked-queried" % short(key), bool(q) and p2 is None, site=fn.site(rm[0].node), cfg=fx.cfg)
    ctx.anchor("R15.4", "register_response bodies with a candidate intake", n, 3, cfg=fx.cfg)


def r15_5(ctx, fx):
    """parallelism accounting of FindNodeContext ("at most the configured number of fresh unanswered requests in flight"): the counter
    compared with parallelism_factor is moved only in step with the pending set -
      +1 together with `pending.insert` (schedule_next_peer),
      -1 only on the Some edge of `pending.remove` (a request is settled once),
      or recomputed from `self.pending` (a count over the pending entries).
    A decrement that is neither tied to a removal nor a recomputation can be applied to the same slow peer again on every call, which
    frees a slot per call and lets the number of fresh requests grow without bound."""
    FN = "protocol::libp2p::kademlia::query::find_node::FindNodeContext::<T>::"
    n = 0
    for key in sorted(fx.find("^" + re.escape(FN) + r"\w+$")):
        fn = fx.fn(key)
        for node, s_ in fn.assigns():
            l = "".join(str(x) for x in s_["lhs"][1:])
            if not l.endswith(".pending_responses") or s_["rv"]["r"] != "use":
                continue
            n += 1
            ctx.bodies.add((fx.cfg, key))
            rs = guards.rootstrs(fn, s_["rv"]["o"])
            kind = "other"
            ok = False
            why = ""
            if any(x.endswith("saturating_add") or x.endswith("checked_add") for x in rs) or any(x.startswith("call:") and "Add" in x for x in rs):
                kind = "+1"
                ins = [c.node for c in fn.calls(r"HashMap(<.*>)?::insert$") if ".pending" in fn.recv(c) and ".pending_" not in fn.recv(c)]
                # on every path through the increment the peer is also filed in `pending`: before it (dominating insert) or after it
                # (no return without an insert)
                ok = bool(ins) and (node not in fn.reach([fn.entry], avoid=ins) or not (set(fn.return_nodes()) & fn.reach([node], avoid=ins, after=True)))
                why = "increment only together with pending.insert (before or after it on every path)"
            elif any(x.endswith("saturating_sub") or x.endswith("checked_sub") for x in rs):
                kind = "-1"
                rm = [c for c in fn.calls(r"HashMap(<.*>)?::remove$") if ".pending" in fn.recv(c) and ".pending_" not in fn.recv(c)]
                ok = False
                for c in rm:
                    for sw in fn.discr_switches():
                        if sw[1] and sw[1][0] in fn.copies_of(c.dest[0]) | {c.dest[0]} and fn.only_via(node, sw[0], fn.variant_edges(sw, "Some")):
                            ok = True
                why = "decrement only over the Some edge of pending.remove (removal calls in this body: %d)" % len(rm)
            elif any(re.search(r"Iterator>?::count$|::count$|HashMap(<.*>)?::len$", x) for x in rs) and any(re.search(r"param:_1.*\.pending\b", x) for x in rs):
                kind = "recount"
                ok = True
                why = "recomputed from self.pending"
            ctx.ob("R15.5", "%s/pending_responses:%s-in-step-with-the-pending-set" % (short(key), kind), ok, site=fn.site(node), cfg=fx.cfg,
                   detail="%s; roots %s" % (why, sorted(rs)[:8]))
    ctx.anchor("R15.5", "writes to FindNodeContext.pending_responses", n, 3, cfg=fx.cfg)
    fn = ctx.fn(fx, FN + "next_action", "R15.5")
    if fn is not None:
        is_q = lambda f, o: guards.has_root(f, o, r"\.pending_responses")
        is_b = lambda f, o: guards.has_root(f, o, r"\.parallelism_factor")
        facts = guards.edge_facts(fn, is_q, is_b)
        full = {(sw, lab) for sw, lab, rel, cn in facts if rel in guards.IMPLIES[">="]}
        sched = [c.node for c in fn.calls(r"FindNodeContext(<.*>)?::schedule_next_peer$")]
        ctx.anchor("R15.5", "next_action: comparison with parallelism_factor / schedule_next_peer calls", min(len(full), len(sched)), 1, cfg=fx.cfg)
        inside = [n_ for (sw, lab) in full for n_, l in fn.succs(sw) if l == lab]
        r = fn.reach(inside)
        ctx.ob("R15.5", "next_action/no-new-request-when-the-counter-is-at-the-parallelism-factor", bool(full) and not any(x in r for x in sched),
               site=fn.site(fn.entry), cfg=fx.cfg)


def r15_5b(ctx, fx):
    """siblings: the value and provider lookups bound their in-flight requests by `pending.len()`; no request is scheduled on the edge
    where it has reached the parallelism factor"""
    n = 0
    for key in sorted(fx.find(r"^protocol::libp2p::kademlia::query::(get_record::GetRecordContext|get_providers::GetProvidersContext)::next_action$")):
        fn = fx.fn(key)
        n += 1
        ctx.bodies.add((fx.cfg, key))
        is_q = lambda f, o: any(re.search(r"HashMap(<.*>)?::len$", x) for x in guards.rootstrs(f, o)) and guards.has_root(f, o, r"\.pending\b")
        is_b = lambda f, o: guards.has_root(f, o, r"\.parallelism_factor")
        facts = guards.edge_facts(fn, is_q, is_b)
        full = {(sw, lab) for sw, lab, rel, cn in facts if rel in guards.IMPLIES[">="]}
        free = {(sw, lab) for sw, lab, rel, cn in facts if rel in guards.IMPLIES["<"] or rel == "!="}
        sched = [c.node for c in fn.calls(r"::schedule_next_peer$")]
        if not sched:
            # schedule_next_peer written out in place: what it does is file the peer in `pending`
            sched = [c.node for c in fn.calls(r"HashMap(<.*>)?::insert$") if re.search(r"\.pending\b", fn.recv(c))]
        r = fn.reach([fn.entry], cut=free)
        ctx.ob("R15.5", "%s/request-scheduled-only-below-the-parallelism-factor" % short(key), bool(full) and bool(sched) and not any(x in r for x in sched),
               site=fn.site(fn.entry), cfg=fx.cfg, detail="comparisons of pending.len() with parallelism_factor: %d" % len({cn for *_, cn in facts}))
    ctx.anchor("R15.5", "sibling next_action bodies", n, 2, cfg=fx.cfg)


def r15_6(ctx, fx):
    """termination test of FindNodeContext::next_action: with enough responses the lookup goes on exactly while the closest
    uncontacted candidate is closer to the target than the *furthest* reported response (`responses.last_key_value()`), so every
    known peer closer than the furthest reported one gets contacted before QuerySucceeded."""
    fn = ctx.fn(fx, "protocol::libp2p::kademlia::query::find_node::FindNodeContext::<T>::next_action", "R15.6")
    if fn is None:
        return
    is_q = lambda f, o: guards.has_root(f, o, r"BTreeMap(<.*>)?::first_key_value$") and guards.has_root(f, o, r"\.candidates\b")
    is_b = lambda f, o: guards.has_root(f, o, r"\.responses\b") and not guards.has_root(f, o, r"\.candidates\b")
    facts = guards.edge_facts(fn, is_q, is_b)
    ctx.anchor("R15.6", "next_action: comparison candidate distance vs response distance", len({cn for *_, cn in facts}), 1, cfg=fx.cfg)
    for cn in sorted({cn for *_, cn in facts}):
        at = fn.at(cn)
        ops = [at["rv"]["a"], at["rv"]["b"]] if "rv" in at else list(fn.call_at(cn).args)
        rb = set()
        for o in ops:
            if is_b(fn, o):
                rb |= guards.rootstrs(fn, o)
        ok = any(re.search(r"BTreeMap(<.*>)?::last_key_value$|BTreeMap(<.*>)?::last_entry$", x) for x in rb) and not any(re.search(r"::first_key_value$|::first_entry$", x) for x in rb)
        ctx.ob("R15.6", "next_action/candidate-compared-with-the-furthest-response", ok, site=fn.site(cn), cfg=fx.cfg,
               detail="response-side roots: %s" % sorted(x for x in rb if "BTreeMap" in x))
    closer = {(sw, lab) for sw, lab, rel, cn in facts if rel == "<"}
    sched = [c.node for c in fn.calls(r"FindNodeContext(<.*>)?::schedule_next_peer$")]
    succ = [n for n, _ in fn.aggregates(r"QueryAction$", "QuerySucceeded")]
    inside = fn.reach([n_ for (sw, lab) in closer for n_, l in fn.succs(sw) if l == lab])
    ctx.ob("R15.6", "next_action/closer-candidate=>contacted-not-finished", bool(closer) and any(x in inside for x in sched) and not any(x in inside for x in succ),
           site=fn.site(fn.entry), cfg=fx.cfg, detail="on the `candidate < furthest response` edge the next peer is scheduled and QuerySucceeded is unreachable")


def r15_7(ctx, fx):
    """quorum accounting of a value lookup: a record from the local store is counted once.  `GetRecordConfig::known_records` carries the
    records known before the lookup and `sufficient_records` adds it to `found_records`, so `found_records` - the records the lookup
    itself found - starts at 0.  (Starting at 1 for a local record counts it twice: `Quorum::N(2)` is 'met' without contacting anybody.)"""
    fn = ctx.fn(fx, "protocol::libp2p::kademlia::query::get_record::GetRecordContext::new", "R15.7")
    if fn is None:
        return
    aggs = [(n, s_) for n, s_ in fn.aggregates(r"get_record::GetRecordContext$") if "found_records" in s_["rv"].get("fields", [])]
    ctx.anchor("R15.7", "GetRecordContext literal", len(aggs), 1, cfg=fx.cfg)
    for n, s_ in aggs:
        o = s_["rv"]["ops"][s_["rv"]["fields"].index("found_records")]
        rs = guards.rootstrs(fn, o)
        ctx.ob("R15.7", "GetRecordContext::new/found_records-starts-at-0", rs == {"const:0"}, site=fn.site(n), cfg=fx.cfg, detail="roots %s" % sorted(rs))
    sf = ctx.fn(fx, "protocol::libp2p::kademlia::query::get_record::GetRecordConfig::sufficient_records", "R15.7")
    if sf is not None:
        adds = [s_ for n, s_ in sf.assigns() if s_["rv"]["r"] == "bin" and s_["rv"]["op"].startswith("Add")]
        ok = any(guards.has_root(sf, s_["rv"]["a"], r"\.known_records") or guards.has_root(sf, s_["rv"]["b"], r"\.known_records") for s_ in adds)
        ctx.ob("R15.7", "sufficient_records/adds-known_records-to-the-found-count", ok, site=sf.site(sf.entry), cfg=fx.cfg)


def r15_8(ctx, fx):
    """terminal result of a provider lookup: the providers known locally before the lookup are part of its result (found_providers()
    reports them), so the lookup fails only if it found none AND knew none: the QueryFailed of GetProvidersContext::next_action lies
    behind the true edge of `known_providers.is_empty()` as well (sibling: GetRecordContext uses known_records the same way)."""
    fn = ctx.fn(fx, "protocol::libp2p::kademlia::query::get_providers::GetProvidersContext::next_action", "R15.8")
    if fn is None:
        return
    failed = [n for n, _ in fn.aggregates(r"QueryAction$", "QueryFailed")]
    ctx.anchor("R15.8", "GetProvidersContext::next_action: QueryFailed", len(failed), 1, cfg=fx.cfg)
    edges = {"found_providers": set(), "known_providers": set()}
    for c in fn.calls(r"::is_empty$"):
        for nm in edges:
            if nm in fn.recv(c):
                for sw, t, f in fn.bool_tests(c.dest[0]):
                    edges[nm].add((sw, t))
    for nm, es in edges.items():
        ok = bool(es) and all(n not in fn.reach([fn.entry], cut=es) for n in failed)
        ctx.ob("R15.8", "GetProvidersContext::next_action/QueryFailed-only-if-%s-is-empty" % nm, ok, site=fn.site(failed[0]) if failed else fn.site(fn.entry), cfg=fx.cfg)


def run(ctx):
    fx = ctx.facts("default")
    r15_4(ctx, fx)
    r15_1(ctx, fx)
    r15_2(ctx, fx)
    r15_3(ctx, fx)
    r15_5(ctx, fx)
    r15_5b(ctx, fx)
    r15_6(ctx, fx)
    r15_7(ctx, fx)
    r15_8(ctx, fx)
