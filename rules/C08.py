"""C08 - Well-formed per-peer connection and substream event stream (structural).

R08.1 TransportService emits ConnectionEstablished only with the insertion of the peer into `connections`, ConnectionClosed only
      with its removal; secondary store / promote paths emit nothing
R08.2 outbound substream ids come from one shared atomic counter (fetch_add), created once
R08.3 substream-open failures carry the id of the command that asked for the substream (all transports)
R08.5 every outbound open future is awaited only through tokio::time::timeout armed with the configured open timeout (all transports)
R08.6 ConnectionContext.primary is replaced only by the promoted secondary in on_connection_closed; .secondary only set from the new handle
R08.4 TransportService::open_substream sends exactly one open request, on the primary connection, with the permit it acquired
"""
import re
from paths import refine_cuts, region_uncovered, region_second_hit
from common import short, field_calls
import guards

EXPLANATION = ("Pairing and provenance rules over the MIR CFG of TransportService and the transports' command handlers: the emit sites of "
               "connection events coincide with map insert/remove, substream ids are rooted in a single shared fetch_add counter, failure "
               "reports are rooted in the id of the OpenSubstream command.")

TS = "protocol::transport_service::TransportService::"


def r08_1(ctx, fx):
    fn = ctx.fn(fx, TS + "on_connection_established", "R08.1")
    if fn is not None:
        from common import map_inserts
        ins = [c.node for c in map_inserts(fn, "connections")]
        ev = [n for n, s in fn.aggregates(r"TransportEvent$", "ConnectionEstablished")]
        ctx.anchor("R08.1", "established: insert + event sites", min(len(ins), len(ev)), 1, cfg=fx.cfg)
        for e in ev:
            ctx.ob("R08.1", "on_connection_established/event=>inserted", bool(ins) and e not in fn.reach([fn.entry], avoid=ins), site=fn.site(e), cfg=fx.cfg,
                   detail="Some(ConnectionEstablished) only on the path that inserts the peer")
        some_exits = [n for n, sh in fn.exits(r"^Some") if all(s.startswith("Some") for s in sh)]
        for i in ins:
            r = fn.reach([i], after=True)
            bad = [n for n, sh in fn.exits() if n in r and not all(s.startswith("Some") for s in sh)]
            ctx.ob("R08.1", "on_connection_established/inserted=>event", not bad, site=fn.site(i), cfg=fx.cfg,
                   detail="after inserting a new peer every exit returns Some(ConnectionEstablished); other exits: %s" % [fn.site(n) for n in bad])
    # the body that updates the connection map on a close: on_connection_closed itself, or the helper it delegates to
    ckey = TS + "on_connection_closed"
    for cand in ("handle_connection_closed",):
        if fx.has(TS + cand) and fx.fn(TS + "on_connection_closed") is not None and fx.fn(TS + "on_connection_closed").calls(r"TransportService::%s$" % cand):
            ckey = TS + cand
    fn = ctx.fn(fx, ckey, "R08.1")
    if fn is not None:
        rm = [c.node for c in field_calls(fn, r"HashMap::remove$", "connections")]
        ev = [n for n, s in fn.aggregates(r"TransportEvent$", "ConnectionClosed")]
        ctx.anchor("R08.1", "closed: remove + event sites", min(len(rm), len(ev)), 1, cfg=fx.cfg)
        for e in ev:
            ctx.ob("R08.1", "on_connection_closed/event=>removed", bool(rm) and e not in fn.reach([fn.entry], avoid=rm), site=fn.site(e), cfg=fx.cfg)
        for i in rm:
            r = fn.reach([i], after=True)
            bad = [n for n, sh in fn.exits() if n in r and not all(s.startswith("Some") for s in sh)]
            ctx.ob("R08.1", "on_connection_closed/removed=>event", not bad, site=fn.site(i), cfg=fx.cfg,
                   detail="after removing the peer every exit returns Some(ConnectionClosed); other exits: %s" % [fn.site(n) for n in bad])
        # removal only when the primary closed and no secondary exists
        for sw in fn.discr_switches():
            pass
        takes = [c for c in fn.calls(r"Option::take$") if ".secondary" in fn.recv(c)]
        ctx.anchor("R08.1", "closed: secondary.take()", len(takes), 1, cfg=fx.cfg)
        for i in rm:
            rel = [t for t in takes if i in fn.reach([t.node], after=True)]
            ok = bool(rel) and i not in fn.reach([fn.entry], avoid=[x.node for x in rel])
            for t in rel:
                cuts = refine_cuts(fn, t, ["Some", "?"])
                if i in fn.reach([t.node], cut=cuts, after=True):
                    ok = False
            ctx.ob("R08.1", "on_connection_closed/remove-only-if-no-secondary", ok, site=fn.site(i), cfg=fx.cfg,
                   detail="the peer is removed (and ConnectionClosed emitted) only when secondary.take() returned None: a stored secondary "
                          "connection is always promoted, whatever its keep-alive state")
        eqs = fn.calls(r"::eq$")
        prim = []
        for c in eqs:
            for a in c.args:
                pr = fn.producer(a)
                if pr is not None and pr.matches(r"ConnectionHandle::connection_id$") and ".primary" in fn.recv(pr):
                    prim.append(c)
        ctx.anchor("R08.1", "closed: primary id comparison", len(prim), 1, cfg=fx.cfg)
        for i in rm:
            ok = any(fn.only_via(i, sw, [t]) for c in prim for sw, t, f in fn.bool_tests(c.dest[0]))
            ctx.ob("R08.1", "on_connection_closed/remove-only-if-primary-closed", ok, site=fn.site(i), cfg=fx.cfg)


def r08_2(ctx, fx):
    callers = fx.callers_of("types::SubstreamId::from")
    ctx.anchor("R08.2", "SubstreamId::from callers", len(callers), 2, cfg=fx.cfg)
    for key in callers:
        fn = fx.fn(key)
        ctx.bodies.add((fx.cfg, key))
        for i, c in enumerate(fn.calls(r"types::SubstreamId::from$")):
            rs = guards.rootstrs(fn, c.args[0])
            fa = [x for x in fn.calls(r"atomic::Atomic(Usize)?::fetch_add$") if "next_substream_id" in fn.recv(x)]
            ok = any("::fetch_add" in x for x in rs) and bool(fa) and any(x.endswith(".next_substream_id") for x in rs)
            ctx.ob("R08.2", "%s/SubstreamId::from#%d:rooted-in-shared-counter" % (short(key), i), ok, site=fn.site(c.node), cfg=fx.cfg,
                   detail="roots: %s; fetch_add on next_substream_id: %d" % (sorted(rs), len(fa)))
    dflt = fx.callers_of("<types::SubstreamId as std::default::Default>::default") + [k for k in fx.callers_of("types::SubstreamId::new") if "Default" not in k]
    ctx.ob("R08.2", "SubstreamId::new/default-unused", not dflt, cfg=fx.cfg, detail="callers: %s" % dflt)
    ctors = [k for k in fx.constructors_of("types::SubstreamId::SubstreamId")]
    ctx.ob("R08.2", "SubstreamId-literal-only-in-from/new", set(ctors) <= {"types::SubstreamId::from", "types::SubstreamId::new"}, cfg=fx.cfg, detail=str(ctors))
    # one creation site of the counter
    creators = []
    for adt, keys in fx.agg_sites().items():
        a = fx.adts.get(adt.rsplit("::", 1)[0])
        if not a:
            continue
        fields = [f["name"] for v in a["variants"] for f in v["fields"]]
        if "next_substream_id" not in fields:
            continue
        for key in keys:
            fn = fx.fn(key)
            for node, s in fn.aggregates("^" + re.escape(adt.rsplit("::", 1)[0]) + "$"):
                rv = s["rv"]
                if "next_substream_id" not in rv.get("fields", []):
                    continue
                o = rv["ops"][rv["fields"].index("next_substream_id")]
                rs = guards.rootstrs(fn, o)
                fresh = any("Arc::new" in x or "AtomicUsize::new" in x for x in rs)
                creators.append((key, fresh, sorted(rs)))
    fresh_sites = [c for c in creators if c[1]]
    ctx.ob("R08.2", "shared-counter-created-once", len(fresh_sites) == 1 and len(creators) >= 3, cfg=fx.cfg,
           detail="structs initialising next_substream_id: %d, of which from a fresh Arc: %s" % (len(creators), [c[0] for c in fresh_sites]))


def r08_7(ctx, fx):
    """"answered at most once": an outbound substream request that is answered with SubstreamOpened is forgotten as a *pending* open.
    TransportService keeps the ids of requested substreams in `pending_substreams` and reports every id still in there as
    SubstreamOpenFailure when its connection closes beside a second one (F21 repair).  Every path from the SubstreamOpened arm of
    poll_next to the TransportEvent::SubstreamOpened it returns passes the removal of the id - or the Inbound edge of a test of the
    direction (inbound substreams were never pending).  Otherwise the request is answered twice: opened, then failed."""
    fn = ctx.fn(fx, "<protocol::transport_service::TransportService as futures::Stream>::poll_next", "R08.7")
    if fn is None:
        return
    ev = [n for n, s_ in fn.aggregates(r"^protocol::TransportEvent$|protocol::TransportEvent$", "SubstreamOpened")]
    rem = [c.node for c in fn.calls(r"HashMap(<.*>)?::remove$") if ".pending_substreams" in fn.recv(c)]
    arms = []
    for sw in fn.discr_switches():
        if sw[2] and sw[2].endswith("InnerTransportEvent"):
            arms += [n for n, l in fn.succs(sw[0]) if l in fn.variant_edges(sw, "SubstreamOpened")]
    inbound = set()
    for sw in fn.discr_switches():
        if sw[2] and sw[2].endswith("substream::Direction") or (sw[2] and sw[2].endswith("protocol::Direction")):
            ob = fn.variant_edges(sw, "Outbound")
            for v in list(sw[3]) + list(sw[5]):
                if v != "Outbound":
                    for lab in fn.variant_edges(sw, v):
                        if lab not in ob:
                            inbound.add((sw[0], lab))
    ctx.anchor("R08.7", "poll_next: SubstreamOpened arm / pending_substreams.remove / returned event", min(len(ev), len(rem), len(arms)), 1, cfg=fx.cfg)
    for i, e in enumerate(ev):
        ok = bool(arms) and bool(rem) and e not in fn.reach(arms, avoid=rem, cut=inbound)
        ctx.ob("R08.7", "poll_next/SubstreamOpened#%d-forgets-the-pending-open" % i, ok, site=fn.site(e), cfg=fx.cfg,
               detail="direction tests found: %d Inbound edges; an outbound substream that stays in pending_substreams is reported failed when its connection closes" % len(inbound))


def r08_3(ctx, fx):
    n = n5 = 0
    # every coroutine of the transports' connection modules that opens an outbound substream: the `async move { .. }` block pushed to
    # the pending-substream set, wherever it is written (inside the command handler, or as an `async fn` helper of its own)
    for key in sorted(fx.find(r"^transport::(tcp|websocket|quic)::connection::\w+::\w+::\{closure#0\}(::\{closure#\d+\})?$")):
        fn = fx.fn(key)
        if not fn.is_coroutine or re.search(r"::open_substream::\{closure#0\}$", key):
            continue
        # the future that opens an *outbound* substream on behalf of a protocol command
        if not [c for c in fn.calls(r"Connection::open_substream$")]:
            continue
        ctx.bodies.add((fx.cfg, key))
        # the error may also be built in a nested closure (`.map_err(|e| ConnectionError::..)`): same capture discipline applies
        holders = [fn] + [fx.fn(k) for k in sorted(fx.find("^" + re.escape(key) + r"::\{closure#\d+\}$"))]
        aggs = [(h, node, s) for h in holders for node, s in h.aggregates(r"ConnectionError$")]
        n += 1 if [1 for _, _, s in aggs if "substream_id" in s["rv"].get("fields", [])] else 0
        for fn_, node, s in aggs:
            rv = s["rv"]
            if "substream_id" not in rv.get("fields", []):
                continue
            for fld in ("substream_id", "protocol"):
                o = rv["ops"][rv["fields"].index(fld)]
                sh = fn_.shape(o)
                rs = guards.rootstrs(fn_, o)
                ok = all(x.startswith("Some") for x in sh) and bool(rs) and all(x.startswith("param:_1") or x.startswith("call:<") and "Clone" in x for x in rs)
                ctx.ob("R08.3", "%s/ConnectionError::%s.%s-is-Some(captured-command-value)" % (short(key), rv["var"], fld), ok, site=fn_.site(node), cfg=fx.cfg,
                       detail="an outbound substream-open failure must carry the id/protocol of the command, otherwise the failure is never reported to "
                              "the protocol that asked; shape %s roots %s" % (sorted(sh), sorted(rs)))
        # R08.5: the open future is awaited only through a timer armed with the configured duration - the timer is the only thing that
        # answers a request whose yamux/quic open_stream() never completes (ack backlog full, peer silent)
        for i, c in enumerate(fn.calls(r"Connection::open_substream$")):
            tm = [t for t in fn.calls(r"^tokio::time::timeout$") if len(t.args) > 1 and any(x.startswith("call:") and "open_substream" in x for x in guards.rootstrs(fn, t.args[1]))]
            ctx.ob("R08.5", "%s/open-future#%d-awaited-only-under-timeout" % (short(key), i), bool(tm), site=fn.site(c.node), cfg=fx.cfg,
                   detail="the whole open (stream allocation + negotiation) must be bounded, else an accepted request can stay unanswered on a live connection")
            for t in tm:
                rs = guards.rootstrs(fn, t.args[0])
                ctx.ob("R08.5", "%s/open-timeout#%d-is-the-configured-duration" % (short(key), i), bool(rs) and all(x.startswith("param:_1") for x in rs),
                       site=fn.site(t.node), cfg=fx.cfg, detail=str(sorted(rs)))
            n5 += 1
    ctx.anchor("R08.5", "outbound open futures", n5, 1 if fx.cfg == "default" else 3, cfg=fx.cfg)
    ctx.anchor("R08.3", "outbound open futures building a ConnectionError", n, 1 if fx.cfg == "default" else 3, cfg=fx.cfg)
    # the reporting side: report_substream_open_failure receives the id taken from the error
    for key in sorted(fx.find(r"^transport::tcp::connection::\w+::handle_negotiated_substream::\{closure#0\}$")):
        fn = fx.fn(key)
        for i, c in enumerate(fn.calls(r"ProtocolSet::report_substream_open_failure$")):
            ctx.bodies.add((fx.cfg, key))
            rs = guards.rootstrs(fn, c.args[2])
            ok = any("substream_id" in x for x in rs) and not any(x.startswith("call:") and "SubstreamId" in x for x in rs)
            ctx.ob("R08.3", "%s/report_substream_open_failure#%d:id-from-error" % (short(key), i), ok, site=fn.site(c.node), cfg=fx.cfg, detail=str(sorted(rs))[:300])


def r08_6(ctx, fx):
    """the handle of a live connection is never overwritten: in TransportService the `primary` slot of an existing peer context is
    written only in on_connection_closed (promotion of the secondary that was taken out), and `secondary` only in
    on_connection_established with the new connection's handle.  Replacing `primary` while that connection is still open makes the
    service forget it: a later close of the other connection reports ConnectionClosed although the peer is still connected."""
    writes = []
    for key in sorted(fx.find(r"^protocol::transport_service::")):
        fn = fx.fn(key)
        for node, s_ in fn.assigns():
            l = "".join(str(x) for x in s_["lhs"][1:])
            if l.endswith(".primary") or l.endswith(".secondary"):
                src = fn.origin(s_["rv"]["o"]) if s_["rv"]["r"] == "use" else s_["rv"].get("var", s_["rv"]["r"])
                writes.append((short(key), l.rsplit(".", 1)[-1], fn.site(node), src, fn, node, s_))
    ctx.anchor("R08.6", "writes to ConnectionContext.primary / .secondary", len(writes), 2, cfg=fx.cfg)
    for who, fld, site, src, fn, node, s_ in writes:
        if fld == "primary":
            ok = bool(re.search(r"(on|handle)_connection_closed$", who)) and "@Some" in str(src)
            why = "primary may only be replaced by the secondary handle taken out in on_connection_closed"
        else:
            ok = who.endswith("on_connection_established") or bool(re.search(r"(on|handle)_connection_closed$", who))
            if who.endswith("on_connection_established"):
                # the stored value is Some(handle parameter)
                sh = fn.shape(s_["rv"]["o"]) if s_["rv"]["r"] == "use" else set()
                rs = guards.rootstrs(fn, s_["rv"]["o"]) if s_["rv"]["r"] == "use" else set()
                ok = ok and all(x.startswith("Some") for x in sh) and any(r[0] == "param" and fn.local_ty(r[1]).endswith("ConnectionHandle") for r in fn.roots(s_["rv"]["o"]))
            why = "secondary is set to the new connection's handle in on_connection_established (or cleared in on_connection_closed)"
        ctx.ob("R08.6", "%s/writes-%s" % (who, fld), ok, site=site, cfg=fx.cfg, detail="%s; source %s" % (why, src))


def r08_4(ctx, fx):
    fn = ctx.fn(fx, TS + "open_substream", "R08.4")
    if fn is None:
        return
    opens = fn.calls(r"ConnectionHandle::open_substream$")
    permits = fn.calls(r"ConnectionHandle::try_get_permit$")
    ctx.anchor("R08.4", "handle.open_substream / try_get_permit", min(len(opens), len(permits)), 1, cfg=fx.cfg)
    ctx.ob("R08.4", "open_substream/exactly-one-open-request-site", len(opens) == 1, cfg=fx.cfg, detail="%d sites" % len(opens))
    for o in opens:
        r = fn.reach([o.node], after=True)
        ctx.ob("R08.4", "open_substream/no-second-open-on-a-path", o.node not in r, site=fn.site(o.node), cfg=fx.cfg)
        ctx.ob("R08.4", "open_substream/request-goes-to-primary", ".primary" in fn.recv(o), site=fn.site(o.node), cfg=fx.cfg, detail="receiver: %s" % fn.recv(o))
        okexits = [n for n, sh in fn.exits(r"^Ok|call:")]
        bad = [n for n in okexits if n in fn.reach([fn.entry], avoid=[o.node])]
        ctx.ob("R08.4", "open_substream/Ok-implies-request-sent", not bad, site=fn.site(o.node), cfg=fx.cfg, detail=str([fn.site(n) for n in bad]))
        # permit provenance
        rs = guards.rootstrs(fn, o.args[4]) if len(o.args) > 4 else set()
        ctx.ob("R08.4", "open_substream/permit-is-the-one-acquired", any("try_get_permit" in x for x in rs), site=fn.site(o.node), cfg=fx.cfg, detail=str(sorted(rs)))
        rs = guards.rootstrs(fn, o.args[3]) if len(o.args) > 3 else set()
        ctx.ob("R08.4", "open_substream/id-is-the-fresh-one", any("SubstreamId::from" in x for x in rs), site=fn.site(o.node), cfg=fx.cfg, detail=str(sorted(rs)))
    for p in permits:
        ctx.ob("R08.4", "open_substream/permit-from-primary", ".primary" in fn.recv(p), site=fn.site(p.node), cfg=fx.cfg, detail=fn.recv(p))


def run(ctx):
    for cfg in ctx.configs():
        fx = ctx.facts(cfg)
        if cfg == "default":
            r08_1(ctx, fx)
            r08_2(ctx, fx)
            r08_4(ctx, fx)
            r08_6(ctx, fx)
            r08_7(ctx, fx)
        r08_3(ctx, fx)
