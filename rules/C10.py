"""C10 - Peer address book stays bounded, attributable and dialable (gate, bound, scoring plumbing).

R10.1 (K2) gate in TransportManagerHandle::add_known_address: an address enters the per-peer set only over
      supported_transport == true, is_local_address == false, and either the equal edge of the /p2p-vs-peer comparison
      (address stored unchanged) or after appending Protocol::P2p(peer); the set is what is handed to AddressStore::extend
      of that peer's entry, through AddressRecord::from_multiaddr
R10.2 (K3+K6) bound: the map AddressStore.addresses is mutated only in AddressStore::insert (+ construction in new); the growing
      HashMap::insert lies behind `len < max_capacity` or a preceding remove; the worse-than-minimum record is refused, not
      stored; max_capacity is private, written only in new() from MAX_ADDRESSES; AddressStore::default (capacity 0) is not
      used by non-test code
R10.4 (provenance) scoring: dial failures re-score the failed address with error_score(error) under the peer named by that
      address; error_score maps AddressError to ADDRESS_FAILURE and everything else to CONNECTION_FAILURE (both negative);
      rediscovery (score 0) does not overwrite a stored score; successes score the dialed address with CONNECTION_ESTABLISHED,
      only as dialer
R10.5 dial order/limit plumbing: AddressStore::addresses sorts by Reverse(score) and takes `limit`; TransportManager::dial passes
      the free outbound capacity returned by ConnectionLimits::on_dial_address
Not decided: which address is displaced (min by score is value-level), score survival over histories, parser-language inclusion
(R10.3 of the design is not built).
"""
import re
from common import short, slice_locals, closure_arg, closure_returns
import guards

EXPLANATION = ("Guarded-by, who-may, bounded-growth and provenance rules over the MIR CFG of the address book: the insertion gate of "
               "add_known_address, the single growth site of AddressStore behind its capacity comparison, and the plumbing that makes dial "
               "results re-score exactly the address used.")

H = "transport::manager::handle::TransportManagerHandle::"
A = "transport::manager::address::"
TM = "transport::manager::TransportManager::"


def ty_of_arg(c, i):
    a = c.f.get("args") or []
    return a[i] if i < len(a) else ""


def r10_1(ctx, fx):
    fn = ctx.fn(fx, H + "add_known_address", "R10.1")
    if fn is None:
        return
    ins = [c for c in fn.calls(r"HashSet::insert$") if "Multiaddr" in fn.locals[int(re.match(r"^&?_(\d+)", fn.recv(c)).group(1))]]
    ctx.anchor("R10.1", "add_known_address: inserts into the address set", len(ins), 2, cfg=fx.cfg)
    sup = fn.calls(r"TransportManagerHandle::supported_transport$")
    loc = fn.calls(r"TransportManagerHandle::is_local_address$")
    ctx.anchor("R10.1", "add_known_address: supported_transport / is_local_address calls", min(len(sup), len(loc)), 1, cfg=fx.cfg)
    if not (ins and sup and loc):
        return
    set_local = int(re.match(r"^&?_(\d+)", fn.recv(ins[0])).group(1))
    # the loop variable: payload of the iterator's Some
    nxt = [c for c in fn.calls(r"Iterator::next$")]
    addr_locals = set()
    for node, s in fn.assigns():
        if s["rv"]["r"] == "use":
            p = s["rv"]["o"].get("m") or s["rv"]["o"].get("c")
            if p and nxt and p[0] == nxt[0].dest[0] and "@Some" in "".join(p[1:]):
                addr_locals.add(s["lhs"][0])
    ctx.anchor("R10.1", "add_known_address: loop address binding", len(addr_locals), 1, cfg=fx.cfg)
    addr_origins = {fn.origin({"c": [l]}).lstrip("&") for l in addr_locals} | {"_%d" % l for l in addr_locals}
    def same(o):
        """the operand is the address being added: the loop item itself, or that item with `/p2p/<peer>` appended (Multiaddr::with)"""
        if fn.origin(o).lstrip("&") in addr_origins:
            return True
        rs = guards.rootstrs(fn, o)
        others = {x for x in rs if x.startswith("call:") and not re.search(r"Iterator>?::next$|Multiaddr::with$|Into(<.*>)?>?::into$|IntoIterator>?::into_iter$|Multiaddr::iter$|Iterator>?::any$|Clone>?::clone$", x)}
        return any(re.search(r"Iterator>?::next$", x) for x in rs) and not others
    ctx.ob("R10.1", "add_known_address/gate-checks-the-address-being-added", same(sup[0].args[1]) and same(loc[0].args[1]), site=fn.site(sup[0].node), cfg=fx.cfg,
           detail="origins: %s / %s" % (fn.origin(sup[0].args[1]), fn.origin(loc[0].args[1])))
    # an address that names no peer is remembered with the peer id appended ("or no peer, in which case the id is appended"): since
    # supported_transport only accepts addresses that end in /p2p/<id>, the append must happen before the gate - the gate's argument is
    # rooted in a Multiaddr::with(P2p(peer)) - otherwise such addresses are always dropped and the append branch is dead code
    rs_gate = guards.rootstrs(fn, sup[0].args[1])
    ctx.ob("R10.1", "add_known_address/peer-id-appended-before-the-transport-gate", any(x.endswith("Multiaddr::with") for x in rs_gate), site=fn.site(sup[0].node), cfg=fx.cfg,
           detail="roots of the gated address: %s" % sorted(rs_gate)[:8])
    t_sup = fn.bool_tests(sup[0].dest[0])
    t_loc = fn.bool_tests(loc[0].dest[0])
    nes = [c for c in fn.calls(r"PartialEq(<.*>)?>?::(ne|eq)$|cmp::impls::(<impl .*>::)?(ne|eq)$")
           if any(x.startswith("param:_2") for x in guards.rootstrs(fn, c.args[1]) | guards.rootstrs(fn, c.args[0]))
           and any("Iterator::last" in x for x in guards.rootstrs(fn, c.args[0]) | guards.rootstrs(fn, c.args[1]))]
    ctx.anchor("R10.1", "add_known_address: comparison of the /p2p component with `peer`", len(nes), 1, cfg=fx.cfg)
    for i, c in enumerate(ins):
        ok = any(fn.only_via(c.node, sw, [t]) for sw, t, f in t_sup)
        ctx.ob("R10.1", "add_known_address/insert#%d-only-if-supported_transport" % i, ok, site=fn.site(c.node), cfg=fx.cfg)
        ok = any(fn.only_via(c.node, sw, [f]) for sw, t, f in t_loc)
        ctx.ob("R10.1", "add_known_address/insert#%d-only-if-not-local-address" % i, ok, site=fn.site(c.node), cfg=fx.cfg)
        # attribution
        pr = fn.producer(c.args[1])
        if pr is not None and pr.matches(r"Multiaddr::with$"):
            proto = pr.args[1]
            pl = proto.get("m") or proto.get("c")
            aggs = [pl2 for _, kind, pl2 in fn.defs().get(pl[0], []) if kind == "assign" and pl2["rv"]["r"] == "agg"]
            ok = bool(aggs) and all(a["rv"].get("var") == "P2p" and guards.rootstrs(fn, a["rv"]["ops"][0]) <= {"param:_2*", "param:_2", "call:<T as std::convert::Into<U>>::into", "call:std::convert::Into::into"}
                                    and any(x.startswith("param:_2") for x in guards.rootstrs(fn, a["rv"]["ops"][0])) for a in aggs) and same(pr.args[0])
            # and this branch is taken only when the address has no trailing /p2p
            ctx.ob("R10.1", "add_known_address/insert#%d-appends-P2p(peer)-to-the-checked-address" % i, ok, site=fn.site(c.node), cfg=fx.cfg,
                   detail="Protocol aggregates: %s" % [(a["rv"].get("var"), sorted(guards.rootstrs(fn, a["rv"]["ops"][0]))) for a in aggs])
            p2p_sw = [sw for sw in fn.discr_switches() if sw[2] and sw[2].endswith("multiaddr::Protocol")]
            ok2 = bool(p2p_sw) and all(c.node not in fn.reach([n for n, l in fn.succs(sw[0]) if l in fn.variant_edges(sw, "P2p")], avoid=[nx.node for nx in nxt]) for sw in p2p_sw)
            ctx.ob("R10.1", "add_known_address/insert#%d-append-branch-not-taken-when-/p2p-present" % i, ok2, site=fn.site(c.node), cfg=fx.cfg,
                   detail="an address that names a peer must go through the comparison with `peer`")
        else:
            ok = same(c.args[1])
            eq_ok = False
            for ne in nes:
                is_ne = ne.name.endswith("::ne")
                for sw, t, f in fn.bool_tests(ne.dest[0]):
                    eq_ok = eq_ok or fn.only_via(c.node, sw, [f if is_ne else t])
            ctx.ob("R10.1", "add_known_address/insert#%d-unchanged-address-only-if-/p2p==peer" % i, ok and eq_ok, site=fn.site(c.node), cfg=fx.cfg,
                   detail="stored operand is the loop address: %s; behind the equal edge of the peer-id comparison: %s" % (ok, eq_ok))
    # hand-over
    ext = [c for c in fn.calls(r"AddressStore as std::iter::Extend<.*AddressRecord>>::extend$|Extend(<.*>)?>?::extend$") if ".addresses" in fn.recv(c)]
    ctx.anchor("R10.1", "add_known_address: AddressStore::extend", len(ext), 1, cfg=fx.cfg)
    for e in ext:
        rs = fn.roots(e.args[1])
        ok = set_local in _all_slice(fn, e.args[1]) and ("const", "fn:" + A + "AddressRecord::from_multiaddr") in rs
        ctx.ob("R10.1", "add_known_address/extends-with-the-gated-set-via-from_multiaddr", ok, site=fn.site(e.node), cfg=fx.cfg,
               detail="roots: %s" % sorted(guards.rootstrs(fn, e.args[1])))
        # the context that is extended is the one filed under `peer`: obtained with entry(peer) / get_mut(peer) before the extend, or a
        # fresh context that is inserted under `peer` afterwards
        en = [c for c in fn.calls(r"HashMap(<.*>)?::(entry|get_mut)$") if c.node in fn.reach_back([e.node])]
        en += [c for c in fn.calls(r"HashMap(<.*>)?::insert$") if c.node in fn.reach([e.node], after=True)]
        ok = bool(en) and all(guards.rootstrs(fn, c.args[1]) <= {"param:_2*", "param:_2"} for c in en)
        ctx.ob("R10.1", "add_known_address/extends-the-entry-of-`peer`", ok, site=fn.site(e.node), cfg=fx.cfg)


def _all_slice(fn, o, depth=0):
    """locals in the backward slice through copies and call arguments (2 levels)"""
    out = set(slice_locals(fn, o))
    for _ in range(3):
        new = set()
        for l in out:
            for node, kind, pl in fn.defs().get(l, []):
                if kind == "call":
                    for a in pl["args"]:
                        new |= slice_locals(fn, a)
        if new <= out:
            break
        out |= new
    return out


MAP_MUT = r"HashMap::(insert|remove|entry|get_mut|retain|clear|drain|extend|values_mut|iter_mut|remove_entry)$"


def is_store_map(c):
    a = c.f.get("args") or []
    return len(a) >= 2 and a[0] == "multiaddr::Multiaddr" and a[1].endswith("address::AddressRecord")


def r10_6(ctx, fx):
    """dial_address remembers an address only if it can be dialed by an enabled transport: the AddressStore::insert of the dialed
    address lies behind the test that its transport is installed.  (A refused `/ws` address kept in the store of a TCP-only node later
    takes a dial slot, or wedged the peer before F16.)"""
    fn = ctx.fn(fx, "transport::manager::TransportManager::dial_address::{closure#0}", "R10.6")
    if fn is None:
        return
    ins = [c for c in fn.calls(r"AddressStore::insert$")]
    ctx.anchor("R10.6", "dial_address: AddressStore::insert", len(ins), 1, cfg=fx.cfg)
    ok_edges = set()
    for c in fn.calls(r"(IndexMap|HashMap)(<.*>)?::contains_key$|TransportContext::contains\w*$"):
        if "transports" in fn.recv(c):
            for sw, t, f in fn.bool_tests(c.dest[0]):
                ok_edges.add((sw, t))
    for c in fn.calls(r"TransportContext::get_mut$|(IndexMap|HashMap)(<.*>)?::get(_mut)?$"):
        if "transports" in fn.recv(c):
            for sw in fn.discr_switches():
                if sw[1] and c.dest and sw[1][0] in fn.copies_of(c.dest[0]) | {c.dest[0]}:
                    for lab in fn.variant_edges(sw, "Some"):
                        ok_edges.add((sw[0], lab))
            for b in fn.calls(r"ops::Try>?::branch$"):
                if b.args and fn.producer(b.args[0]) is not None and re.search(r"ok_or(_else)?$", fn.producer(b.args[0]).name):
                    pass
    for i, c in enumerate(ins):
        ok = bool(ok_edges) and c.node not in fn.reach([fn.entry], cut=ok_edges)
        ctx.ob("R10.6", "dial_address/address-remembered-only-if-its-transport-is-installed#%d" % i, ok, site=fn.site(c.node), cfg=fx.cfg,
               detail="installed-transport tests found: %d" % len(ok_edges))
    # the same gate as add_known_address (sibling): not one of the node's own listen addresses whatever peer id it carries
    # (is_local_address strips the /p2p component), and not an unspecified IP
    loc = set()
    for c in fn.calls(r"TransportManagerHandle::is_local_address$"):
        for sw, t, f in fn.bool_tests(c.dest[0]):
            loc.add((sw, f))
    unspec = {}
    for c in fn.calls(r"(Ipv4Addr|Ipv6Addr)::is_unspecified$"):
        fam = "ip4" if "Ipv4" in c.name else "ip6"
        for sw, t, f in fn.bool_tests(c.dest[0]):
            unspec.setdefault(fam, set()).add((sw, t))
    dials = [c.node for c in fn.calls(r"transport::Transport::dial$")]
    csw = [sw for sw in fn.discr_switches() if sw[2].endswith("peer_state::StateDialResult")]
    not_ok = set()
    for sw in csw:
        for v in list(sw[3]) + list(sw[5]):
            if v != "Ok":
                for lab in fn.variant_edges(sw, v):
                    if lab not in fn.variant_edges(sw, "Ok"):
                        not_ok.add((sw[0], lab))
    for i, c in enumerate(ins):
        ctx.ob("R10.6", "dial_address/insert#%d-only-if-not-a-local-address(is_local_address)" % i, bool(loc) and c.node not in fn.reach([fn.entry], cut=loc), site=fn.site(c.node), cfg=fx.cfg,
               detail="is_local_address tests: %d" % len(loc))
        r_uns = all(c.node not in fn.reach([n_ for sw_, lab in es for n_, l in fn.succs(sw_) if l == lab]) for es in unspec.values())
        ctx.ob("R10.6", "dial_address/insert#%d-not-for-an-unspecified-ip" % i, len(unspec) == 2 and r_uns, site=fn.site(c.node), cfg=fx.cfg,
               detail="is_unspecified tests per family: %s" % sorted(unspec))
        # remembered only once the transport accepted it: on the path that dials, the insert follows Transport::dial
        after_dial = bool(dials) and c.node not in fn.reach([fn.entry], avoid=dials)
        no_dial_path = bool(not_ok) and c.node not in fn.reach([fn.entry], cut=not_ok)
        ctx.ob("R10.6", "dial_address/insert#%d-after-the-transport-accepted-the-address" % i, after_dial or no_dial_path, site=fn.site(c.node), cfg=fx.cfg,
               detail="after Transport::dial: %s; on a path that does not dial (already connected / dialing): %s" % (after_dial, no_dial_path))


def r10_2(ctx, fx):
    muts = {}
    for key in fx.fn_keys():
        s = fx.sums.get(key)
        if s is not None and not any(d and "HashMap" in d for d, r in s["calls"]):
            continue
        fn = fx.fn(key)
        for c in fn.calls(MAP_MUT):
            if is_store_map(c):
                muts.setdefault(re.sub(r"::\{closure#\d+\}", "", key), []).append(c.name.rsplit("::", 1)[-1])
    ctx.ob("R10.2", "AddressStore.addresses-mutated-only-in-AddressStore::insert", set(muts) == {A + "AddressStore::insert"}, cfg=fx.cfg,
           detail="bodies mutating a HashMap<Multiaddr, AddressRecord>: %s" % {short(k): v for k, v in muts.items()})
    cons = set(fx.constructors_of(A + "AddressStore::AddressStore"))
    ctx.ob("R10.2", "AddressStore-literals-only-in-new(+derived Clone/Default)", cons - {"<%sAddressStore as std::clone::Clone>::clone" % A, "<%sAddressStore as std::default::Default>::default" % A} == {A + "AddressStore::new"}, cfg=fx.cfg,
           detail="constructors: %s" % sorted(cons))
    dcall = fx.callers_of("<%sAddressStore as std::default::Default>::default" % A)
    ctx.ob("R10.2", "AddressStore::default-(capacity-0)-unused", not dcall, cfg=fx.cfg, detail="callers: %s" % dcall)
    adt = fx.adts.get(A + "AddressStore")
    vis = [f.get("vis") for v in (adt or {}).get("variants", []) for f in v.get("fields", []) if f.get("name") == "max_capacity"]
    ctx.ob("R10.2", "AddressStore.max_capacity-is-private", bool(vis) and all(re.search(r"::address\)\)$", str(v)) for v in vis), cfg=fx.cfg, detail=str(vis))
    wr = []
    for key in fx.find(r"^transport::manager::address::|^<transport::manager::address::"):
        fn = fx.fn(key)
        for n, s in fn.assigns():
            if "".join(s["lhs"][1:]).endswith(".max_capacity"):
                wr.append(short(key))
    ctx.ob("R10.2", "AddressStore.max_capacity-never-reassigned", not wr, cfg=fx.cfg, detail=str(wr))
    fn = ctx.fn(fx, A + "AddressStore::new", "R10.2")
    if fn is not None:
        aggs = fn.aggregates(r"AddressStore$")
        ok = bool(aggs) and all(guards.rootstrs(fn, s["rv"]["ops"][1]) == {"const:" + A + "MAX_ADDRESSES"} for n, s in aggs)
        mx = fx.const(A + "MAX_ADDRESSES")
        ctx.ob("R10.2", "AddressStore::new/capacity=MAX_ADDRESSES>0", ok and isinstance(mx, int) and mx > 0, site=fn.site(fn.entry), cfg=fx.cfg, detail="MAX_ADDRESSES=%s" % mx)
    fn = ctx.fn(fx, A + "AddressStore::insert", "R10.2")
    if fn is None:
        return
    grow = [c for c in fn.calls(r"HashMap::insert$") if is_store_map(c)] + [c for c in fn.calls(r"hash_map::(VacantEntry|Entry)(<.*>)?::(insert|or_insert|or_insert_with|insert_entry)$")]
    rem = [c for c in fn.calls(r"HashMap::remove$") if is_store_map(c)]
    ctx.anchor("R10.2", "AddressStore::insert: HashMap::insert / remove", min(len(grow), len(rem)), 1, cfg=fx.cfg)
    is_q = lambda f, o: any(l.dest[0] in slice_locals(f, o, strict=True) for l in f.calls(r"HashMap::len$") if is_store_map(l))
    is_b = lambda f, o: any(r[0] == "param" and r[2].endswith(".max_capacity") for r in f.roots(o)) and not any(r[0] == "call" for r in f.roots(o))
    facts = guards.edge_facts(fn, is_q, is_b)
    ctx.anchor("R10.2", "AddressStore::insert: comparison len vs max_capacity", len({cn for *_, cn in facts}), 1, cfg=fx.cfg)
    good = {(sw, lab) for sw, lab, rel, cn in facts if rel in guards.IMPLIES["<"]}
    full = {(sw, lab) for sw, lab, rel, cn in facts if rel in guards.IMPLIES[">="]}
    for g in grow:
        r = fn.reach([fn.entry], cut=good, avoid=[c.node for c in rem])
        ctx.ob("R10.2", "AddressStore::insert/grow-only-if-len<max-or-after-remove", bool(good) and g.node not in r, site=fn.site(g.node), cfg=fx.cfg,
               detail="the new record may be stored only below capacity or after evicting one")
    for c in rem:
        r = fn.reach([fn.entry], cut=full)
        ctx.ob("R10.2", "AddressStore::insert/evict-only-at-capacity", c.node not in r, site=fn.site(c.node), cfg=fx.cfg)
        # the evicted key is the minimum record's address
        rs = guards.rootstrs(fn, c.args[1])
        ctx.ob("R10.2", "AddressStore::insert/evicts-the-minimum-record", any(x.endswith("Iterator::min") for x in rs), site=fn.site(c.node), cfg=fx.cfg, detail="roots: %s" % sorted(rs)[:8])
    # the at-capacity block (evict the minimum, or drop the new record) is entered only for an address that is not stored yet: a dial
    # result for a known address must re-score it whatever the fill level, and must not cost another address its slot
    absent = set()
    for sw in fn.discr_switches():
        if sw[2].endswith("hash_map::Entry"):
            for lab in fn.variant_edges(sw, "Vacant"):
                absent.add((sw[0], lab))
    for c in fn.calls(r"HashMap::contains_key$"):
        if is_store_map(c):
            for sw_, t, f in fn.bool_tests(c.dest[0]):
                absent.add((sw_, f))
    from common import map_presence_edges
    absent |= map_presence_edges(fn, "addresses")[1]
    ctx.anchor("R10.2", "AddressStore::insert: presence test of the address", len(absent), 1, cfg=fx.cfg)
    r = fn.reach([fn.entry], cut=absent)
    inside = [n_ for (sw_, lab) in full for n_, l in fn.succs(sw_) if l == lab]
    ctx.ob("R10.2", "AddressStore::insert/at-capacity-block-only-for-an-address-not-yet-stored", bool(inside) and not any(n_ in r for n_ in inside),
           site=fn.site(inside[0]) if inside else fn.site(fn.entry), cfg=fx.cfg,
           detail="the `len >= max_capacity` block must be reachable only over the Vacant / not-contained edge")
    # `min()` means lowest score only if AddressRecord's ordering is the ordering of the scores, in that direction
    of = ctx.fn(fx, "<transport::manager::address::AddressRecord as std::cmp::Ord>::cmp", "R10.2")
    if of is not None:
        cs = [c for c in of.calls(r"cmp::Ord.*::cmp$|::cmp$") if c.dest == [0]]
        ok = len(cs) == 1 and len(cs[0].args) == 2 and re.match(r"&?_1\b.*\.score$", of.origin(cs[0].args[0])) is not None \
            and re.match(r"&?_2\b.*\.score$", of.origin(cs[0].args[1])) is not None and "Reverse" not in cs[0].name
        ctx.ob("R10.2", "AddressRecord::cmp/is-self.score.cmp(other.score)", ok, site=of.site(of.entry), cfg=fx.cfg,
               detail="origins: %s" % [of.origin(a) for c in cs for a in c.args])
    pf = ctx.fn(fx, "<transport::manager::address::AddressRecord as std::cmp::PartialOrd>::partial_cmp", "R10.2")
    if pf is not None:
        cs = pf.calls(r"AddressRecord as std::cmp::Ord>::cmp$")
        ok = len(cs) == 1 and re.match(r"&?_1\b", pf.origin(cs[0].args[0])) is not None and re.match(r"&?_2\b", pf.origin(cs[0].args[1])) is not None \
            and all(x.startswith("Some.call:") and x.endswith("Ord>::cmp") for x in pf.shape({"c": [0]}))
        ctx.ob("R10.2", "AddressRecord::partial_cmp/is-Some(self.cmp(other))", ok, site=pf.site(pf.entry), cfg=fx.cfg)
    # refusal: new.score < min.score -> return without storing
    def is_new(f, o):
        rs = f.roots(o)
        return any(r[0] == "param" and r[1] == 2 for r in rs) and not any(r[0] == "call" and r[1].endswith("Iterator::min") for r in rs)

    def is_min(f, o):
        return any(r[0] == "call" and r[1].endswith("Iterator::min") for r in f.roots(o))
    sf = guards.edge_facts(fn, is_new, is_min)
    ctx.anchor("R10.2", "AddressStore::insert: comparison new.score vs min.score", len({cn for *_, cn in sf}), 1, cfg=fx.cfg)
    worse = [(sw, lab) for sw, lab, rel, cn in sf if rel == "<"]
    for sw, lab in worse:
        r = fn.reach([n for n, l in fn.succs(sw) if l == lab])
        ctx.ob("R10.2", "AddressStore::insert/worse-than-minimum-is-refused", not any(g.node in r for g in grow) and not any(c.node in r for c in rem), site=fn.site(sw), cfg=fx.cfg)
    notworse = {(sw, lab) for sw, lab, rel, cn in sf if rel in guards.IMPLIES[">="]}
    for c in rem:
        r = fn.reach([fn.entry], cut=notworse)
        ctx.ob("R10.2", "AddressStore::insert/evict-only-for-a-record-not-worse-than-the-minimum", bool(notworse) and c.node not in r, site=fn.site(c.node), cfg=fx.cfg)
    # the `expect` on min() is discharged by len >= max_capacity and max_capacity > 0 (R10.2 new)
    ex = [c for c in fn.calls(r"Option::expect$")]
    for c in ex:
        r = fn.reach([fn.entry], cut=full)
        ctx.ob("R10.2", "AddressStore::insert/min().expect-only-when-len>=max_capacity>0", c.node not in r, site=fn.site(c.node), cfg=fx.cfg)
    # occupied path: score updated only for non-zero scores, with the record's score
    up = fn.calls(r"AddressRecord::update_score$")
    ctx.anchor("R10.4", "AddressStore::insert: update_score", len(up), 1, cfg=fx.cfg)
    for u in up:
        rs = guards.rootstrs(fn, u.args[1])
        ctx.ob("R10.4", "AddressStore::insert/occupied-update-uses-the-new-score", rs == {"param:_2.score"}, site=fn.site(u.node), cfg=fx.cfg, detail=str(sorted(rs)))
        zf = guards.edge_facts(fn, lambda f, o: guards.rootstrs(f, o) == {"param:_2.score"}, lambda f, o: f.const_value(o) == 0)
        nz = {(sw, lab) for sw, lab, rel, cn in zf if rel == "!="}
        ctx.ob("R10.4", "AddressStore::insert/rediscovery(score 0)-does-not-overwrite", bool(nz) and u.node not in fn.reach([fn.entry], cut=nz), site=fn.site(u.node), cfg=fx.cfg)
        # occupied path returns without growing
        occ_sw = [sw for sw in fn.discr_switches() if sw[2] and sw[2].endswith("Entry")]
        for sw in occ_sw[:1]:
            r = fn.reach([n for n, l in fn.succs(sw[0]) if l in fn.variant_edges(sw, "Occupied")])
            ctx.ob("R10.2", "AddressStore::insert/occupied-path-does-not-grow", not any(g.node in r for g in grow), site=fn.site(sw[0]), cfg=fx.cfg)


def r10_4(ctx, fx):
    fn = ctx.fn(fx, TM + "update_address_on_dial_failure", "R10.4")
    if fn is not None:
        new = fn.calls(r"AddressRecord::new$")
        ins = fn.calls(r"AddressStore::insert$")
        es = fn.calls(r"AddressStore::error_score$")
        ctx.anchor("R10.4", "update_address_on_dial_failure: AddressRecord::new / insert / error_score", min(len(new), len(ins), len(es)), 1, cfg=fx.cfg)
        if new and ins and es:
            n = new[0]
            ra = guards.rootstrs(fn, n.args[1])
            ctx.ob("R10.4", "dial-failure/re-scores-the-failed-address", "param:_2" in ra and all(x == "param:_2" or "Clone" in x or "clone" in x for x in ra), site=fn.site(n.node), cfg=fx.cfg, detail=str(sorted(ra)))
            rsx = guards.rootstrs(fn, n.args[2])
            ctx.ob("R10.4", "dial-failure/score=error_score(error)", rsx <= {"call:" + A + "AddressStore::error_score", "param:_3", "param:_3*"} and any("error_score" in x for x in rsx), site=fn.site(n.node), cfg=fx.cfg, detail=str(sorted(rsx)))
            rp = guards.rootstrs(fn, n.args[0])
            ctx.ob("R10.4", "dial-failure/peer-is-the-/p2p-of-the-failed-address", any(re.search(r"PeerId::(from_multihash|try_from_multiaddr)$", x) for x in rp) and "param:_2" in rp and not any(x.startswith("param:_1") and "peers" not in x for x in rp), site=fn.site(n.node), cfg=fx.cfg, detail=str(sorted(rp))[:300])
            ri = guards.rootstrs(fn, ins[0].args[1])
            ctx.ob("R10.4", "dial-failure/inserts-that-record", any("AddressRecord::new" in x for x in ri), site=fn.site(ins[0].node), cfg=fx.cfg)
            en = fn.calls(r"HashMap(<.*>)?::(entry|get_mut|insert)$")
            # (PeerId::try_from_multiaddr is the crate's helper for "the peer id of the trailing /p2p": R18 checks it)
            ok = bool(en) and all(any(re.search(r"PeerId::(from_multihash|try_from_multiaddr)$", x) for x in guards.rootstrs(fn, e_.args[1])) for e_ in en)
            ctx.ob("R10.4", "dial-failure/under-the-entry-of-that-peer", ok, site=fn.site(ins[0].node), cfg=fx.cfg)
            bad = [n2 for n2, _ in fn.exits() if n2 in fn.reach([fn.entry], avoid=[ins[0].node])]
            # the only way to skip the insert is an address without /p2p (peer_id None)
            ctx.note("dial_failure_skip_exits", [fn.site(b) for b in bad])
    fn = ctx.fn(fx, A + "AddressStore::error_score", "R10.4")
    if fn is not None:
        af = fx.const(A + "scores::ADDRESS_FAILURE")
        cf = fx.const(A + "scores::CONNECTION_FAILURE")
        ce = fx.const(A + "scores::CONNECTION_ESTABLISHED")
        ctx.ob("R10.4", "scores/failures-negative-success-positive", all(isinstance(x, int) for x in (af, cf, ce)) and af < 0 and cf < 0 and ce > 0 and af <= cf, cfg=fx.cfg,
               detail="ADDRESS_FAILURE=%s CONNECTION_FAILURE=%s CONNECTION_ESTABLISHED=%s" % (af, cf, ce))
        sws = [sw for sw in fn.discr_switches() if sw[2] and sw[2].endswith("DialError")]
        ctx.anchor("R10.4", "error_score: match on DialError", len(sws), 1, cfg=fx.cfg)
        for sw in sws[:1]:
            def consts_on(edges):
                r = fn.reach([n for n, l in fn.succs(sw[0]) if l in edges])
                out = set()
                for n, shapes in fn.ret_sites():
                    if n in r:
                        out |= shapes
                return out
            a_edges = fn.variant_edges(sw, "AddressError")
            o_edges = [l for n, l in fn.succs(sw[0]) if l not in a_edges]
            ca, co = consts_on(a_edges), consts_on(o_edges)
            ctx.ob("R10.4", "error_score/AddressError->ADDRESS_FAILURE", ca == {"constdef:" + A + "scores::ADDRESS_FAILURE"}, site=fn.site(sw[0]), cfg=fx.cfg, detail=str(ca))
            ctx.ob("R10.4", "error_score/other-errors->CONNECTION_FAILURE", co == {"constdef:" + A + "scores::CONNECTION_FAILURE"}, site=fn.site(sw[0]), cfg=fx.cfg, detail=str(co))
    fn = ctx.fn(fx, TM + "update_address_on_connection_established", "R10.4")
    if fn is not None:
        new = fn.calls(r"AddressRecord::new$")
        il = fn.calls(r"Endpoint::is_listener$")
        ins = fn.calls(r"AddressStore::insert$")
        ctx.anchor("R10.4", "update_address_on_connection_established: new / is_listener / insert", min(len(new), len(il), len(ins)), 1, cfg=fx.cfg)
        if new and il and ins:
            n = new[0]
            ctx.ob("R10.4", "established/score=CONNECTION_ESTABLISHED", guards.rootstrs(fn, n.args[2]) == {"const:" + A + "scores::CONNECTION_ESTABLISHED"}, site=fn.site(n.node), cfg=fx.cfg)
            ra = guards.rootstrs(fn, n.args[1])
            ctx.ob("R10.4", "established/address=endpoint.address()", any(x.endswith("Endpoint::address") for x in ra) and any(x.startswith("param:_3") for x in ra), site=fn.site(n.node), cfg=fx.cfg, detail=str(sorted(ra)))
            ctx.ob("R10.4", "established/peer=the-connected-peer", guards.rootstrs(fn, n.args[0]) == {"param:_2"}, site=fn.site(n.node), cfg=fx.cfg)
            ok = any(fn.only_via(ins[0].node, sw, [f]) for sw, t, f in fn.bool_tests(il[0].dest[0]))
            ctx.ob("R10.4", "established/only-as-dialer", ok, site=fn.site(ins[0].node), cfg=fx.cfg, detail="an inbound connection's remote address is ephemeral and must not be scored")
    # every DialFailure / OpenFailure / ConnectionOpened error is fed to update_address_on_dial_failure
    fn = ctx.fn(fx, TM + "next::{closure#0}", "R10.4")
    if fn is not None:
        ups = fn.calls(r"TransportManager::update_address_on_dial_failure$")
        ctx.anchor("R10.4", "next: update_address_on_dial_failure call sites", len(ups), 3, cfg=fx.cfg)
        odf = fn.calls(r"TransportManager::on_dial_failure$")
        for c in odf:
            ok = c.node not in fn.reach([fn.entry], avoid=[u.node for u in ups])
            ctx.ob("R10.4", "next/address-re-scored-before-on_dial_failure", ok, site=fn.site(c.node), cfg=fx.cfg)
        # every batch of per-address errors a transport reports is scored before the event is interpreted by the state machine:
        # the error loop (whose body re-scores) dominates on_open_failure / on_connection_opened
        loops = []
        for nx in fn.calls(r"Iterator>?::next$"):
            sws = [sw for sw in fn.discr_switches() if sw[1][0] in fn.copies_of(nx.dest[0]) and len(sw[1]) == 1]
            if not sws:
                continue
            body = fn.reach([m for m, l in fn.succs(sws[0][0]) if l in fn.variant_edges(sws[0], "Some")], avoid=[nx.node])
            if any(u.node in body for u in ups):
                loops.append(nx.node)
        ctx.anchor("R10.4", "next: error loops that re-score", len(loops), 2, cfg=fx.cfg)
        for meth in ("on_open_failure", "on_connection_opened"):
            for c in fn.calls(r"TransportManager::%s$" % meth):
                ok = bool(loops) and c.node not in fn.reach([fn.entry], avoid=loops)
                ctx.ob("R10.4", "next/reported-errors-re-scored-before-%s" % meth, ok, site=fn.site(c.node), cfg=fx.cfg,
                       detail="the (address, error) pairs of the transport event must be fed to update_address_on_dial_failure whatever the state machine answers")
        for i, u in enumerate(ups):
            rs = guards.rootstrs(fn, u.args[1])
            ctx.ob("R10.4", "next/re-score#%d-takes-the-address-from-the-transport-event" % i, fn.producer(u.args[1]) is not None and fn.producer(u.args[1]).matches(r"Multiaddr as std::clone::Clone>::clone$"), site=fn.site(u.node), cfg=fx.cfg, detail=str(sorted(rs))[:260])


def r10_5(ctx, fx):
    fn = ctx.fn(fx, A + "AddressStore::addresses", "R10.5")
    cl = ctx.fn(fx, A + "AddressStore::addresses::{closure#0}", "R10.5")
    if fn is not None and cl is not None:
        srt = fn.calls(r"sort(_unstable)?_by(_cached)?_key$")
        srt_by = fn.calls(r"sort(_unstable)?_by$")
        tk = fn.calls(r"Iterator::take$")
        ctx.anchor("R10.5", "addresses: sort_by_key + take", min(len(srt) + len(srt_by), len(tk)), 1, cfg=fx.cfg)
        if not srt and srt_by:
            # `sort_by(|l, r| r.score.cmp(&l.score))`: the comparator orders by score, descending (second argument first)
            cs = [c for c in cl.calls(r"cmp::Ord.*::cmp$|::cmp$") if c.dest == [0]]
            okc = len(cs) == 1 and len(cs[0].args) == 2 and re.search(r"_3\b.*\.score$", cl.origin(cs[0].args[0])) is not None \
                and re.search(r"_2\b.*\.score$", cl.origin(cs[0].args[1])) is not None and "Reverse" not in cs[0].name
            ctx.ob("R10.5", "addresses/sort-key-is-Reverse(score)", bool(okc), site=cl.site(cl.entry), cfg=fx.cfg, detail="highest score first (comparator rhs.score.cmp(lhs.score))")
            okt = closure_arg(fn, srt_by[0], "addresses::{closure#0}") and guards.rootstrs(fn, tk[0].args[1]) == {"param:_2"} and tk[0].node in fn.reach([srt_by[0].node], after=True) if tk else False
            ctx.ob("R10.5", "addresses/take(limit)-after-sorting", bool(okt), site=fn.site(fn.entry), cfg=fx.cfg)
            srt = []
            cl = None
    if fn is not None and cl is not None:
        aggs = [s for n, s in cl.assigns() if s["rv"]["r"] == "agg" and s["lhs"] == [0]]
        ok = bool(aggs) and all(s["rv"]["adt"].endswith("cmp::Reverse") and cl.origin(s["rv"]["ops"][0]).endswith(".score") for s in aggs)
        if not ok:
            aggs2 = [s for n, s in cl.assigns() if s["rv"]["r"] == "agg" and s["rv"]["adt"].endswith("cmp::Reverse")]
            ok = bool(aggs2) and all(any(p.endswith(".score") for p in [r[2] for r in cl.roots(s["rv"]["ops"][0]) if r[0] == "param"]) for s in aggs2) and guards.rootstrs(cl, {"c": [0]}) and not [s for n, s in cl.assigns() if s["rv"]["r"] in ("bin", "un")]
        ctx.ob("R10.5", "addresses/sort-key-is-Reverse(score)", bool(ok), site=cl.site(cl.entry), cfg=fx.cfg, detail="highest score first")
        if srt and tk:
            ok = closure_arg(fn, srt[0], "addresses::{closure#0}") and guards.rootstrs(fn, tk[0].args[1]) == {"param:_2"} and tk[0].node in fn.reach([srt[0].node], after=True)
            ctx.ob("R10.5", "addresses/take(limit)-after-sorting", ok, site=fn.site(tk[0].node), cfg=fx.cfg)
    fn = ctx.fn(fx, TM + "dial::{closure#0}", "R10.5")
    if fn is not None:
        ad = fn.calls(r"AddressStore::addresses$")
        ctx.anchor("R10.5", "dial: AddressStore::addresses", len(ad), 1, cfg=fx.cfg)
        for c in ad:
            rs = guards.rootstrs(fn, c.args[1])
            ctx.ob("R10.5", "dial/limit-is-free-outbound-capacity", any(x.endswith("ConnectionLimits::on_dial_address") for x in rs) and not any(re.match(r"const:\d+$", x) for x in rs), site=fn.site(c.node), cfg=fx.cfg, detail=str(sorted(rs)))
    fn = ctx.fn(fx, "transport::manager::limits::ConnectionLimits::on_dial_address", "R10.5")
    if fn is not None:
        subs = [s for n, s in fn.assigns() if s["rv"]["r"] == "bin" and s["rv"]["op"].startswith("Sub")]
        ok = len(subs) == 1 and any(p.endswith("max_outgoing_connections") or "max_outgoing" in p for p in [r[2] for r in fn.roots(subs[0]["rv"]["a"]) if r[0] == "param"]) and any(r[0] == "call" and r[1].endswith("HashSet::len") for r in fn.roots(subs[0]["rv"]["b"]))
        ctx.ob("R10.5", "on_dial_address/capacity=max-len(outgoing)", ok, site=fn.site(fn.entry), cfg=fx.cfg, detail="subtractions: %d" % len(subs))


def run(ctx):
    fx = ctx.facts("default")
    r10_1(ctx, fx)
    r10_2(ctx, fx)
    r10_4(ctx, fx)
    r10_5(ctx, fx)
    r10_6(ctx, fx)
    ctx.assume("supported_transport / is_local_address decide dialability and locality (their parser agreement with the transports is not decided here)")
    ctx.assume("invariant used inductively: AddressStore.addresses.len() <= max_capacity")
