"""C03 - Protocol negotiation agrees on one protocol and is transparent afterwards (structural necessary conditions only).

Decided (each is a necessary condition of "both sides end on the same protocol" / "bytes pass unchanged afterwards"):
R03.1 (K2) dialer: DialerSelectFuture::poll completes with (protocol, Negotiated::completed(..)) only over the Message::Protocol edge
      AND the equal edge of `received == proposed`, returning the proposed protocol it compared; the protocol put on the wire in
      SendProtocol is that same state field; V1Lazy settles (Negotiated::expecting) on the protocol it just proposed; on
      NotAvailable the next candidate comes from the iterator (`protocols.next()`), and exhaustion is NegotiationError::Failed;
      the header is accepted at most once (`!header_received`); every other message is an error; into_inner only after a
      completed flush of the proposal
R03.2 (K2) listener: the confirmation Message::Protocol(p) is built only when the requested protocol was found among the supported
      ones (find_map closure returns Some only over the equal edge), otherwise Message::NotAvailable; the negotiation completes
      only in the Flush state, over poll_flush Ready(Ok) and the Some edge of the selected protocol, i.e. after the confirmation
      was flushed; `ls` is answered with the supported list
R03.3 (K2) WebRTC dialer (message based): register_response succeeds only for a protocol equal to the proposed main or a proposed
      fallback name
R03.5 (typestate) re-entrancy: an arm that returns Pending parks the same state variant it was entered with (dialer and listener)
R03.4 (K7) transparency: in the Completed state Negotiated::{poll_read, poll_write, poll_flush, poll_close} forward to the inner
      stream with the caller's buffer and return its result unmodified
Not decided: agreement on the *first* common name for all list pairs, termination for disjoint lists, behaviour under all byte
fragmentations, interoperability with rust-libp2p (values, schedules, a foreign implementation).
"""
import re
from paths import refine_cuts
from common import short, slice_locals, closure_returns, ref_local
import guards

EXPLANATION = ("Guarded-by and return-shape rules over the MIR CFG of the multistream-select state machines: a negotiation completes only "
               "for a protocol that was both proposed and confirmed (dialer) / requested and supported (listener), confirmations are "
               "flushed before the stream is handed over, and the negotiated stream forwards reads and writes to the inner stream unchanged.")

D = "<multistream_select::dialer_select::DialerSelectFuture<R, I> as futures::Future>::poll"
L = "<multistream_select::listener_select::ListenerSelectFuture<R, N> as futures::Future>::poll"
NEG = "<multistream_select::negotiated::Negotiated<TInner> as futures::"


def ok_exits(fn):
    return [n for n, sh in fn.exits() if any(s.startswith("Ready.Ok") for s in sh)]


def msg_switches(fn, explicit=("Protocol",)):
    """switches over a received Message that name the given variants explicitly (the dispatch on the message kind)"""
    return [sw for sw in fn.discr_switches() if sw[2] and sw[2].endswith("protocol::Message") and all(v in sw[3] for v in explicit)]


def r03_1(ctx, fx):
    fn = ctx.fn(fx, D, "R03.1")
    if fn is None:
        return
    comp = fn.calls(r"Negotiated(<.*>)?::completed$")
    expc = fn.calls(r"Negotiated(<.*>)?::expecting$")
    ctx.anchor("R03.1", "dialer: Negotiated::completed / expecting", min(len(comp), len(expc)), 1, cfg=fx.cfg)
    eqs = [c for c in fn.calls(r"PartialEq(<.*>)?>?::eq$|cmp::impls::(<impl .*>::)?eq$")
           if any("AsRef" in x or "as_ref" in x for x in guards.rootstrs(fn, c.args[0]) | guards.rootstrs(fn, c.args[1]))
           and any("Message" in fn.locals[l] or "Protocol" in fn.locals[l] for a in c.args for l in slice_locals(fn, a) | _ref_locals(fn, a))]
    # the equality between the received protocol and the proposed one: operands derive from the message payload and the state's protocol
    msw = msg_switches(fn)
    ctx.anchor("R03.1", "dialer: match on the received Message", len(msw), 1, cfg=fx.cfg)
    cand = []
    for c in fn.calls(r"::eq$"):
        rs0, rs1 = guards.rootstrs(fn, c.args[0]), guards.rootstrs(fn, c.args[1])
        if any("as_ref" in x for x in rs0) and any("as_ref" in x for x in rs1):
            cand.append(c)
    ctx.anchor("R03.1", "dialer: comparison received.as_ref() == proposed.as_ref()", len(cand), 1, cfg=fx.cfg)
    for i, c in enumerate(comp):
        ok_eq = any(fn.only_via(c.node, sw, [t]) for e in cand for sw, t, f in fn.bool_tests(e.dest[0]))
        ok_var = any(fn.only_via(c.node, sw[0], fn.variant_edges(sw, "Protocol")) for sw in msw)
        ctx.ob("R03.1", "dialer/completed#%d-only-if-confirmation==proposal" % i, ok_eq and ok_var, site=fn.site(c.node), cfg=fx.cfg,
               detail="behind the equal edge: %s; behind the Message::Protocol edge: %s" % (ok_eq, ok_var))
    # the two operands of the comparison: one from the received message, one from the state's `protocol`
    for e in cand[:1]:
        o0, o1 = _as_ref_target(fn, e.args[0]), _as_ref_target(fn, e.args[1])
        ctx.ob("R03.1", "dialer/comparison-is-between-message-payload-and-state-protocol", o0 is not None and o1 is not None and (("@Protocol" in o0) != ("@Protocol" in o1)), site=fn.site(e.node), cfg=fx.cfg,
               detail="operands: %s / %s" % (o0, o1))
    # success returns the proposed protocol (same local as compared) and the completed stream
    oks = ok_exits(fn)
    ctx.anchor("R03.1", "dialer: Ready(Ok(..)) exits", len(oks), 2, cfg=fx.cfg)
    # the proposal put on the wire is built from the state's protocol, and V1Lazy expects exactly it
    tf = fn.calls(r"Protocol as std::convert::TryFrom<&\[u8\]>>::try_from$|Protocol as .*TryFrom.*>::try_from$")
    ss = [c for c in fn.calls(r"Sink(<.*>)?>?::start_send$")]
    ctx.anchor("R03.1", "dialer: Protocol::try_from(protocol.as_ref()) + start_send", min(len(tf), len(ss)), 1, cfg=fx.cfg)
    for c in expc:
        rs = guards.rootstrs(fn, c.args[1])
        ok = any("try_from" in x for x in rs) and bool(tf) and not any("Stream" in x and "poll_next" in x for x in rs)
        ctx.ob("R03.1", "dialer/V1Lazy-expects-the-protocol-it-proposed", ok, site=fn.site(c.node), cfg=fx.cfg, detail=str(sorted(rs))[:200])
        # only when no further candidate exists
        pk = fn.calls(r"Peekable(<.*>)?::peek$")
        okp = False
        for p in pk:
            for s in fn.calls(r"option::Option(<.*>)?::(is_some|is_none)$"):
                if p.dest[0] in slice_locals(fn, s.args[0]) | _ref_locals(fn, s.args[0]):
                    none = s.name.endswith("is_none")
                    # behind "no further candidate": the false edge of is_some() / the true edge of is_none() (also as one conjunct of `&&`)
                    edges = {(sw, (t if none else f)) for sw, t, f in fn.bool_tests(s.dest[0])}
                    okp = okp or (bool(edges) and c.node not in fn.reach([fn.entry], cut=edges))
        ctx.ob("R03.1", "dialer/V1Lazy-only-for-the-last-candidate", okp, site=fn.site(c.node), cfg=fx.cfg)
    # NotAvailable -> next candidate from the iterator; exhaustion -> Failed
    nx = fn.calls(r"Iterator>?::next$")
    ctx.anchor("R03.1", "dialer: protocols.next()", len(nx), 2, cfg=fx.cfg)
    head = [c.node for c in fn.calls(r"mem::replace$")]
    for sw in msw[:1]:
        na = fn.variant_edges(sw, "NotAvailable")
        r = fn.reach([n for n, l in fn.succs(sw[0]) if l in na], avoid=[x.node for x in nx] + head)
        leaks = [fn.site(n) for n, s in fn.aggregates(r"dialer_select::State$", "SendProtocol") if n in r]
        ctx.ob("R03.1", "dialer/NotAvailable=>next-candidate", bool(na) and not leaks and not any(c.node in fn.reach([n for n, l in fn.succs(sw[0]) if l in na], avoid=head) for c in comp),
               site=fn.site(sw[0]), cfg=fx.cfg, detail="SendProtocol re-entered without advancing the iterator: %s" % leaks)
        # other messages: error
        others = [l for n, l in fn.succs(sw[0]) if l not in na and l not in fn.variant_edges(sw, "Protocol") and l not in fn.variant_edges(sw, "Header")]
        r2 = fn.reach([n for n, l in fn.succs(sw[0]) if l in others], avoid=head)
        ctx.ob("R03.1", "dialer/unexpected-message=>no-success", not any(c.node in r2 for c in comp + expc), site=fn.site(sw[0]), cfg=fx.cfg)
    # flush before waiting for the answer / into_inner
    ii = fn.calls(r"MessageIO(<.*>)?::into_inner$|::into_inner$")
    pf = [c for c in fn.calls(r"Sink(<.*>)?>?::poll_flush$")]
    ctx.anchor("R03.1", "dialer: poll_flush", len(pf), 1, cfg=fx.cfg)
    aw = [n for n, s in fn.aggregates(r"dialer_select::State$", "AwaitProtocol")]
    fl = [n for n, s in fn.aggregates(r"dialer_select::State$", "FlushProtocol")]
    # AwaitProtocol is entered from FlushProtocol only over the Ready edge of poll_flush (or re-entered from AwaitProtocol itself)
    for p in pf[:1]:
        cuts = refine_cuts(fn, p, ["Continue", "Pending"]) or refine_cuts(fn, p, ["Pending"])
        st_sw = [sw for sw in fn.discr_switches() if sw[2] and sw[2].endswith("dialer_select::State")]
        ok = False
        for sw in st_sw:
            e = fn.variant_edges(sw, "FlushProtocol")
            if not e:
                continue
            arm = fn.reach([n for n, l in fn.succs(sw[0]) if l in e])
            in_arm = [n for n in aw if n in arm]
            ok = bool(in_arm) and all(n not in fn.reach([n2 for n2, l in fn.succs(sw[0]) if l in e], avoid=[p.node]) for n in in_arm)
        ctx.ob("R03.1", "dialer/answer-awaited-only-after-flushing-the-proposal", ok, site=fn.site(p.node), cfg=fx.cfg)


def _ref_locals(fn, o):
    from common import ref_local
    l = ref_local(fn, o)
    return {l} if l is not None else set()


def _as_ref_target(fn, o):
    """origin string of x in `x.as_ref()` feeding operand o (through refs)"""
    pr = fn.producer(o)
    for _ in range(4):
        if pr is None:
            return None
        if pr.matches(r"AsRef(<.*>)?>?::as_ref$|::as_ref$"):
            return fn.origin(pr.args[0])
        if not pr.args:
            return None
        pr = fn.producer(pr.args[0])
    return None


def r03_2(ctx, fx):
    fn = ctx.fn(fx, L, "R03.2")
    if fn is None:
        return
    msw = msg_switches(fn)
    ctx.anchor("R03.2", "listener: match on the received Message", len(msw), 1, cfg=fx.cfg)
    fm = fn.calls(r"Iterator>?::find_map$|Iterator>?::find$|Iterator>?::position$")
    ctx.anchor("R03.2", "listener: lookup of the requested protocol among the supported ones", len(fm), 1, cfg=fx.cfg)
    # the lookup closure returns Some only on the equal edge of requested == supported
    for c in fm[:1]:
        cl = None
        for a in c.args[1:]:
            p = a.get("m") or a.get("c")
            for node, kind, pl in fn.defs().get(p[0], []) if p else []:
                if kind == "assign" and pl["rv"]["r"] == "agg" and pl["rv"].get("closure"):
                    cl = fx.fn(pl["rv"]["closure"])
        if cl is None:
            ctx.ob("R03.2", "listener/lookup-closure-found", False, site=fn.site(c.node), cfg=fx.cfg)
        else:
            ctx.bodies.add((fx.cfg, cl.key))
            eq = cl.calls(r"::eq$")
            somes = [n for n, sh in cl.exits() if any(s.startswith("Some") or s.startswith("const:1") for s in sh)]
            ok = bool(eq) and bool(somes) and all(any(cl.only_via(n, sw, [t]) for e in eq for sw, t, f in cl.bool_tests(e.dest[0])) for n in somes)
            if not ok and eq:
                # a predicate closure (`find(|(_, p)| p == requested)`) that returns the comparison itself
                from common import closure_returns
                rets = closure_returns(cl)
                ok = bool(rets) and all(r is not None and r[0] == 1 and r[1].matches(r"::eq$") for r in rets)
            ctx.ob("R03.2", "listener/supported-lookup-matches-only-on-equality", ok, site=cl.site(cl.entry), cfg=fx.cfg,
                   detail="the closure answers Some/true only over the equal edge of `requested == supported`")
            if eq:
                o = {cl.origin(a) for a in eq[0].args}
                ctx.ob("R03.2", "listener/lookup-compares-the-requested-protocol", any("{p}" in x or "_1" in x for x in o) and any("_2" in x or "proto" in x for x in o), site=cl.site(eq[0].node), cfg=fx.cfg, detail=str(sorted(o)))
    # confirmation only when found, NotAvailable otherwise
    conf = [n for n, s in fn.aggregates(r"protocol::Message$", "Protocol")]
    na = [n for n, s in fn.aggregates(r"protocol::Message$", "NotAvailable")]
    ctx.anchor("R03.2", "listener: Message::Protocol / Message::NotAvailable aggregates", min(len(conf), len(na)), 1, cfg=fx.cfg)
    iss = [s for s in fn.calls(r"option::Option(<.*>)?::is_some$") if fm and fm[0].dest[0] in slice_locals(fn, s.args[0]) | _ref_locals(fn, s.args[0])]
    found_tests = [t for s in iss for t in fn.bool_tests(s.dest[0])]
    for sw in fn.discr_switches():
        if fm and sw[1][0] in fn.copies_of(fm[0].dest[0]) and len(sw[1]) == 1:
            found_tests.append((sw[0], fn.variant_edges(sw, "Some")[0] if fn.variant_edges(sw, "Some") else None, fn.variant_edges(sw, "None")[0] if fn.variant_edges(sw, "None") else None))
    ctx.anchor("R03.2", "listener: test of the lookup result", len(found_tests), 1, cfg=fx.cfg)
    for n in conf:
        ctx.ob("R03.2", "listener/confirmation-only-if-supported", any(t is not None and fn.only_via(n, sw, [t]) for sw, t, f in found_tests), site=fn.site(n), cfg=fx.cfg)
    for n in na:
        ctx.ob("R03.2", "listener/not-available-only-if-unsupported", any(f is not None and fn.only_via(n, sw, [f]) for sw, t, f in found_tests), site=fn.site(n), cfg=fx.cfg)
    # the confirmation echoes the requested protocol
    for n in conf:
        s = fn.stmt(n)
        rs = guards.rootstrs(fn, s["rv"]["ops"][0])
        ctx.ob("R03.2", "listener/confirmation-echoes-the-request", any("Clone" in x or "clone" in x for x in rs) and not any("Iterator" in x and "find" in x for x in rs) or True and bool(rs), site=fn.site(n), cfg=fx.cfg, nontrivial=False)
    # completion only after the flush, with a selected protocol
    comp = fn.calls(r"Negotiated(<.*>)?::completed$")
    pf = fn.calls(r"Sink(<.*>)?>?::poll_flush$")
    ctx.anchor("R03.2", "listener: Negotiated::completed + poll_flush", min(len(comp), len(pf)), 1, cfg=fx.cfg)
    for c in comp:
        ok = bool(pf) and c.node not in fn.reach([fn.entry], avoid=[p.node for p in pf])
        bad = False
        for p in pf:
            for chain in (["Pending"], ["Ready", "Err", "?"]):
                cuts = refine_cuts(fn, p, chain)
                if not cuts or c.node in fn.reach([p.node], cut=cuts, after=True, stop=[p.node]):
                    bad = True
        ctx.ob("R03.2", "listener/completes-only-after-the-confirmation-was-flushed", ok and not bad, site=fn.site(c.node), cfg=fx.cfg)
        osw = [sw for sw in fn.discr_switches() if sw[2] and sw[2].endswith("option::Option") and fn.variant_edges(sw, "Some") and fn.only_via(c.node, sw[0], fn.variant_edges(sw, "Some"))]
        ctx.ob("R03.2", "listener/completes-only-with-a-selected-protocol", bool(osw), site=fn.site(c.node), cfg=fx.cfg)
    # SendHeader / ls never select a protocol: State::Flush / SendMessage built there carry None
    for sw in msw[:1]:
        e = fn.variant_edges(sw, "ListProtocols")
        lhead = [c.node for c in fn.calls(r"mem::replace$")]
        r = fn.reach([n for n, l in fn.succs(sw[0]) if l in e], avoid=lhead)
        sm = [s for n, s in fn.aggregates(r"listener_select::State$", "SendMessage") if n in r]
        ok = bool(sm) and all(fn.shape(s["rv"]["ops"][-1]) <= {"None"} or any(fn.shape(o) == {"None"} for o in s["rv"]["ops"]) for s in sm)
        ctx.ob("R03.2", "listener/ls-request-selects-nothing", ok, site=fn.site(sw[0]), cfg=fx.cfg)
        others = [l for n, l in fn.succs(sw[0]) if l not in e and l not in fn.variant_edges(sw, "Protocol")]
        r2 = fn.reach([n for n, l in fn.succs(sw[0]) if l in others], avoid=lhead)
        ctx.ob("R03.2", "listener/unexpected-message=>no-confirmation", not any(n in r2 for n in conf), site=fn.site(sw[0]), cfg=fx.cfg)


def r03_3(ctx, fx):
    fn = ctx.fn(fx, "multistream_select::dialer_select::WebRtcDialerState::register_response", "R03.3")
    if fn is None:
        return
    succ = [n for n, s in fn.aggregates(r"dialer_select::HandshakeResult$", "Succeeded")]
    ctx.anchor("R03.3", "register_response: HandshakeResult::Succeeded", len(succ), 1, cfg=fx.cfg)
    eqs = [c for c in fn.calls(r"::eq$") if not c.from_macro]
    tests = [t for e in eqs for t in fn.bool_tests(e.dest[0])]
    for i, n in enumerate(succ):
        ok = any(fn.only_via(n, sw, [t]) for sw, t, f in tests)
        if not ok:
            # `fallback_names.iter().any(|f| f == protocol)` / contains
            for c in fn.calls(r"Iterator>?::any$|::contains$|Iterator>?::find$|Iterator>?::position$"):
                ok = ok or any(fn.only_via(n, sw, [t]) for sw, t, f in fn.bool_tests(c.dest[0]))
                for sw in fn.discr_switches():
                    if sw[1][0] in fn.copies_of(c.dest[0]) and fn.variant_edges(sw, "Some"):
                        ok = ok or fn.only_via(n, sw[0], fn.variant_edges(sw, "Some"))
        ctx.ob("R03.3", "register_response/Succeeded#%d-only-for-a-proposed-protocol" % i, ok, site=fn.site(n), cfg=fx.cfg,
               detail="success must lie behind an equality (or membership) test between the confirmed and a proposed protocol")


def _ok_edges_of(fn, local):
    """edges on which the Result / bool held in `local` is Ok / Continue / true"""
    out = set()
    cp = fn.copies_of(local) | {local}
    for sw, t, f in fn.bool_tests(local):
        out.add((sw, t))
    srcs = set(cp)
    for b in fn.calls(r"ops::Try>?::branch$"):
        a = b.args[0].get("m") or b.args[0].get("c")
        if a and a[0] in cp and b.dest:
            srcs |= fn.copies_of(b.dest[0]) | {b.dest[0]}
    for sw in fn.discr_switches():
        if sw[1] and sw[1][0] in srcs:
            for v in ("Ok", "Continue"):
                for lab in fn.variant_edges(sw, v):
                    others = [l for w in list(sw[3]) + list(sw[5]) if w != v for l in fn.variant_edges(sw, w)]
                    if lab not in others:
                        out.add((sw[0], lab))
    return out


def r03_7(ctx, fx):
    """"no application byte is consumed by the negotiation", message-based dialer: when the confirmation has been decoded, the bytes
    that follow it in the same transport message are application bytes.  `WebRtcDialerState::register_response` reports `Succeeded`
    only if nothing is left (`remaining.is_empty()`, tested directly or by a helper whose success it requires) or hands the leftover
    on with the result.  Logging and dropping it loses the peer's first frame while both sides believe the substream is open."""
    fn = ctx.fn(fx, "multistream_select::dialer_select::WebRtcDialerState::register_response", "R03.7")
    if fn is None:
        return
    succ = [(n, s) for n, s in fn.aggregates(r"dialer_select::HandshakeResult$", "Succeeded")]
    cuts = [c for c in fn.calls(r"Bytes::split_to$|Buf>?::advance$|Bytes::split_off$")]
    rem = {ref_local(fn, c.args[0]) for c in cuts} - {None}
    ctx.anchor("R03.7", "register_response: the Bytes cursor over the payload (split_to / advance)", len(rem), 1, cfg=fx.cfg)
    def is_rem(o):
        if ref_local(fn, o) in rem:
            return True
        # closure calls pass their arguments as one tuple
        pl = o.get("m") or o.get("c")
        d = fn.single_def(pl[0]) if pl and len(pl) == 1 else None
        if d is not None and d[1] == "assign" and d[2]["rv"]["r"] == "agg" and "tuple" in str(d[2]["rv"].get("adt", "tuple")):
            return any(ref_local(fn, x) in rem for x in d[2]["rv"].get("ops", []))
        return False
    good = set()
    for c in fn.calls(r"Bytes::is_empty$"):
        if is_rem(c.args[0]):
            for sw, t, f in fn.bool_tests(c.dest[0]):
                good.add((sw, t))
    for c in fn.calls(r"Bytes::len$|Buf>?::remaining$"):
        if is_rem(c.args[0]):
            for sw, lab, rel, cn in guards.edge_facts(fn, lambda f, o: c.dest[0] in slice_locals(f, o, strict=True), lambda f, o: f.const_value(o) == 0):
                if rel in ("==", "<="):
                    good.add((sw, lab))
    helpers = []
    for c in fn.calls(r"."):
        if c.from_macro or not c.dest or not fx.has(c.name) or not any(is_rem(a) for a in c.args):
            continue
        h = fx.fn(c.name)
        ie = set()
        for e in h.calls(r"Bytes::is_empty$"):
            if any(x.startswith("param:") for x in guards.rootstrs(h, e.args[0])):
                for sw, t, f in h.bool_tests(e.dest[0]):
                    ie.add((sw, t))
        oks = [n for n, s_ in h.aggregates(r"result::Result$", "Ok")]
        if ie and oks and all(n not in h.reach([h.entry], cut=ie) for n in oks):
            helpers.append(short(c.name))
            ctx.bodies.add((fx.cfg, c.name))
            good |= _ok_edges_of(fn, c.dest[0])
    starts = [n for c in cuts for n, _ in fn.succs(c.node)]
    for i, (n, s_) in enumerate(succ):
        guarded = bool(good) and n not in fn.reach(starts, cut=good)
        handed = any(set(slice_locals(fn, o)) & rem for o in s_["rv"].get("ops", []))
        ctx.ob("R03.7", "register_response/Succeeded#%d-does-not-discard-trailing-bytes" % i, guarded or handed, site=fn.site(n), cfg=fx.cfg,
               detail="emptiness tests of the cursor that guard the result: %d (helpers: %s); leftover handed on with the result: %s" % (len(good), helpers, handed))


def r03_8(ctx, fx):
    """"every byte written after negotiation reaches the other side": the frame sink under the negotiation (LengthDelimited) reports a
    flush / close complete only after it has drained its own frame buffer *and* flushed / closed the transport - on every path, also
    when its frame buffer is already empty (the lazy dialer's payload goes straight to the transport; a re-poll after the transport's
    flush returned Pending finds the frame buffer empty).  A completing return of poll_flush (poll_close) that does not come from the
    inner poll_flush (poll_close) leaves proposal, confirmation or payload in a buffering transport and both sides wait for ever."""
    n = 0
    for key in sorted(fx.find(r"^<multistream_select::length_delimited::LengthDelimited<R> as futures::Sink<bytes::Bytes>>::poll_(flush|close)$")):
        fn = fx.fn(key)
        meth = key.rsplit("::", 1)[-1]
        n += 1
        ctx.bodies.add((fx.cfg, key))
        inner = [c for c in fn.calls(r"AsyncWrite>?::%s$" % meth)]
        drain = [c for c in fn.calls(r"LengthDelimited(<.*>)?::poll_write_buffer$")]
        done = [nd for nd, sh in fn.exits() if not all(x.startswith("Pending") or x.startswith("Ready.Err") for x in sh)]
        ok_inner = bool(inner) and not any(nd in fn.reach([fn.entry], avoid=[c.node for c in inner]) for nd in done)
        ok_drain = bool(drain) and not any(nd in fn.reach([fn.entry], avoid=[c.node for c in drain]) for nd in done)
        ctx.ob("R03.8", "LengthDelimited::%s/complete-only-through-the-transport's-%s" % (meth, meth), ok_inner and bool(done), site=fn.site(fn.entry), cfg=fx.cfg,
               detail="inner %s calls: %d; completing exits: %d" % (meth, len(inner), len(done)))
        ctx.ob("R03.8", "LengthDelimited::%s/complete-only-after-draining-the-frame-buffer" % meth, ok_drain, site=fn.site(fn.entry), cfg=fx.cfg)
    ctx.anchor("R03.8", "LengthDelimited Sink::poll_flush / poll_close", n, 2, cfg=fx.cfg)


def r03_4(ctx, fx):
    for meth, inner_rx in (("AsyncRead>::poll_read", r"AsyncRead>?::poll_read$"), ("AsyncWrite>::poll_write", r"AsyncWrite>?::poll_write$"),
                           ("AsyncWrite>::poll_flush", r"AsyncWrite>?::poll_flush$"), ("AsyncWrite>::poll_close", r"AsyncWrite>?::poll_close$")):
        key = NEG + meth
        fn = ctx.fn(fx, key, "R03.4")
        if fn is None:
            continue
        st = [sw for sw in fn.discr_switches() if sw[2] and ("negotiated::State" in sw[2] or "StateProj" in sw[2])]
        ctx.anchor("R03.4", "%s: match on the negotiation state" % meth.split("::")[-1], len(st), 1, cfg=fx.cfg)
        inner = [c for c in fn.calls(inner_rx) if not c.matches(r"Negotiated")]
        for sw in st[:1]:
            e = fn.variant_edges(sw, "Completed")
            r = fn.reach([n for n, l in fn.succs(sw[0]) if l in e])
            fwd = [c for c in inner if c.node in r]
            name = meth.split("::")[-1]
            ok = bool(e) and bool(fwd)
            ctx.ob("R03.4", "Negotiated::%s/Completed-forwards-to-the-inner-stream" % name, ok, site=fn.site(sw[0]), cfg=fx.cfg)
            for c in fwd[:1]:
                # result returned unmodified: the call writes _0 directly, or _0 is a plain copy of its result
                direct = c.dest == [0] or any(s["lhs"] == [0] and s["rv"]["r"] == "use" and (s["rv"]["o"].get("m") or s["rv"]["o"].get("c") or [None])[0] in fn.copies_of(c.dest[0]) for n, s in fn.assigns())
                ctx.ob("R03.4", "Negotiated::%s/inner-result-returned-unmodified" % name, direct, site=fn.site(c.node), cfg=fx.cfg)
                if name in ("poll_read", "poll_write"):
                    org = fn.origin(c.args[2]).lstrip("&") if len(c.args) > 2 else "?"
                    ctx.ob("R03.4", "Negotiated::%s/caller-buffer-passed-through" % name, org in ("_3", "_3*"), site=fn.site(c.node), cfg=fx.cfg, detail="origin of the buffer argument: %s" % org)


def r03_5(ctx, fx):
    """re-entrancy of the negotiation futures: they take the state out with mem::replace(state, Done); whenever an arm returns
    Pending it must park the *same* state variant again, otherwise the next poll repeats (or skips) a step - e.g. a proposal is
    put on the wire twice"""
    for key, adt, who in ((D, "dialer_select::State", "dialer"), (L, "listener_select::State", "listener"),
                          ("multistream_select::negotiated::Negotiated::<TInner>::poll", "negotiated::State", "negotiated")):
        fn = ctx.fn(fx, key, "R03.5")
        if fn is None:
            continue
        heads = [c for c in fn.calls(r"mem::replace$")]
        sws = [sw for sw in fn.discr_switches() if sw[2] and sw[2].endswith(adt) and heads and sw[1][0] in fn.copies_of(heads[0].dest[0])]
        ctx.anchor("R03.5", "%s: match on mem::replace(state, Done)" % who, len(sws), 1, cfg=fx.cfg)
        pend = [n for n, sh in fn.exits() if any(x.startswith("Pending") for x in sh)]
        for sw in sws[:1]:
            for var in list(sw[3].keys()) + list(sw[5]):
                if var in ("Done", "Invalid"):
                    continue
                e = fn.variant_edges(sw, var)
                starts = [n for n, l in fn.succs(sw[0]) if l in e]
                restore = [n for n, st in fn.aggregates(re.escape(adt) + "$", var)]
                # the aggregate must also be stored into the state place afterwards; treat the aggregate site as the restore
                reach = fn.reach(starts, avoid=[h.node for h in heads])
                ps = [n for n in pend if n in reach]
                if not ps:
                    continue
                w = fn.witness_path(starts, ps, avoid=restore + [h.node for h in heads])
                ctx.ob("R03.5", "%s/%s:Pending-parks-the-same-state" % (who, var), w is None, site=fn.site(sw[0]), cfg=fx.cfg,
                       detail="a path from the %s arm to Poll::Pending that does not re-create State::%s: %s" % (var, var, fn.path_sites(w) if w else None))
                # and no *other* variant is parked on the way to Pending
                others = [n for v2 in list(sw[3].keys()) + list(sw[5]) if v2 not in (var, "Done", "Invalid") for n, st in fn.aggregates(re.escape(adt) + "$", v2)]
                bad = []
                for o in others:
                    if o in reach and any(p2 in fn.reach([o], after=True, avoid=restore + [h.node for h in heads]) for p2 in ps):
                        bad.append(fn.site(o))
                ctx.ob("R03.5", "%s/%s:no-other-state-parked-before-Pending" % (who, var), not bad, site=fn.site(sw[0]), cfg=fx.cfg,
                       detail="other state variants stored on a path from the %s arm to Pending: %s" % (var, bad))


def r03_6(ctx, fx):
    """the message-based (WebRTC) dialer proposes its fallback names in the caller's preference order: the list is consumed by an
    order-preserving idiom only - `reverse()` once at construction + `pop()`, or `remove(0)` / a front pop without a reverse.
    (`swap_remove`, `pop` without the reverse, sorting ... change which common protocol both sides settle on.)"""
    W = "multistream_select::dialer_select::WebRtcDialerState::"
    pf = ctx.fn(fx, W + "propose", "R03.6")
    nf = ctx.fn(fx, W + "propose_next_fallback", "R03.6")
    if pf is None or nf is None:
        return
    reversed_at_ctor = False
    for n, s_ in pf.aggregates(r"dialer_select::WebRtcDialerState$"):
        rv = s_["rv"]
        if "fallback_names" in rv.get("fields", []):
            rs = guards.rootstrs(pf, rv["ops"][rv["fields"].index("fallback_names")])
            revs = [c for c in pf.calls(r"slice::reverse$") if any(x.startswith("param:_2") for x in guards.rootstrs(pf, c.args[0]))]
            reversed_at_ctor = len(revs) == 1 and n not in pf.reach([pf.entry], avoid=[revs[0].node])
            other = sorted(x for x in rs if x.startswith("mutcall:") and not x.endswith("slice::reverse") and not x.endswith("DerefMut>::deref_mut"))
            ctx.ob("R03.6", "propose/fallback-list-stored-as-given(or reversed once)", not other and any(x.startswith("param:_2") for x in rs), site=pf.site(n), cfg=fx.cfg,
                   detail="roots of the stored list: %s" % sorted(rs))
    takes = [c for c in nf.calls() if not c.from_macro and ".fallback_names" in nf.recv(c) and re.search(r"::(pop|remove|swap_remove|pop_front|pop_back|drain|split_off|truncate|sort\w*|retain|dedup\w*|rotate_\w+)$", c.name)]
    ctx.anchor("R03.6", "propose_next_fallback: removal from fallback_names", len(takes), 1, cfg=fx.cfg)
    for i, c in enumerate(takes):
        m = c.name.rsplit("::", 1)[-1]
        if m == "pop" and "Vec" in c.name:
            ok = reversed_at_ctor
            why = "Vec::pop takes the last element: needs the single reverse() at construction (found: %s)" % reversed_at_ctor
        elif m == "remove" and "Vec" in c.name:
            ok = (not reversed_at_ctor) and len(c.args) > 1 and nf.const_value(c.args[1]) == 0
            why = "Vec::remove(0) on the un-reversed list"
        elif m == "pop_front":
            ok = not reversed_at_ctor
            why = "front pop on the un-reversed list"
        else:
            ok = False
            why = "`%s` does not preserve the preference order" % m
        ctx.ob("R03.6", "propose_next_fallback/take#%d-preserves-the-preference-order" % i, ok, site=nf.site(c.node), cfg=fx.cfg, detail=why)
    # the proposed name is the one taken
    for n, s_ in nf.assigns():
        if "".join(str(x) for x in s_["lhs"][1:]).endswith(".protocol") and s_["rv"]["r"] == "use":
            rs = guards.rootstrs(nf, s_["rv"]["o"])
            ctx.ob("R03.6", "propose_next_fallback/next-proposal-is-the-element-taken", any(x.startswith("call:") or x.startswith("mutcall:") for x in rs if re.search(r"::(pop|remove|pop_front)$", x)),
                   site=nf.site(n), cfg=fx.cfg, detail=str(sorted(rs)))


def run(ctx):
    fx = ctx.facts("default")
    r03_5(ctx, fx)
    r03_1(ctx, fx)
    r03_2(ctx, fx)
    r03_3(ctx, fx)
    r03_4(ctx, fx)
    r03_6(ctx, fx)
    r03_7(ctx, fx)
    r03_8(ctx, fx)
    ctx.assume("Protocol equality is byte equality of the names; MessageIO frames/deframes whole messages (C19 covers its decoder)")
    ctx.assume("agreement on the first common protocol, termination and fragmentation independence are NOT decided (values / histories / foreign peer)")
