"""Frozen, reviewed discharge table for C19 (rules/C19.py).

One entry per panic-capable construct of the decoder closure that is not discharged automatically.
  key    "<fn>|<kind>:<callee-or-assert>#<ordinal among the same kind in that fn>"  (no line numbers)
  class  guard  - the listed facts, re-derived from the CFG, imply the construct's precondition
         state  - precondition is an invariant of a state machine / earlier state; the listed facts (possibly at the anchor `at`
                  where the invariant is established) are the local part that is checked; the rest is argued in `why`
         api    - a misuse of a local API (poll after completion, ...) or an infallible library call; not reachable by bytes
         config - depends on local configuration only
  need   guard facts (A, rel, B) in the vocabulary of engine/k6.py that must dominate the site (or the anchor)
  at     optional anchor 'agg:<Adt>::<Variant>' | 'call:<regex>' | 'assign:<field>' (in at_fn if given) where `need` is evaluated
"""

NS = "NoiseSocket as AsyncRead::poll_read|"
LD = "LengthDelimited as Stream::poll_next|"
SS = "Substream as Stream::poll_next|"
MD = "Message::decode|"
PNF = "agg:crypto::noise::ReadState::ProcessNextFrame[^None]"

TABLE = {
    # ---------------------------------------------------------------- Noise transport read state machine (src/crypto/noise/mod.rs)
    NS + "index:index_mut#1": {"class": "state", "need": [["this.read_state", "is", "ReadData"]],
        "why": "read_buffer[nread..max_read]: max_read is canonical_max_read or nread+frame_size-remaining (< canonical+65535 <= len) and "
               "nread < max_read because frame_size > remaining; read_buffer.len() = canonical + 2 + MAX_NOISE_MSG_LEN (value reasoning, not decided)"},
    NS + "index:index#1": {"class": "guard", "need": [["2", "<=", "remaining"], ["num::checked_sub(this.nread)", "is", "Some"]],
        "why": "remaining = nread - offset >= 2 so offset < nread <= read_buffer.len()"},
    NS + "index:index#2": {"class": "guard", "need": [["2", "<=", "remaining"], ["num::checked_sub(this.nread)", "is", "Some"]],
        "why": "remaining = nread - offset >= 2 so offset + 1 < nread"},
    NS + "assert:Overflow:Overflow#1": {"class": "guard", "need": [["2", "<=", "remaining"]], "why": "remaining - 2 behind remaining >= 2"},
    NS + "assert:Overflow:Overflow#2": {"class": "guard", "need": [["frame_size", ">", "remaining"]],
        "why": "(nread + frame_size) - remaining with frame_size > remaining"},
    NS + "index:index#3": {"class": "state", "need": [["Option::take(pending)", "is", "Some"]],
        "why": "pending[offset..size]: size = bytes decrypted into the buffer (<= its length), offset <= size: set together when the buffer was parked (R02.2)"},
    NS + "index:index#4": {"class": "state", "need": [["Option::take(pending)", "is", "Some"]], "why": "as index#3"},
    NS + "index:index_mut#2": {"class": "guard", "need": [["len(buf)", ">=", "len(pending[Range(offset,size)])"]],
        "why": "buf[..copy_size] with copy_size = len(pending[offset..size]) <= buf.len()"},
    NS + "index:index#5": {"class": "state", "need": [["Option::take(pending)", "is", "Some"]], "why": "offset + copy_size = size <= pending.len()"},
    NS + "precond:copy_from_slice#1": {"class": "guard", "need": [["len(buf)", ">=", "len(pending[Range(offset,size)])"]],
        "why": "both slices have length copy_size"},
    NS + "index:index#6": {"class": "guard", "need": [["len(buf)", "<", "len(pending[Range(offset,size)])"]],
        "why": "offset + buf.len() < size <= pending.len()"},
    NS + "precond:copy_from_slice#2": {"class": "guard", "need": [["len(buf)", "<", "len(pending[Range(offset,size)])"]],
        "why": "source slice built with length buf.len()"},
    NS + "unwrap:expect#1": {"class": "state", "at": PNF, "need": [["NOISE_EXTRA_ENCRYPT_SPACE", "<", "frame_size"], ["frame_size", "<=", "remaining"]],
        "why": "current_frame_size is stored immediately before every transition into ProcessNextFrame{pending: None}"},
    NS + "assert:Overflow:Overflow#3": {"class": "state", "at": PNF, "need": [["NOISE_EXTRA_ENCRYPT_SPACE", "<", "frame_size"]],
        "why": "frame_size - 16: ProcessNextFrame is entered only after `frame_size <= NOISE_EXTRA_ENCRYPT_SPACE` returned InvalidData"},
    NS + "index:index#7": {"class": "state", "at": PNF, "need": [["frame_size", "<=", "remaining"]],
        "why": "read_buffer[offset..offset+frame_size]: ProcessNextFrame is entered only with remaining = nread - offset >= frame_size"},
    NS + "unwrap:expect#2": {"class": "state", "need": [["Option::take(pending)", "is", "None"]],
        "why": "decrypt_buffer is Some whenever no plaintext buffer is parked: it is put back when the parked buffer is drained (R02.2)"},
    NS + "index:index#8": {"class": "state", "at": PNF, "need": [["frame_size", "<=", "remaining"]], "why": "as index#7"},
    NS + "index:index#9": {"class": "guard", "need": [["(frame_size-NOISE_EXTRA_ENCRYPT_SPACE)", ">", "len(buf)"]],
        "why": "buffer[..buf.len()]: buffer holds MAX_FRAME_LEN >= frame_size - 16 > buf.len() bytes (R02.1 sizes the decrypt buffer)"},
    NS + "precond:copy_from_slice#3": {"class": "guard", "need": [["(frame_size-NOISE_EXTRA_ENCRYPT_SPACE)", ">", "len(buf)"]], "why": "both slices have length buf.len()"},
    "NoiseSocket::reset_read_state|assert:Overflow:Overflow#1": {"class": "state", "at_fn": "<crypto::noise::NoiseSocket<S> as futures::AsyncRead>::poll_read",
        "at": "call:NoiseSocket(<.*>)?::reset_read_state$", "need": [["2", ">", "remaining"], ["num::checked_sub(this.nread)", "is", "Some"]],
        "why": "arm `1 =>`: remaining = nread - offset == 1 so nread >= 1; the only caller passes remaining < 2"},
    "NoiseSocket::reset_read_state|index:index#1": {"class": "state", "need": [], "why": "nread - 1 < nread <= read_buffer.len()"},
    "NoiseSocket::reset_read_state|index:index_mut#1": {"class": "state", "need": [], "why": "read_buffer is never empty (allocated with >= 2 + MAX_NOISE_MSG_LEN bytes in new())"},
    "NoiseSocket::reset_read_state|explicit:panic:panic_fmt#1": {"class": "state", "at_fn": "<crypto::noise::NoiseSocket<S> as futures::AsyncRead>::poll_read",
        "at": "call:NoiseSocket(<.*>)?::reset_read_state$", "need": [["2", ">", "remaining"]],
        "why": "`_ => panic!` needs remaining >= 2; the only caller is behind remaining < 2"},
    "NoiseContext::read_handshake_message::{closure#0}|precond:get_u16#1": {"class": "state", "need": [],
        "why": "`size` is BytesMut::zeroed(2) filled by read_exact: exactly two bytes remain"},
    # ---------------------------------------------------------------- multistream-select framing (length_delimited.rs)
    LD + "index:index_mut#1": {"class": "state", "need": [["this.read_state", "is", "ReadLength"]],
        "why": "buf: [u8; MAX_LEN_BYTES]; pos < MAX_LEN_BYTES is a loop invariant: after pos += 1 either the length is complete or pos == MAX_LEN_BYTES returns an error"},
    LD + "assert:Overflow:Overflow#1": {"class": "state", "need": [["AsyncRead::poll_read(this.inner)@Ready.0", "is", "Ok"]],
        "why": "pos - 1 after pos += n with n >= 1 (Ok(0) returns before)"},
    LD + "assert:BoundsCheck:BoundsCheck#1": {"class": "state", "need": [["AsyncRead::poll_read(this.inner)@Ready.0", "is", "Ok"]],
        "why": "buf[pos - 1] with 1 <= pos <= MAX_LEN_BYTES"},
    LD + "index:index_mut#2": {"class": "state", "need": [["this.read_state", "is", "ReadData"]],
        "why": "read_buffer[pos..]: pos < len = read_buffer.len(): the frame is returned as soon as pos == len"},
    "LengthDelimited::into_inner|explicit:assert:panic#1": {"class": "api", "need": [],
        "why": "read buffer is empty whenever a frame was yielded (exactly `len` bytes are read per frame, one length byte at a time); callers call into_inner only after a frame"},
    "LengthDelimited::into_inner|explicit:assert:panic#2": {"class": "api", "need": [],
        "why": "write buffer is empty after a completed flush; callers flush before into_inner"},
    # ---------------------------------------------------------------- multistream-select messages (protocol.rs, dialer/listener)
    MD + "assert:Overflow:Overflow#1": {"class": "guard", "need": [["0", "!=", "len(msg)"]], "why": "msg.last() is Some so msg.len() >= 1"},
    MD + "index:index#1": {"class": "guard", "need": [["0", "!=", "len(msg)"]], "why": "msg[..len-1] with len >= 1"},
    MD + "assert:Overflow:Overflow#2": {"class": "guard", "need": [["0", "!=", "len(msg)"]], "why": "as above"},
    MD + "precond:split_to#1": {"class": "guard", "need": [["0", "!=", "len(msg)"]], "why": "split_to(len - 1) <= len"},
    MD + "assert:Overflow:Overflow#3": {"class": "guard", "need": [["0", "!=", "len"]], "why": "len - 1 behind len != 0"},
    MD + "assert:BoundsCheck:BoundsCheck#1": {"class": "guard", "need": [["0", "!=", "len"], ["len", "<=", "len(tail)"]], "why": "tail[len-1] with 1 <= len <= tail.len()"},
    MD + "assert:Overflow:Overflow#4": {"class": "guard", "need": [["0", "!=", "len"]], "why": "len - 1 behind len != 0"},
    MD + "index:index#2": {"class": "guard", "need": [["0", "!=", "len"], ["len", "<=", "len(tail)"]], "why": "tail[..len-1]"},
    MD + "index:index#3": {"class": "guard", "need": [["len", "<=", "len(tail)"]], "why": "tail[len..]"},
    "WebRtcDialerState::register_response|assert:Overflow:Overflow#1": {"class": "api", "need": [["Try>::branch(Result::map_err(decode::usize(remaining)))", "is", "Continue"]],
        "why": "remaining.len() - tail.len(): tail is the suffix returned by unsigned_varint::decode::usize(&remaining)"},
    "WebRtcDialerState::register_response|precond:advance#1": {"class": "api", "need": [["Try>::branch(Result::map_err(decode::usize(remaining)))", "is", "Continue"]],
        "why": "advance(len_size) with len_size = remaining.len() - tail.len() <= remaining.len() (tail is a suffix of remaining)"},
    "LengthDelimited::poll_write_buffer|precond:advance#1": {"class": "api", "need": [],
        "why": "write path: advance(n) with n = bytes the inner poll_write accepted from &write_buffer (n <= len by the AsyncWrite contract)"},
    # webrtc data-channel substream (feature webrtc, analysed in the `all` configuration)
    "Substream as AsyncRead::poll_read|index:index#1": {"class": "guard", "cfg": "all", "need": [["0", "<", "Buf>::remaining(self.read_buffer)"]],
        "why": "read_buffer[..num_bytes] with num_bytes = min(read_buffer.remaining(), buf.remaining())"},
    "Substream as AsyncRead::poll_read|precond:put_slice#1": {"class": "guard", "cfg": "all", "need": [["0", "<", "Buf>::remaining(self.read_buffer)"]],
        "why": "put_slice of num_bytes <= buf.remaining() bytes (min)"},
    "Substream as AsyncRead::poll_read|precond:advance#1": {"class": "guard", "cfg": "all", "need": [["0", "<", "Buf>::remaining(self.read_buffer)"]],
        "why": "advance(num_bytes) with num_bytes <= read_buffer.remaining() (min)"},
    "Substream as AsyncRead::poll_read|precond:put_slice#2": {"class": "guard", "cfg": "all", "need": [["ReadBuf::remaining(buf)", ">=", "len(payload)"]],
        "why": "whole payload fits the caller's buffer"},
    "Substream as AsyncRead::poll_read|index:index#2": {"class": "guard", "cfg": "all", "need": [["ReadBuf::remaining(buf)", "<", "len(payload)"]],
        "why": "payload[..remaining] with remaining = buf.remaining() < payload.len()"},
    "Substream as AsyncRead::poll_read|precond:put_slice#3": {"class": "guard", "cfg": "all", "need": [["ReadBuf::remaining(buf)", "<", "len(payload)"]],
        "why": "exactly buf.remaining() bytes"},
    "Substream as AsyncRead::poll_read|index:index#3": {"class": "guard", "cfg": "all", "need": [["ReadBuf::remaining(buf)", "<", "len(payload)"]],
        "why": "payload[remaining..] with remaining < payload.len()"},
    "NoiseContext::get_remote_peer_id|precond:split_at#1": {"class": "guard", "cfg": "all", "need": [["2", "<=", "len(reply)"]],
        "why": "split_at(2) behind reply.len() >= 2"},
    "WebRtcDialerState::register_response|precond:split_to#1": {"class": "guard", "need": [["len", "<=", "len(tail)"]],
        "why": "after advance(len_size) remaining == tail, and len <= tail.len()"},
    "listener_select::decode_multistream_message|assert:Overflow:Overflow#1": {"class": "api", "need": [["Try>::branch(Result::map_err(decode::usize(data)))", "is", "Continue"]],
        "why": "data.len() - tail.len(): tail is the suffix returned by decode::usize(data)"},
    "listener_select::decode_multistream_message|precond:slice#1": {"class": "guard", "need": [["len", "<=", "len(tail)"]],
        "why": "len_size + len <= len_size + tail.len() = data.len()"},
    "listener_select::decode_multistream_message|precond:slice#2": {"class": "guard", "need": [["len", "<=", "len(tail)"]], "why": "as slice#1"},
    "DialerSelectFuture as Future::poll|explicit:panic:panic_fmt#1": {"class": "api", "need": [["mem::replace(this.state)", "is", "Done"]],
        "why": "future polled after completion (State::Done is only a placeholder while a state is being processed)"},
    "ListenerSelectFuture as Future::poll|explicit:panic:panic_fmt#1": {"class": "api", "need": [["mem::replace(this.state)", "is", "Done"]], "why": "as the dialer"},
    "Negotiated as AsyncWrite::poll_close|explicit:panic:panic_fmt#1": {"class": "api", "need": [["_::project(_::project(self).state)", "is", "Invalid"]],
        "why": "State::Invalid exists only transiently inside Negotiated::poll (mem::replace) and is replaced on every path"},
    "Negotiated as AsyncWrite::poll_flush|explicit:panic:panic_fmt#1": {"class": "api", "need": [["_::project(_::project(self).state)", "is", "Invalid"]], "why": "as poll_close"},
    "Negotiated as AsyncWrite::poll_write|explicit:panic:panic_fmt#1": {"class": "api", "need": [["_::project(_::project(self).state)", "is", "Invalid"]], "why": "as poll_close"},
    "Negotiated as AsyncWrite::poll_write_vectored|explicit:panic:panic_fmt#1": {"class": "api", "need": [["_::project(_::project(self).state)", "is", "Invalid"]], "why": "as poll_close"},
    "Negotiated::poll|explicit:panic:panic_fmt#1": {"class": "api", "need": [], "why": "State::Invalid arm of the transient state"},
    "Negotiated::inner|explicit:panic:panic_fmt#1": {"class": "api", "need": [], "why": "accessor used only on completed negotiations (local call sites)"},
    "NegotiatedComplete as Future::poll|unwrap:expect#1": {"class": "api", "need": [], "why": "future polled after completion"},
    # ---------------------------------------------------------------- framed substream (src/substream/mod.rs), see C04
    SS + "index:index_mut#1": {"class": "state", "need": [["this.codec", "is", "Identity"]],
        "why": "read_buffer[offset..payload_size]: buffer holds payload_size bytes (C04 R04.3) and offset < payload_size (frame delivered and offset reset when equal)"},
    SS + "index:index_mut#2": {"class": "state", "need": [["Option::take(this.current_frame_size)", "is", "Some"]],
        "why": "read_buffer[offset..] with read_buffer = zeroed(frame_size) and offset < frame_size (frame delivered when equal)"},
    SS + "index:index_mut#3": {"class": "state", "need": [["Option::take(this.current_frame_size)", "is", "None"]],
        "why": "size_vec[offset..offset+1]: size_vec holds usize_buffer().len() bytes (C04 R04.3) and read_payload_size answers NotEnoughBytes only while len < that (C04 R04.1)"},
    SS + "index:index#1": {"class": "state", "need": [["Option::take(this.current_frame_size)", "is", "None"]], "why": "size_vec[..offset] with offset <= size_vec.len(), as index_mut#3"},
    SS + "explicit:panic:panic_fmt#1": {"class": "config", "need": [["this.codec", "is", "Unspecified"]], "why": "protocol registered without a codec: local configuration error"},
    "substream::read_payload_size|assert:BoundsCheck:BoundsCheck#1": {"class": "guard", "need": [["i", "in", "0..cmp::min(len(buffer))"]], "why": "i < min(len, max_len) <= len"},
    "substream::read_payload_size|index:index#1": {"class": "guard", "need": [["i", "<", "len(buffer)"]], "why": "buffer[..=i] with i < len: i ranges over 0..min(buffer.len(), max_len), or is an index handed out by an iterator over the buffer"},
    # ---------------------------------------------------------------- codec / keys / peer ids / address store (local data)
    "Identity::new|explicit:assert:panic#1": {"class": "config", "need": [["0", "==", "payload_len"]], "why": "assert!(payload_len != 0) on a locally configured frame size"},
    "UnsignedVarint::encode|explicit:assert:panic#1": {"class": "config", "need": [["MAX", "<", "len(payload)"]], "why": "encode path, local payload larger than u32::MAX"},
    "crypto::from|assert:Overflow:Overflow#1": {"class": "api", "need": [], "why": "enum discriminant constant + 0 generated by prost"},
    "PublicKey::to_protobuf_encoding|unwrap:expect#1": {"class": "api", "need": [], "why": "prost encode into a Vec with sufficient capacity cannot fail"},
    "PeerId::from_public_key_protobuf|unwrap:expect#1": {"class": "guard", "need": [["MAX_INLINE_KEY_LENGTH", ">=", "len(key_enc)"]],
        "why": "identity multihash of at most 42 bytes fits Multihash<64> (C18 R18.1/R18.2)"},
    "peer_id::from|unwrap:expect#1": {"class": "state", "need": [],
        "why": "every PeerId value was built by from_multihash / from_public_key_protobuf / random, whose accepted (code, length) classes are those of "
               "libp2p-identity's from_multihash (C18 R18.1 + R18.2, evaluated under C19 as well)"},
    "AddressStore::insert|unwrap:expect#1": {"class": "guard", "need": [["len(self.addresses)", ">=", "self.max_capacity"]],
        "why": "min() of a map with len >= max_capacity > 0 entries (C10 R10.2)"},
    # ---------------------------------------------------------------- rsa::PublicKey::encode_x509 (canonical re-encoding used by try_decode_x509)
    "encode_x509::write_header|assert:Overflow:Overflow#1": {"class": "api", "need": [["128", "<=", "len"]],
        "why": "bytes.len() - skip: skip = bytes.iter().take_while(..).count() counts a prefix of the 8-byte array, so skip <= bytes.len()"},
    "encode_x509::write_header|index:index#1": {"class": "api", "need": [["128", "<=", "len"]], "why": "bytes[skip..] with skip <= bytes.len() as above"},
}

ALLOC_TABLE = {
    "PublicKey::encode_x509|alloc:Vec::with_capacity#1": {"why": "self.0.len() + 8: the DER key bytes are already held in memory (they arrived in a size-limited handshake payload); reached from try_decode_x509 through the canonical re-encoding check"},
    "PublicKey::encode_x509|alloc:Vec::with_capacity#2": {"why": "ALGORITHM.len() + bit_string.len() + 8 with bit_string built above from the in-memory key (len + <= 11 bytes)"},
    "LengthDelimited as Stream::poll_next|alloc:BytesMut::resize#1": {"type": "u16", "why": "frame length decoded as u16 (MAX_LEN_BYTES = 2): at most 16383/65535 bytes"},
    "LengthDelimited as Sink::start_send|alloc:BytesMut::reserve#1": {"need": [["MAX_FRAME_SIZE", ">=", "len"]], "why": "outgoing frame, bounded by MAX_FRAME_SIZE"},
    "Substream as Stream::poll_next|alloc:BytesMut::zeroed#1": {"need": [["this.codec", "is", "Identity"]], "why": "locally configured identity frame size"},
    "Substream as Stream::poll_next|alloc:BytesMut::zeroed#2": {"need": [["this.codec@UnsignedVarint.0@Some.0", ">=", "size"]], "unless_none": r"max_size|UnsignedVarint",
        "why": "remote-chosen length compared with the codec maximum whenever one is configured; without a maximum the up-front allocation is min(size, constant) (C04 R04.1, evaluated under C19 as well)"},
    "Substream as Stream::poll_next|alloc:BytesMut::resize#1": {"min_with": r"UNBOUNDED_READ_CHUNK$",
        "why": "the frame buffer grows by a constant step only when the bytes received so far have filled it: memory follows what the peer really sent"},
    "NoiseContext::read_handshake_message::{closure#0}|alloc:BytesMut::zeroed#2": {"type": "u16", "why": "handshake message length read as u16"},
    "NoiseContext::read_handshake_message::{closure#0}|alloc:BytesMut::resize#1": {"why": "message.len() + 200 with message = zeroed(size as usize), size: u16 (see zeroed#2)"},
    "NoiseContext::get_remote_peer_id|alloc:vec::from_elem#1": {"type": "u16", "why": "reply length prefix read as u16 (webrtc noise reply)"},
    "UnsignedVarint::encode|alloc:BytesMut::with_capacity#1": {"need": [["MAX", ">=", "len(payload)"]], "why": "local payload"},
    "PublicKey::to_protobuf_encoding|alloc:Vec::with_capacity#1": {"why": "encoded_len of a local key"},
    "Message::encode|alloc:BytesMut::reserve#1": {"why": "encode path, constant-length message"},
    "Message::encode|alloc:BytesMut::reserve#2": {"why": "encode path, local protocol name"},
    "Message::encode|alloc:BytesMut::reserve#3": {"why": "encode path"},
    "Message::encode|alloc:Vec::with_capacity#1": {"why": "encode path, number of local protocols"},
    "Message::encode|alloc:BytesMut::reserve#4": {"why": "encode path"},
    "Message::encode|alloc:BytesMut::reserve#5": {"why": "encode path"},
    "protocol::webrtc_encode_multistream_message|alloc:BytesMut::with_capacity#1": {"need": [["MAX_FRAME_SIZE", ">=", "capacity"]], "why": "encode path, bounded"},
}

# growth inside loops of the decoder closure: bounded by an explicit limit (need) or by the size of the decoded message (why)
GROWTH = {
    "Message::decode|grow:Vec::push#1": {"need": [["MAX_PROTOCOLS", "!=", "len(protocols)"]],
        "why": "`ls` response: the protocol list stops growing at MAX_PROTOCOLS"},
    "Message::encode|grow:Extend::extend#1": {"why": "encode path over the local protocol list"},
    "Message::encode|grow:Vec::extend_from_slice#1": {"why": "encode path"},
    "Message::encode|grow:Vec::push#1": {"why": "encode path"},
    "Bitswap::on_message_received::{closure#0}|grow:Vec::push#1": {"need": [["bitswap::block_to_response(peer)", "is", "Some"]],
        "why": "one entry per block of a message that passed the substream codec limit (MAX_MESSAGE_SIZE); only verified blocks"},
    "Bitswap::on_message_received::{closure#0}|grow:Vec::push#2": {"why": "one entry per presence of a size-limited message"},
}

LOOPS = {
    "multistream_select::protocol::Message::decode": {"head": r"unsigned_varint::decode::usize$", "reassign_arg0": True,
        "why": "`ls` response parser: every iteration re-slices `remaining = &tail[len..]` with len >= 1, and stops at MAX_PROTOCOLS"},
    "multistream_select::dialer_select::WebRtcDialerState::register_response": {"head": r"unsigned_varint::decode::usize$", "step": r"Bytes::split_to$|Buf>?::advance$",
        "why": "each message consumes its length prefix (advance) and payload (split_to)"},
}
