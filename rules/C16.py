"""C16 - Every Kademlia operation started by the user ends with one terminal event (error discipline).

R16.1 every call of Kademlia::open_substream_or_dial settles the owning query on its Err edge
R16.2 removing pending actions (pending_dials / pending_actions / peers) settles their queries
R16.3 on_query_action has no catch-all arm; each terminal QueryAction sends the matching KademliaEvent carrying the query id
R16.4 PutToTargetPeersContext reports success only with quorum, counts a success only for a pending peer
"""
import re
from paths import refine_cuts, region_uncovered
from common import slice_locals, for_loops, exit_desc, short, field_calls
import guards

EXPLANATION = ("Error-discipline rules over all MIR CFG paths of the Kademlia event handlers: a failed attempt to contact a peer must be "
               "registered with the query engine (otherwise the peer stays pending and the query never produces its terminal event); "
               "terminal query actions map one-to-one onto user events; success needs the quorum comparison.")

K = "protocol::libp2p::kademlia::Kademlia::"
SETTLE = r"QueryEngine::(register_send_failure|register_peer_failure|register_response_failure)$"


def r16_1(ctx, fx):
    fn = ctx.fn(fx, K + "on_query_action::{closure#0}", "R16.1")
    if fn is None:
        return
    calls = fn.calls(r"Kademlia::open_substream_or_dial$")
    ctx.anchor("R16.1", "open_substream_or_dial call sites", len(calls), 3, cfg=fx.cfg)
    ctx.anchor("R16.1", "callers of open_substream_or_dial", len(fx.callers_of("protocol::libp2p::kademlia::Kademlia::open_substream_or_dial")), 1, cfg=fx.cfg)
    settle = {c.node for c in fn.calls(SETTLE)}
    err_exits = {n for n, sh in fn.exits(r"^Err") if all(s.startswith("Err") for s in sh)}
    for c in calls:
        act = "|".join(sorted(s.split(".")[0] for s in fn.shape(c.args[2]))) if len(c.args) > 2 else "?"
        cuts = refine_cuts(fn, c, ["Err", "?"])
        p = region_uncovered(fn, c.node, settle | err_exits, cuts=cuts)
        ctx.ob("R16.1", "on_query_action/open_substream_or_dial(%s):Err-settles-query" % act, p is None, site=fn.site(c.node), cfg=fx.cfg,
               detail="Err from open_substream_or_dial is not registered with the query engine (peer stays in the query's pending set, the "
                      "query never finishes); uncovered path %s" % (fn.path_sites(p) if p else ""))
    # Err((query, peer)) returned by on_query_action is settled by the caller
    run = ctx.fn(fx, K + "run::{closure#0}", "R16.1")
    if run is not None:
        qa = run.calls(r"Kademlia::on_query_action::\{closure#0\}$|Future::poll$")
        qa = [c for c in run.calls() if c.res and c.res.endswith("Kademlia::on_query_action::{closure#0}")]
        ctx.anchor("R16.1", "run: poll of on_query_action", len(qa), 1, cfg=fx.cfg)
        dis = {c.node for c in run.calls(r"Kademlia::disconnect_peer$")}
        for c in qa:
            cuts = refine_cuts(run, c, ["Ready", "Err", "?"])
            p = region_uncovered(run, c.node, dis, cuts=cuts)
            ctx.ob("R16.1", "run/on_query_action:Err=>disconnect_peer", p is None, site=run.site(c.node), cfg=fx.cfg,
                   detail="uncovered: %s" % (run.path_sites(p) if p else ""))


def r16_2(ctx, fx):
    # on_dial_failure: every pending action is failed
    fn = ctx.fn(fx, K + "on_dial_failure", "R16.2")
    if fn is not None:
        rm = field_calls(fn, r"HashMap::remove$", "pending_dials")
        nx = [c for c in fn.calls(r"Iterator::next$") if any("PeerAction" in a for a in c.f.get("args", []))]
        ctx.anchor("R16.2", "on_dial_failure: pending_dials.remove", len(rm), 1, cfg=fx.cfg)
        ctx.anchor("R16.2", "on_dial_failure: loop over actions", len(nx), 1, cfg=fx.cfg)
        settle = {c.node for c in fn.calls(SETTLE)}
        if rm and nx:
            cuts = refine_cuts(fn, rm[0], ["Some", "?"])
            p = fn.witness_path([rm[0].node], fn.return_nodes(), avoid=[nx[0].node], cut=cuts, after=True)
            ctx.ob("R16.2", "on_dial_failure/actions-iterated", p is None, site=fn.site(rm[0].node), cfg=fx.cfg,
                   detail=fn.path_sites(p) if p else "")
            cuts2 = refine_cuts(fn, nx[0], ["Some", "?"])
            p2 = region_uncovered(fn, nx[0].node, settle, cuts=cuts2)
            ctx.ob("R16.2", "on_dial_failure/each-action-settled", p2 is None, site=fn.site(nx[0].node), cfg=fx.cfg,
                   detail=fn.path_sites(p2) if p2 else "")
    # on_connection_established: open_substream failure for a pending action settles its query
    fn = ctx.fn(fx, K + "on_connection_established", "R16.2")
    if fn is not None:
        opens = fn.calls(r"TransportService::open_substream$")
        nx = [c for c in fn.calls(r"Iterator::next$") if any("PeerAction" in a for a in c.f.get("args", []))]
        ctx.anchor("R16.2", "on_connection_established: open_substream in action loop", len(opens), 1, cfg=fx.cfg)
        settle = {c.node for c in fn.calls(SETTLE)}
        for i, o in enumerate(opens):
            cuts = refine_cuts(fn, o, ["Err", "?"])
            ends = [n.node for n in nx]
            p = region_uncovered(fn, o.node, settle, cuts=cuts, extra_ends=ends)
            ctx.ob("R16.2", "on_connection_established/open_substream#%d:Err-settles-action" % i, p is None, site=fn.site(o.node), cfg=fx.cfg,
                   detail="a pending action whose substream cannot be opened after the dial succeeded is dropped without registering a failure "
                          "for its query (only the SendFindNode variant is handled): %s" % (fn.path_sites(p) if p else ""))
    # on_substream_open_failure: removing the pending action leads to disconnect_peer
    fn = ctx.fn(fx, K + "on_substream_open_failure::{closure#0}", "R16.2")
    if fn is not None:
        rm = field_calls(fn, r"HashMap::remove$", "pending_actions")
        ctx.anchor("R16.2", "on_substream_open_failure: pending_actions.remove", len(rm), 1, cfg=fx.cfg)
        dis = {c.node for c in fn.calls() if c.res and c.res.endswith("Kademlia::disconnect_peer::{closure#0}")} | {c.node for c in fn.calls(r"Kademlia::disconnect_peer$")}
        for r_ in rm:
            p = region_uncovered(fn, r_.node, dis)
            ctx.ob("R16.2", "on_substream_open_failure/removed-action=>disconnect_peer", p is None, site=fn.site(r_.node), cfg=fx.cfg,
                   detail=fn.path_sites(p) if p else "")
    # who may take a peer's context (and with it all of its pending actions) out of `peers`: only the bodies that settle every
    # pending action of the removed context (disconnect_peer) or that run when the connection is gone
    removers = []
    for key in sorted(fx.find(r"^protocol::libp2p::kademlia::Kademlia::\w+(::\{closure#0\})?$")):
        f2 = fx.fn(key)
        for c in field_calls(f2, r"HashMap::remove$", "peers"):
            if re.search(r"\.peers\W*$", f2.recv(c)) or f2.recv(c).rstrip("*").endswith(".peers"):
                removers.append(re.sub(r"::\{closure#0\}$", "", key).rsplit("::", 1)[-1])
    ctx.ob("R16.2", "peers.remove-only-in-disconnect_peer", set(removers) <= {"disconnect_peer"} and bool(removers), cfg=fx.cfg,
           detail="bodies removing a PeerContext (with its pending actions): %s; only disconnect_peer fails every pending action of the removed context" % sorted(set(removers)))
    # disconnect_peer: the failing query and all other pending actions are failed
    fn = ctx.fn(fx, K + "disconnect_peer::{closure#0}", "R16.2")
    if fn is not None:
        direct = fn.calls(r"QueryEngine::register_peer_failure$")
        ctx.anchor("R16.2", "disconnect_peer: register_peer_failure(query)", len(direct), 1, cfg=fx.cfg)
        inner = fx.fn(K + "disconnect_peer::{closure#0}::{closure#0}")
        ok_inner = inner is not None and bool(inner.calls(r"QueryEngine::register_peer_failure$"))
        if inner is not None:
            ctx.bodies.add((fx.cfg, inner.key))
            # the only way to skip the registration is the equality edge `Some(query_id) == query`
            settle = {c.node for c in inner.calls(r"QueryEngine::register_peer_failure$")}
            cmps = inner.calls(r"PartialEq.*::(ne|eq)$|option::Option(<.*>)?::(map_or|map_or_else|is_some_and|is_none_or)$")
            r = inner.reach([inner.entry], avoid=settle | {c.node for c in cmps})
            skipped = [n for n in inner.return_nodes() if n in r]
            ok_inner = ok_inner and not skipped
        loop_form = False
        if inner is None or not inner.calls(r"QueryEngine::register_peer_failure$"):
            # the same written as `for (_, action) in pending_actions { if Some(id) == query { continue } register_peer_failure(..) }`
            nxt = [c for c in fn.calls(r"Iterator>?::next$") if any("pending_actions" in x or "IntoIter" in x or "into_iter" in x for x in guards.rootstrs(fn, c.args[0]))]
            settle = {c.node for c in fn.calls(r"QueryEngine::register_peer_failure$")}
            cmps = {c.node for c in fn.calls(r"PartialEq.*::(ne|eq)$|option::Option(<.*>)?::(map_or|map_or_else|is_some_and|is_none_or)$")}
            for nx in nxt:
                some = set()
                for sw in fn.discr_switches():
                    if sw[1] and sw[1][0] in (fn.copies_of(nx.dest[0]) | {nx.dest[0]}) and len(sw[1]) == 1:
                        some |= {(sw[0], l) for l in fn.variant_edges(sw, "Some")}
                starts = [n_ for sw_, l_ in some for n_, l2 in fn.succs(sw_) if l2 == l_]
                if not starts:
                    continue
                inloop = [n_ for n_ in settle if n_ in fn.reach(starts) and nx.node in fn.reach([n_], after=True)]
                if not inloop:
                    continue
                back = fn.reach(starts, avoid=set(inloop) | cmps)
                ok_inner = nx.node not in back
                loop_form = True
        ctx.ob("R16.2", "disconnect_peer/pending-actions-failed", ok_inner, site=fn.site(fn.entry), cfg=fx.cfg,
               detail="for_each over pending_actions registers a peer failure unless it is the query already failed above")
        # into_iter().for_each over pending_actions on the Some edge of peers.remove
        rm = field_calls(fn, r"HashMap::remove$", "peers")
        fe = fn.calls(r"Iterator::for_each$")
        if not fe and loop_form:
            fe = [c for c in fn.calls(r"Iterator>?::next$") if any("pending_actions" in x or "IntoIter" in x or "into_iter" in x for x in guards.rootstrs(fn, c.args[0]))]
        ctx.anchor("R16.2", "disconnect_peer: peers.remove + for_each", min(len(rm), len(fe)), 1, cfg=fx.cfg)
        if rm and fe:
            cuts = refine_cuts(fn, rm[0], ["Some", "?"])
            p = fn.witness_path([rm[0].node], fn.return_nodes() + [n for n, _ in fn.exits()], avoid=[f.node for f in fe], cut=cuts, after=True)
            ctx.ob("R16.2", "disconnect_peer/removed-context-iterated", p is None, site=fn.site(rm[0].node), cfg=fx.cfg,
                   detail=fn.path_sites(p) if p else "")


EVENT_TABLE = {
    "FindNodeQuerySucceeded": "FindNodeSuccess",
    "PutRecordQuerySucceeded": "PutRecordSuccess",
    "AddProviderQuerySucceeded": "AddProviderSuccess",
    "GetRecordQueryDone": "GetRecordSuccess",
    "GetProvidersQueryDone": "GetProvidersSuccess",
    "QueryFailed": "QueryFailed",
    "GetRecordPartialResult": "GetRecordPartialResult",
}


def r16_3(ctx, fx):
    fn = ctx.fn(fx, K + "on_query_action::{closure#0}", "R16.3")
    if fn is None:
        return
    sws = [sw for sw in fn.discr_switches() if sw[2] and sw[2].endswith("query::QueryAction")]
    ctx.anchor("R16.3", "match on QueryAction", len(sws), 1, cfg=fx.cfg)
    if not sws:
        return
    sw = sws[0]
    node = sw[0]
    # no catch-all: the otherwise target must be an unreachable block or cover no variant
    ctx.ob("R16.3", "on_query_action/no-catch-all-arm", not sw[5] or not fn.variant_edges(sw, sw[5][0]), site=fn.site(node), cfg=fx.cfg,
           detail="variants without their own arm: %s" % sw[5])
    sends = {c.node: c for c in fn.calls(r"mpsc::(bounded::)?Sender::send$") if any("KademliaEvent" in a for a in c.f.get("args", []))}
    for var, ev in EVENT_TABLE.items():
        labs = fn.variant_edges(sw, var)
        if not labs:
            ctx.ob("R16.3", "on_query_action/arm:%s" % var, False, site=fn.site(node), cfg=fx.cfg, detail="no arm for variant")
            continue
        starts = [n for n, l in fn.succs(node) if l in labs]
        r = fn.reach(starts)
        aggs = [(n, s) for n, s in fn.aggregates(r"kademlia::handle::KademliaEvent$") if n in r]
        evs = sorted({s["rv"]["var"] for n, s in aggs})
        # every path of the arm sends
        p = fn.witness_path(starts, fn.return_nodes() + [n for n, _ in fn.exits()], avoid=set(sends))
        # exactly one send on the arm
        arm_sends = [n for n in sends if n in r]
        ctx.ob("R16.3", "on_query_action/arm:%s=>event:%s" % (var, ev), evs == [ev] and p is None and len(arm_sends) == 1,
               site=fn.site(starts[0]) if starts else "", cfg=fx.cfg,
               detail="events constructed in arm: %s (want exactly [%s]); sends in arm: %d; path without send: %s" % (evs, ev, len(arm_sends), fn.path_sites(p) if p else "none"))
        # the event carries the action's query id (provenance: a field of the matched action)
        for n, s in aggs:
            rv = s["rv"]
            if "query_id" in rv.get("fields", []):
                o = rv["ops"][rv["fields"].index("query_id")]
                rs = guards.rootstrs(fn, o)
                good = any(re.search(r"@%s\.(query|query_id)$" % var, x) for x in rs) and not any(x.startswith("call:") for x in rs)
                ctx.ob("R16.3", "on_query_action/arm:%s:event-carries-action-query-id" % var, good, site=fn.site(n), cfg=fx.cfg,
                       detail="roots of query_id: %s" % sorted(rs))


def _positive(fn, o, depth=0):
    """operand provably >= 1: a constant >= 1, NonZero::get, max(.., positive), min(positive, positive), through copies"""
    if depth > 12:
        return False
    k = o.get("k")
    if k is not None:
        return isinstance(k.get("v"), int) and k["v"] >= 1
    p = o.get("m") or o.get("c")
    if not p or len(p) != 1:
        return False
    ds = fn.defs().get(p[0], [])
    if not ds:
        return False
    for node, kind, pl in ds:
        if kind == "call":
            c = fn.call_at(node)
            if re.search(r"num::NonZero(<.*>)?::get$", c.name):
                continue
            if re.search(r"cmp::max$|Ord>?::max$", c.name) and any(_positive(fn, a, depth + 1) for a in c.args):
                continue
            if re.search(r"cmp::min$|Ord>?::min$", c.name) and all(_positive(fn, a, depth + 1) for a in c.args):
                continue
            return False
        if kind == "assign" and pl["rv"]["r"] in ("use", "cast") and _positive(fn, pl["rv"]["o"], depth + 1):
            continue
        return False
    return True


def r16_7(ctx, fx):
    """disconnect_peer(peer, Some(query)) settles that query unconditionally: from the Some edge of the `query` argument every exit
    passes `engine.register_peer_failure(query, peer)` - it must not depend on the peer still being tracked in `self.peers` (a second
    failing request to the same peer, or a ConnectionClosed handled first, finds the context already removed)."""
    fn = ctx.fn(fx, K + "disconnect_peer::{closure#0}", "R16.7")
    if fn is None:
        return
    qsw = [sw for sw in fn.discr_switches() if sw[2].endswith("option::Option") and re.search(r"\{query\}$", fn.origin({"c": list(sw[1])}))]
    ctx.anchor("R16.7", "disconnect_peer: match on the query argument", len(qsw), 1, cfg=fx.cfg)
    hits = [c.node for c in fn.calls(r"QueryEngine::register_peer_failure$") if len(c.args) > 1 and re.search(r"\{query\}@Some\.0$", fn.origin(c.args[1]))]
    for sw in qsw:
        starts = [n for n, l in fn.succs(sw[0]) if l in fn.variant_edges(sw, "Some")]
        p = fn.witness_path(starts, [n for n, _ in fn.exits()] + fn.return_nodes(), avoid=hits)
        ctx.ob("R16.7", "disconnect_peer/Some(query)=>register_peer_failure(query)-on-every-path", bool(hits) and p is None, site=fn.site(sw[0]), cfg=fx.cfg,
               detail="path from the Some edge to an exit without settling the failing query: %s" % (fn.path_sites(p) if p else None))
        # and not behind the removal of the peer context
        rm = [c for c in fn.calls(r"HashMap(<.*>)?::remove$") if ".peers" in fn.recv(c)]
        gated = False
        for c in rm:
            for sw2 in fn.discr_switches():
                if sw2[1] and sw2[1][0] in fn.copies_of(c.dest[0]) | {c.dest[0]}:
                    if hits and all(fn.only_via(h, sw2[0], fn.variant_edges(sw2, "Some")) for h in hits):
                        gated = True
        ctx.ob("R16.7", "disconnect_peer/settling-the-failing-query-does-not-depend-on-peers.remove", bool(hits) and not gated, site=fn.site(sw[0]), cfg=fx.cfg)


QUORUM_CONTEXTS = [
    # (module, type, method that counts a success, tag)
    ("target_peers", "PutToTargetPeersContext", "register_send_success", ""),
    # src/protocol/libp2p/kademlia/query/put_record.rs (PutRecordToFoundNodesContext) is not a module of the crate (dead file): the put
    # to the closest peers found is tracked by PutToTargetPeersContext as well (start_put_record_to_found_nodes_requests_tracking)
]


def r16_8(ctx, fx):
    """sibling agreement on substream bookkeeping: on_substream_open_failure finds the peer of a failed substream through
    `pending_substreams`, so every place in Kademlia that opens a substream for a parked action records it there on the Ok edge
    (open_substream_or_dial does; on_connection_established must too, otherwise a substream refused right after a dial is dropped and
    its query waits until the connection closes)."""
    n = 0
    for key in sorted(fx.find(r"^protocol::libp2p::kademlia::Kademlia::[a-z_]+(::\{closure#0\})?$")):
        fn = fx.fn(key)
        opens = [c for c in fn.calls(r"TransportService::open_substream$")]
        if not opens:
            continue
        ins = [c.node for c in fn.calls(r"HashMap(<.*>)?::insert$") if ".pending_substreams" in fn.recv(c)]
        for i, c in enumerate(opens):
            n += 1
            ctx.bodies.add((fx.cfg, key))
            cuts = refine_cuts(fn, c, ["Ok", "?"])
            ends = [x for x, _ in fn.exits()] + fn.return_nodes() + [lp[0].node for lp in for_loops(fn)]
            p = fn.witness_path([c.node], ends, avoid=ins, cut=cuts, after=True) if cuts else [c.node]
            ctx.ob("R16.8", "%s/open_substream#%d:Ok=>recorded-in-pending_substreams" % (short(key), i), bool(ins) and p is None, site=fn.site(c.node), cfg=fx.cfg,
                   detail="path from the Ok edge to the end of the step without pending_substreams.insert: %s" % (fn.path_sites(p) if p else None))
    ctx.anchor("R16.8", "Kademlia: TransportService::open_substream call sites", n, 2, cfg=fx.cfg)


def r16_9(ctx, fx):
    """put_record_to_peers: the quorum is taken over the peers the user named.  The closure that turns the given peer ids into targets
    may drop an id only because it is the local peer; dropping ids that are unknown to the routing table before the quorum is computed
    lets `Quorum::All` (or `N(k)`) succeed although some of the named peers were never sent the record."""
    ks = [k for k in fx.find(r"^protocol::libp2p::kademlia::Kademlia::run::\{closure#0\}::\{closure#\d+\}$")
          if "Option<protocol::libp2p::kademlia::types::KademliaPeer>" in fx.fn(k).ret and fx.fn(k).calls(r"RoutingTable::entry$")]
    ctx.anchor("R16.9", "run: closure mapping given peer ids to put targets", len(ks), 1, cfg=fx.cfg)
    for k in ks:
        fn = fx.fn(k)
        ctx.bodies.add((fx.cfg, k))
        nones = [n for n, sh in fn.exits() if any(x.startswith("None") for x in sh)]
        local = []
        for c in fn.calls(r"PartialEq(<.*>)?>?::eq$|::eq$"):
            if any("local_peer_id" in x for a in c.args for x in guards.rootstrs(fn, a)):
                for sw, t, f in fn.bool_tests(c.dest[0]):
                    local.append((sw, t))
        r = fn.reach([fn.entry], cut=set(local))
        bad = [fn.site(n) for n in nones if n in r]
        ctx.ob("R16.9", "PutRecordToPeers/named-targets-dropped-only-for-the-local-peer", bool(local) and not bad, site=fn.site(fn.entry), cfg=fx.cfg,
               detail="None exits reachable without `peer == local_peer_id`: %s" % bad)


def r16_10(ctx, fx):
    """a response that cannot be used settles the request: in Kademlia::run, when on_message_received fails for a message that answers a
    local request (an undecodable frame, a PING, an ADD_PROVIDER sent as 'response'), nothing else will arrive for that request - the
    read already succeeded, so no timeout fires.  The arm that handles the message has a call that registers the failure with the query
    (disconnect_peer / register_peer_failure) between the call and the next select! dispatch."""
    fn = ctx.fn(fx, K + "run::{closure#0}", "R16.10")
    if fn is None:
        return
    omr = [c for c in fn.calls(r"Kademlia::on_message_received$")]
    ctx.anchor("R16.10", "run: on_message_received calls", len(omr), 1, cfg=fx.cfg)
    # the handling of one executor result ends where the loop starts over: the drain of engine.next_action() at the loop head, or the
    # next select! dispatch
    ends = set(fn.return_nodes()) | {sw[0] for sw in fn.discr_switches() if sw[2].endswith("__tokio_select_util::Out")} | {c.node for c in fn.calls(r"QueryEngine::next_action$")}
    settle = [c.node for c in fn.calls(r"Kademlia::disconnect_peer$|QueryEngine::register_peer_failure$|QueryEngine::register_response_failure$")]
    for i, c in enumerate(omr):
        # only the call that carries a query id (answers to local requests): its third argument is not a literal None
        sh = fn.shape(c.args[3]) if len(c.args) > 3 else set()
        if sh == {"None"}:
            continue
        r = fn.reach([c.node], after=True, stop=ends | {c.node})
        ctx.ob("R16.10", "run/on_message_received#%d:failure-of-an-answer-is-registered-with-the-query" % i, any(x in r for x in settle), site=fn.site(c.node), cfg=fx.cfg,
               detail="query id argument shape %s; settle calls in the arm: %d" % (sorted(sh), len([x for x in settle if x in r])))


def r16_4(ctx, fx):
    """sibling contexts that decide 'the requested quorum was reached' (put to given peers; put to the closest peers found): the same
    obligations are evaluated on both"""
    for mod_, ty, okm, tag in QUORUM_CONTEXTS:
        _r16_4(ctx, fx, mod_, ty, okm, tag)


def _r16_4(ctx, fx, mod_, ty, okm, tag):
    T = "protocol::libp2p::kademlia::query::%s::%s::" % (mod_, ty)
    fn = ctx.fn(fx, T + "next_action", "R16.4")
    if fn is not None:
        succ = fn.aggregates(r"QueryAction$", "QuerySucceeded")
        fin = fn.calls(ty + r"::is_finished$")
        suc = fn.calls(ty + r"::is_succeded$")
        ctx.anchor("R16.4", tag + "next_action: QuerySucceeded aggregate", len(succ), 1, cfg=fx.cfg)
        ctx.anchor("R16.4", tag + "next_action: is_finished / is_succeded calls", min(len(fin), len(suc)), 1, cfg=fx.cfg)
        if succ and fin and suc:
            ok = True
            for c in (fin[0], suc[0]):
                tests = fn.bool_tests(c.dest[0])
                ok = ok and any(fn.only_via(succ[0][0], sw, [t]) for sw, t, f in tests)
            ctx.ob("R16.4", tag + "next_action/QuerySucceeded-only-if-finished-and-quorum", ok, site=fn.site(succ[0][0]), cfg=fx.cfg,
                   detail="QuerySucceeded must lie behind the true edges of is_finished() and is_succeded()")
    fn = ctx.fn(fx, T + "new", "R16.4")
    if fn is not None:
        aggs = [(n, s_) for n, s_ in fn.aggregates(ty + "$") if "peers_to_succeed" in s_["rv"].get("fields", [])]
        ctx.anchor("R16.4", ty + " literal", len(aggs), 1, cfg=fx.cfg)
        for n, s_ in aggs:
            o = s_["rv"]["ops"][s_["rv"]["fields"].index("peers_to_succeed")]
            ctx.ob("R16.4", tag + "new/peers_to_succeed>=1-for-every-quorum", _positive(fn, o), site=fn.site(n), cfg=fx.cfg,
                   detail="with a required count of 0 and no usable target the context reports success although nothing was sent; every arm of the "
                          "quorum match must yield a value >= 1 (constant, NonZero::get, max(.., 1), min of such)")
            # the quorum is counted over the set that is tracked: pending_peers is a set (a peer named twice is one entry, it can
            # succeed once), so the base of the quorum is that set's len(), not the length of the list as given
            rs = guards.rootstrs(fn, o)
            base_set = any(re.search(r"HashSet(<.*>)?::len$", x) for x in rs)
            base_vec = any(re.search(r"Vec(<.*>)?::len$", x) for x in rs)
            ctx.ob("R16.4", tag + "new/quorum-counted-over-the-deduplicated-target-set", base_set and not base_vec, site=fn.site(n), cfg=fx.cfg,
                   detail="len() sources of peers_to_succeed: %s" % sorted(x for x in rs if x.endswith("::len")))
            z = s_["rv"]["ops"][s_["rv"]["fields"].index("n_succeeded")] if "n_succeeded" in s_["rv"]["fields"] else None
            ctx.ob("R16.4", tag + "new/n_succeeded-starts-at-0", z is not None and fn.const_value(z) == 0, site=fn.site(n), cfg=fx.cfg)
    fn = ctx.fn(fx, T + "is_succeded", "R16.4")
    if fn is not None:
        is_q = lambda f, o: guards.has_root(f, o, r"\.n_succeeded")
        is_b = lambda f, o: guards.has_root(f, o, r"\.peers_to_succeed")
        cmps = guards.comparisons(fn, is_q, is_b)
        ok = len(cmps) == 1 and cmps[0][2] == ">=" and fn.single_def(0) is not None
        ctx.ob("R16.4", tag + "is_succeded/n_succeeded>=peers_to_succeed", ok, site=fn.site(fn.entry), cfg=fx.cfg,
               detail="comparisons found: %s" % [(fn.site(n), rel) for n, d, rel in cmps])
    fn = ctx.fn(fx, T + "is_finished", "R16.4")
    if fn is not None:
        c = fn.calls(r"HashSet(<.*>)?::is_empty$")
        ok = len(c) == 1 and ".pending_peers" in fn.recv(c[0]) and c[0].dest == [0]
        if not ok:
            # `self.pending_peers.len() == 0`
            ln = [x for x in fn.calls(r"HashSet(<.*>)?::len$") if ".pending_peers" in fn.recv(x)]
            d0 = fn.single_def(0)
            if len(ln) == 1 and d0 is not None and d0[1] == "assign" and d0[2]["rv"]["r"] == "bin" and d0[2]["rv"]["op"] == "Eq":
                a, b = d0[2]["rv"]["a"], d0[2]["rv"]["b"]
                ok = any(ln[0].dest[0] in slice_locals(fn, x) and fn.const_value(y) == 0 for x, y in ((a, b), (b, a)))
        ctx.ob("R16.4", tag + "is_finished/pending_peers-empty", ok, site=fn.site(fn.entry), cfg=fx.cfg, detail="returns pending_peers.is_empty()")
    fn = ctx.fn(fx, T + okm, "R16.4")
    if fn is not None:
        rm = field_calls(fn, r"HashSet::remove$", "pending_peers")
        incs = [n for n, s in fn.assigns() if "".join(s["lhs"][1:]).endswith(".n_succeeded")]
        ctx.anchor("R16.4", okm + ": pending_peers.remove / n_succeeded write", min(len(rm), len(incs)), 1, cfg=fx.cfg)
        if rm and incs:
            tests = fn.bool_tests(rm[0].dest[0])
            ok = all(any(fn.only_via(n, sw, [t]) for sw, t, f in tests) for n in incs)
            ctx.ob("R16.4", tag + okm + "/count-only-pending-peer", ok, site=fn.site(incs[0]), cfg=fx.cfg,
                   detail="n_succeeded is incremented only when the peer was removed from pending_peers")
    # who writes n_succeeded
    writers = set()
    for key in fx.find(r"kademlia::query::%s::" % mod_):
        f = fx.fn(key)
        for n, s in f.assigns():
            if "".join(s["lhs"][1:]).endswith(".n_succeeded"):
                writers.add(key)
    ctx.ob("R16.4", tag + "n_succeeded-writers", writers <= {T + okm}, cfg=fx.cfg,
           detail="functions writing n_succeeded: %s" % sorted(writers))


def r16_5(ctx, fx):
    """actions parked for a peer that is being dialed are keyed by PeerId (not fresh): parking must append, never replace"""
    n = 0
    for key in sorted(fx.find(r"^protocol::libp2p::kademlia::Kademlia::[a-z_]+(::\{closure#0\})?$")):
        fn = fx.fn(key)
        for i, c in enumerate(field_calls(fn, r"HashMap::insert$", "pending_dials")):
            n += 1
            ctx.bodies.add((fx.cfg, key))
            looks = [l.node for l in field_calls(fn, r"HashMap::(contains_key|get|get_mut|remove)$", "pending_dials")]
            guarded_ = bool(looks) and c.node not in fn.reach([fn.entry], avoid=looks)
            used = any(True for node in fn.all_nodes() if _reads(fn, node, c.dest[0]))
            ctx.ob("R16.5", "%s/pending_dials.insert#%d:no-silent-overwrite" % (short(key), i), guarded_ or used, site=fn.site(c.node), cfg=fx.cfg,
                   detail="pending_dials is keyed by PeerId; an insert that neither inspects the displaced actions nor is guarded by a lookup drops the "
                          "actions of other queries waiting for the same dial (their queries never finish)")
        for c in field_calls(fn, r"HashMap::entry$", "pending_dials"):
            n += 1
            # entry(..).or_default().push(action): the Vec::push must follow
            pushes = {x.node for x in fn.calls(r"Vec::push$")}
            p = fn.witness_path([c.node], fn.return_nodes() + [x for x, _ in fn.exits()], avoid=pushes, after=True)
            ctx.ob("R16.5", "%s/pending_dials.entry:appends" % short(key), p is None, site=fn.site(c.node), cfg=fx.cfg,
                   detail="entry(peer) must be followed by a push of the action on every path")
    ctx.anchor("R16.5", "sites parking an action in pending_dials", n, 1, cfg=fx.cfg)


def _reads(fn, node, local):
    x = fn.at(node)
    if fn.is_term(node):
        if x["k"] == "drop":
            return False
        if x["k"] == "switch":
            p = x["o"].get("c") or x["o"].get("m")
            return p is not None and p[0] == local
        if x["k"] == "call":
            return any((a.get("c") or a.get("m") or [None])[0] == local for a in x["args"])
        return False
    rv = x["rv"]
    for k in ("o", "a", "b"):
        if k in rv and isinstance(rv[k], dict):
            p = rv[k].get("c") or rv[k].get("m")
            if p is not None and p[0] == local:
                return True
    if "p" in rv and rv["p"][0] == local:
        return True
    return any((o.get("c") or o.get("m") or [None])[0] == local for o in rv.get("ops", []))


def r16_6(ctx, fx):
    """open_substream_or_dial is transactional: Ok <=> the action was parked exactly once (pending_actions or pending_dials),
    Err => nothing was parked (the caller registers the failure; a parked action would settle the query a second time)"""
    from common import park_nodes
    fn = ctx.fn(fx, K + "open_substream_or_dial", "R16.6")
    if fn is None:
        return
    # a call of a method that itself files the action (`PeerContext::add_pending_action(id, action)`) is a park site as well
    wrappers = []
    for c in fn.calls(r"."):
        if c.from_macro or not c.name or not fx.has(c.name) or len(c.args) < 3:
            continue
        cal = fx.fn(c.name)
        if cal is not None and [d for d in cal.calls(r"HashMap(<.*>)?::insert$") if "pending_actions" in cal.origin(d.args[0]) and guards.rootstrs(cal, d.args[1]) == {"param:_2"}]:
            wrappers.append(c)
    stores = [c.node for c in park_nodes(fn, "pending_dials")] + [c.node for c in fn.calls(r"HashMap(<.*>)?::insert$") if "pending_actions" in fn.origin(c.args[0]) or any("pending_actions" in x for x in guards.rootstrs(fn, c.args[0]))] \
        + [c.node for c in wrappers]
    ctx.anchor("R16.6", "open_substream_or_dial: park sites", len(stores), 3, cfg=fx.cfg)
    oks = [n for n, sh in fn.exits() if all(x.startswith("Ok") for x in sh)]
    errs = [n for n, sh in fn.exits() if any(not x.startswith("Ok") for x in sh)]
    r = fn.reach([fn.entry], avoid=stores)
    ctx.ob("R16.6", "open_substream_or_dial/Ok-implies-parked", bool(oks) and not [n for n in oks if n in r], site=fn.site(fn.entry), cfg=fx.cfg)
    bad = [fn.site(e) for st in stores for e in errs if e in fn.reach([st], after=True)]
    ctx.ob("R16.6", "open_substream_or_dial/Err-implies-not-parked", not bad, site=fn.site(fn.entry), cfg=fx.cfg, detail=str(sorted(set(bad))))
    twice = [fn.site(a) for a in stores for b in stores if b in fn.reach([a], after=True)]
    ctx.ob("R16.6", "open_substream_or_dial/parked-at-most-once", not twice, site=fn.site(fn.entry), cfg=fx.cfg, detail=str(twice))
    # the substream id tracked in pending_substreams is the one the action is filed under
    ps = [c for c in fn.calls(r"HashMap(<.*>)?::insert$") if "pending_substreams" in fn.origin(c.args[0])]
    pa = [c for c in fn.calls(r"HashMap(<.*>)?::insert$") if c.node in stores and ("pending_actions" in fn.origin(c.args[0]) or any("pending_actions" in x for x in guards.rootstrs(fn, c.args[0])))] + wrappers
    same = lambda a, b: guards.rootstrs(fn, a.args[1]) == guards.rootstrs(fn, b.args[1]) and b.node in fn.reach([a.node], after=True)
    ok = bool(ps) and bool(pa) and all(any(same(a, b) for b in pa) for a in ps) and all(any(same(a, b) for a in ps) for b in pa)
    ctx.ob("R16.6", "open_substream_or_dial/tracked-substream-id-matches-the-parked-action", ok, site=fn.site(fn.entry), cfg=fx.cfg)


def run(ctx):
    fx = ctx.facts("default")
    r16_5(ctx, fx)
    r16_1(ctx, fx)
    r16_2(ctx, fx)
    r16_6(ctx, fx)
    r16_3(ctx, fx)
    r16_4(ctx, fx)
    r16_7(ctx, fx)
    r16_8(ctx, fx)
    r16_9(ctx, fx)
    r16_10(ctx, fx)
    from common import check_no_dropped_futures
    check_no_dropped_futures(ctx, fx, "R16.11", r"^protocol::libp2p::kademlia::.*::\{closure#0\}(::\{closure#\d+\})*$", "kademlia", 16)
    # a request / query parked behind a dial is settled only if the dial's outcome is reported: the transport manager's obligations
    # R05.9 (stated in rules/C05.py) are part of this property's argument and evaluated here too
    import C05
    C05.r05_9(ctx, fx, which=("Reject", "DialPeer"))
