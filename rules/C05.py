"""C05 - Every dial attempt ends in exactly one outcome and never wedges the peer (local pairing rules).

R05.1 commit-or-rollback in TransportManager::dial / dial_address
R05.2 exactly one accept/reject per ConnectionEstablished / PendingInboundConnection; rollback on failed accept
R05.3 un-tracking a dial (pending_connections.remove -> Some) implies a PeerState transition on the same path
R05.4 DialFailure / OpenFailure events are emitted only when the manager consumed the dial record
"""
import re
import guards
from paths import Inter, refine_cuts, region_uncovered, region_second_hit, reachable_given
from common import closure_operand, for_loops, slice_locals, exit_desc, short, trait_impl_bodies, may_return_err, field_calls

EXPLANATION = ("Per-function pairing obligations over all MIR CFG paths of the TransportManager: after PeerState has been put "
               "into a dialing state every exit commits (pending_connections.insert) or rolls back; each established / pending "
               "inbound connection is answered by exactly one accept or reject; removing a dial record is always accompanied by "
               "a PeerState transition; failure events are guarded by the consuming transition.")

TM = "transport::manager::TransportManager::"
TRANSITIONS = r"PeerState::(on_dial_failure|on_connection_established|on_connection_opened|on_open_failure)$"


def r05_1(ctx, fx):
    for meth, state_call in (("dial", r"PeerState::dial_addresses$"), ("dial_address", r"PeerState::dial_single_address$")):
        fn = ctx.fn(fx, TM + meth + "::{closure#0}", "R05.1")
        if fn is None:
            continue
        sc = fn.calls(state_call)
        ctx.anchor("R05.1", "%s: state call %s" % (meth, state_call), len(sc), 1, cfg=fx.cfg)
        if not sc:
            continue
        sc = sc[0]
        commits = field_calls(fn, r"HashMap::insert$", "pending_connections")
        ctx.anchor("R05.1", "%s: pending_connections.insert" % meth, len(commits), 1, cfg=fx.cfg)
        rollbacks = [c.node for c in fn.calls(r"PeerState::on_dial_failure$")]
        # assignment of a fresh Disconnected state to a `.state` place also counts as rollback
        for node, s in fn.aggregates(r"PeerState$", "Disconnected"):
            rollbacks.append(node)
        hits = {c.node for c in commits} | set(rollbacks)
        # result refinement: only the `Ok` outcome of the state call leaves the peer in a dialing state
        cuts = set()
        if meth == "dial_address":
            cuts |= refine_cuts(fn, sc, ["Ok"])
        # infeasible `?` edges: dyn Transport::open / dial whose every impl only returns Ok
        notes = []
        for c in fn.calls(r"transport::Transport::(open|dial)$"):
            m = c.name.rsplit("::", 1)[-1]
            bodies = trait_impl_bodies(fx, r"^transport::Transport$", m)
            for b in bodies:
                ctx.bodies.add((fx.cfg, b.key))
            can, why = may_return_err(fx, bodies)
            notes.append("%s.%s: impls=%d may_err=%s %s" % (meth, m, len(bodies), can, why))
            ctx.anchor("R05.1", "impls of Transport::%s" % m, len(bodies), 1 if fx.cfg == "default" else 3, cfg=fx.cfg)
            if not can:
                cuts |= refine_cuts(fn, c, ["Ok", "?"])
        # the same calls made from the closure of `iter.try_for_each(|..| transport.open(..))`: the combinator fails only if the
        # closure does, and the closure hands on the result of an infallible open / dial (or `Ok(())`)
        for c in fn.calls(r"Iterator>?::try_for_each$"):
            cl = closure_operand(fx, fn, c.args[1]) if len(c.args) > 1 else None
            if cl is None:
                continue
            ctx.bodies.add((fx.cfg, cl.key))
            only_ok = True
            for n_, sh in cl.ret_sites():
                for x in sh:
                    if x.startswith("Ok"):
                        continue
                    m2 = re.match(r"^call:.*transport::Transport::(open|dial)$", x)
                    if m2 is None:
                        only_ok = False
                        continue
                    bodies = trait_impl_bodies(fx, r"^transport::Transport$", m2.group(1))
                    can, why = may_return_err(fx, bodies)
                    notes.append("%s.try_for_each closure -> %s: impls=%d may_err=%s" % (meth, m2.group(1), len(bodies), can))
                    if can:
                        only_ok = False
            if only_ok and cl.ret_sites():
                cuts |= refine_cuts(fn, c, ["Ok", "?"])
        ctx.note("R05.1 feasibility %s (%s)" % (meth, fx.cfg), notes)
        it = Inter(fx, r"^$", extra_hit=lambda f, n, fn=fn, hits=hits: f is fn and n in hits)
        # search from the state call with the cuts applied: reuse plain reachability (cuts are intraprocedural)
        exits = dict(fn.exits())
        r = fn.reach([sc.node], avoid=hits, cut=cuts, after=True)
        bad = [n for n in exits if n in r]
        seen = set()
        for n in bad:
            path = fn.witness_path([sc.node], [n], avoid=hits, cut=cuts, after=True)
            d = exit_desc(fn, n, exits[n], path)
            if d in seen:
                continue
            seen.add(d)
            ctx.ob("R05.1", "%s/%s" % (meth, d), False, site=fn.site(n), cfg=fx.cfg,
                   detail="PeerState was switched to a dialing state at %s but this exit neither records the dial in pending_connections "
                          "nor rolls the state back: the peer stays Dialing/Opening (can_dial == DialingInProgress) forever; witness %s"
                          % (fn.site(sc.node), fn.path_sites(path)))
        ctx.ob("R05.1", "%s/commit-or-rollback-analysed" % meth, True, site=fn.site(sc.node), cfg=fx.cfg,
               detail="exits examined: %d, violating: %d, hits: %d" % (len(exits), len(seen), len(hits)), nontrivial=True)


def r05_2(ctx, fx):
    fn = ctx.fn(fx, TM + "next::{closure#0}", "R05.2")
    if fn is None:
        return
    # --- ConnectionEstablished arm
    start = fn.calls(r"TransportManager::on_connection_established$")
    ctx.anchor("R05.2", "call on_connection_established", len(start), 1, cfg=fx.cfg)
    acc = fn.calls(r"transport::Transport::accept$")
    rej = fn.calls(r"transport::Transport::reject$")
    ctx.anchor("R05.2", "Transport::accept sites", len(acc), 1, cfg=fx.cfg)
    ctx.anchor("R05.2", "Transport::reject sites", len(rej), 2, cfg=fx.cfg)
    if start:
        s = start[0]
        hits = {c.node for c in acc + rej}
        p = region_uncovered(fn, s.node, hits)
        ctx.ob("R05.2", "next/established:at-least-one-of-accept-reject", p is None, site=fn.site(s.node), cfg=fx.cfg,
               detail="path from on_connection_established to the end of the event without accept/reject: %s" % (fn.path_sites(p) if p else ""))
        sec = region_second_hit(fn, s.node, hits)
        ctx.ob("R05.2", "next/established:at-most-one-of-accept-reject", sec is None, site=fn.site(s.node), cfg=fx.cfg,
               detail="second accept/reject reachable: %s" % (fn.path_sites(sec[2]) if sec else ""))
        # Accept result => accept, anything else => reject
        for chain, want, wname in ((["Ok", "Accept"], acc, "accept"), (["Ok", "Reject"], rej, "reject"), (["Err", "?"], rej, "reject")):
            cuts = refine_cuts(fn, s, chain)
            p = region_uncovered(fn, s.node, {c.node for c in want}, cuts=cuts)
            ctx.ob("R05.2", "next/established:%s=>%s" % (".".join(chain), wname), p is None, site=fn.site(s.node), cfg=fx.cfg,
                   detail="result %s must lead to Transport::%s; uncovered path %s" % (chain, wname, fn.path_sites(p) if p else ""))
        # rollback on failed accept
        closed = {c.node for c in fn.calls(r"TransportManager::on_connection_closed$")}
        for a in acc:
            cuts = refine_cuts(fn, a, ["Err", "?"])
            p = fn.witness_path([a.node], region_ends_of(fn, s.node), avoid=closed, cut=cuts, after=True)
            ctx.ob("R05.2", "next/established:accept-Err=>rollback", p is None, site=fn.site(a.node), cfg=fx.cfg,
                   detail="Err from Transport::accept must roll back via on_connection_closed; uncovered %s" % (fn.path_sites(p) if p else ""))
    # --- PendingInboundConnection arm
    start = fn.calls(r"TransportManager::on_pending_incoming_connection$")
    ctx.anchor("R05.2", "call on_pending_incoming_connection", len(start), 1, cfg=fx.cfg)
    accp = fn.calls(r"transport::Transport::accept_pending$")
    rejp = fn.calls(r"transport::Transport::reject_pending$")
    ctx.anchor("R05.2", "accept_pending/reject_pending sites", len(accp) + len(rejp), 2, cfg=fx.cfg)
    if start:
        s = start[0]
        hits = {c.node for c in accp + rejp}
        p = region_uncovered(fn, s.node, hits)
        ctx.ob("R05.2", "next/pending-inbound:at-least-one", p is None, site=fn.site(s.node), cfg=fx.cfg,
               detail="uncovered: %s" % (fn.path_sites(p) if p else ""))
        sec = region_second_hit(fn, s.node, hits)
        ctx.ob("R05.2", "next/pending-inbound:at-most-one", sec is None, site=fn.site(s.node), cfg=fx.cfg,
               detail="second: %s" % (fn.path_sites(sec[2]) if sec else ""))
        for chain, want, wname in ((["Ok", "?"], accp, "accept_pending"), (["Err", "?"], rejp, "reject_pending")):
            cuts = refine_cuts(fn, s, chain)
            p = region_uncovered(fn, s.node, {c.node for c in want}, cuts=cuts)
            ctx.ob("R05.2", "next/pending-inbound:%s=>%s" % (chain[0], wname), p is None, site=fn.site(s.node), cfg=fx.cfg,
                   detail="uncovered %s" % (fn.path_sites(p) if p else ""))
    # --- failed pending-accept future => rollback
    # the select arm binds (peer, endpoint, result); `result` Err arm must call on_connection_closed before the loop continues
    est = fn.aggregates(r"transport::TransportEvent$", "ConnectionEstablished")
    ctx.anchor("R05.2", "Some(TransportEvent::ConnectionEstablished) site", len(est), 1, cfg=fx.cfg)


def region_ends_of(fn, start):
    """ends of the handling of one event: function exits, `start` itself, and the dispatch of the next select! iteration"""
    from paths import region_ends
    return region_ends(fn, start) | {sw[0] for sw in fn.discr_switches() if sw[2].endswith("__tokio_select_util::Out")}


def r05_3(ctx, fx):
    n_sites = 0
    for key in sorted(fx.find(r"^transport::manager::TransportManager::[a-z_]+(::\{closure#0\})?$")):
        fn = fx.fn(key)
        rems = field_calls(fn, r"HashMap::remove$", "pending_connections")
        if not rems:
            continue
        ctx.bodies.add((fx.cfg, key))
        trans = {c.node for c in fn.calls(TRANSITIONS)}
        reins = {c.node for c in field_calls(fn, r"HashMap::insert$", "pending_connections")}
        hits = trans | reins
        for i, rm in enumerate(rems):
            n_sites += 1
            # paths entry -> remove without a transition
            before = fn.reach([fn.entry], avoid=hits)
            if rm.node not in before:
                ctx.ob("R05.3", "%s/remove#%d:transition-precedes" % (short(key), i), True, site=fn.site(rm.node), cfg=fx.cfg,
                       detail="every path to this remove already passed a PeerState transition")
                continue
            cuts = refine_cuts(fn, rm, ["Some", "?"])
            # a peer whose dial is tracked has a context (dial / dial_address create it with entry().or_default()):
            # the None result of a lookup in `peers` is not a path on which a dialing state exists
            for g in fn.calls(r"HashMap::(get_mut|get)$"):
                if any("PeerContext" in a for a in g.f.get("args", [])):
                    cuts |= refine_cuts(fn, g, ["Some", "?"])
            exits = dict(fn.exits())
            r = fn.reach([rm.node], avoid=hits, cut=cuts, after=True)
            bad = [n for n in exits if n in r]
            seen = set()
            for n in bad:
                path = fn.witness_path([rm.node], [n], avoid=hits, cut=cuts, after=True)
                d = exit_desc(fn, n, exits[n], path)
                if d in seen:
                    continue
                seen.add(d)
                ctx.ob("R05.3", "%s/remove#%d/%s" % (short(key), i, d), False, site=fn.site(n), cfg=fx.cfg,
                       detail="pending_connections.remove at %s returned Some (the dial is no longer tracked) but this exit is reached "
                              "without any PeerState transition: a dialed peer stays Dialing forever; witness %s" % (fn.site(rm.node), fn.path_sites(path)))
            if not seen:
                ctx.ob("R05.3", "%s/remove#%d:transition-follows" % (short(key), i), True, site=fn.site(rm.node), cfg=fx.cfg)
    ctx.anchor("R05.3", "pending_connections.remove sites", n_sites, 5, cfg=fx.cfg)


def r05_4(ctx, fx):
    fn = ctx.fn(fx, TM + "next::{closure#0}", "R05.4")
    if fn is None:
        return
    for agg_var, call_rx, bad_chains in (
        ("DialFailure", r"TransportManager::on_dial_failure$", [["Err", "?"]]),
        ("OpenFailure", r"TransportManager::on_open_failure$", [["Err", "?"], ["Ok", "None"]]),
    ):
        aggs = [n for n, s in fn.aggregates(r"^transport::TransportEvent$", agg_var)]
        calls = fn.calls(call_rx)
        ctx.anchor("R05.4", "TransportEvent::%s aggregate" % agg_var, len(aggs), 1, cfg=fx.cfg)
        ctx.anchor("R05.4", "call %s" % call_rx, len(calls), 1, cfg=fx.cfg)
        if not aggs or not calls:
            continue
        c = calls[0]
        # aggregate only after the call
        r0 = fn.reach([fn.entry], avoid=[c.node])
        ctx.ob("R05.4", "next/%s-only-after-transition-call" % agg_var, not any(a in r0 for a in aggs), site=fn.site(aggs[0]), cfg=fx.cfg,
               detail="the event must not be constructible without calling %s first" % call_rx)
        for ch in bad_chains:
            got, cuts = reachable_given(fn, c, ch, aggs)
            ctx.ob("R05.4", "next/%s-not-on-%s" % (agg_var, ".".join(ch)), not got, site=fn.site(aggs[0]), cfg=fx.cfg,
                   detail="TransportEvent::%s reachable although %s returned %s (cuts=%d)" % (agg_var, call_rx, ch, len(cuts)))


def r05_6(ctx, fx):
    """on_connection_opened: once PeerState::on_connection_opened advanced the peer to Dialing (true edge), every exit either
    tracks the negotiation (pending_connections.insert) or rolls the peer back to a dialable state; `on_open_failure` is not a
    rollback here because it only acts on the Opening state the peer has just left"""
    fn = ctx.fn(fx, TM + "on_connection_opened", "R05.6")
    if fn is None:
        return
    adv = fn.calls(r"PeerState::on_connection_opened$")
    ctx.anchor("R05.6", "on_connection_opened: PeerState::on_connection_opened", len(adv), 1, cfg=fx.cfg)
    commit = [c.node for c in field_calls(fn, r"HashMap::insert$", "pending_connections")]
    rollback = [c.node for c in fn.calls(r"PeerState::on_dial_failure$")]
    for n, st in fn.assigns():
        if "".join(st["lhs"][1:]).endswith(".state") and st["rv"]["r"] in ("agg", "use"):
            sh = fn.shape(st["rv"]["o"]) if st["rv"]["r"] == "use" else {st["rv"].get("var", "")}
            if any(x.startswith("Disconnected") for x in sh):
                rollback.append(n)
    ctx.anchor("R05.6", "on_connection_opened: commit + rollback sites", min(len(commit), len(rollback)), 1, cfg=fx.cfg)
    for a in adv[:1]:
        tests = fn.bool_tests(a.dest[0])
        starts = [m for sw, t, f in tests for m, l in fn.succs(sw) if l == t]
        exits = [x for x, _ in fn.exits()]
        p = fn.witness_path(starts, exits, avoid=commit + rollback) if starts else [a.node]
        # exits that stem from the documented state-mismatch arm (previous state was not Opening) are not reachable once the
        # transition reported success; they return before touching a transport - tolerate only exits that precede any transport call
        if p is not None:
            tr = [c.node for c in fn.calls(r"Transport>?::(negotiate|cancel)$")]
            p2 = fn.witness_path(tr, exits, avoid=commit + rollback, after=True) if tr else p
            ok = p2 is None
            wit = p2
        else:
            ok, wit = True, None
        ctx.ob("R05.6", "on_connection_opened/after-advance-commit-or-rollback", ok, site=fn.site(a.node), cfg=fx.cfg,
               detail="a path that leaves the peer Dialing with nothing tracking the dial: %s" % (fn.path_sites(wit) if wit else None))


PSM = "transport::manager::peer_state::PeerState::"


def r05_7(ctx, fx):
    """dial_address refuses an address that does not end right after its `/p2p/<peer>` component: every SupportedTransport the
    function settles on lies behind the None edge of an `Iter::next()` of the address (end of address).  The manager tracks the dial
    under the LAST `/p2p/` component (PeerId::try_from_multiaddr) while the transports verify the FIRST one, so `/p2p/A/p2p/B` would
    be tracked as a dial of B, answered by A, and end in a debug_assert!(false) (panic) or a peer stuck in Dialing."""
    fn = ctx.fn(fx, TM + "dial_address::{closure#0}", "R05.7")
    if fn is None:
        return
    aggs = fn.aggregates(r"manager::types::SupportedTransport$")
    ctx.anchor("R05.7", "dial_address: SupportedTransport aggregates (%s)" % fx.cfg, len(aggs), 1, cfg=fx.cfg)
    ends = []
    for sw in fn.discr_switches():
        if not sw[2].endswith("option::Option"):
            continue
        rs = guards.rootstrs(fn, {"c": list(sw[1])})
        if any(x.startswith("call:") and re.search(r"multiaddr::Iter(<.*>)?( as std::iter::Iterator)?>?::next$", x) for x in rs):
            for lab in fn.variant_edges(sw, "None"):
                ends.append((sw[0], lab))
    for n, s_ in aggs:
        ok = any(fn.only_via(n, swn, [lab]) for swn, lab in ends)
        ctx.ob("R05.7", "dial_address/%s-only-for-an-address-that-ends-after-/p2p" % s_["rv"].get("var"), ok, site=fn.site(n), cfg=fx.cfg,
               detail="end-of-address tests found: %d" % len(ends))


def r05_8(ctx, fx):
    """dial(peer) waits only for transports that are installed: the transport set stored in `PeerState::Opening` (argument of
    PeerState::dial_addresses) was filtered by membership in the installed transports, or the open loop has no path that skips a
    transport without opening it.  A peer put into `Opening{WebSocket}` on a node without the WebSocket transport waits for an event
    that no transport can produce: the accepted dial ends in silence and the peer can never be dialed again."""
    fn = ctx.fn(fx, TM + "dial::{closure#0}", "R05.8")
    if fn is None:
        return
    da = fn.calls(r"PeerState::dial_addresses$")
    ctx.anchor("R05.8", "dial: PeerState::dial_addresses", len(da), 1, cfg=fx.cfg)
    for c in da:
        filtered = False
        for r in fn.calls(r"HashMap(<.*>)?::retain$|HashSet(<.*>)?::retain$|Iterator>?::filter$"):
            if not any(r.dest and r.dest[0] in slice_locals(fn, c.args[-1]) for _ in [0]) and "mutcall:" + r.name not in guards.rootstrs(fn, c.args[-1]):
                continue
            clo = r.args[-1].get("m") or r.args[-1].get("c")
            for n_, k_, pl_ in (fn.defs().get(clo[0], []) if clo else []):
                if k_ == "assign" and pl_["rv"]["r"] == "agg" and pl_["rv"].get("closure") and fx.has(pl_["rv"]["closure"]):
                    body = fx.fn(pl_["rv"]["closure"])
                    if body.calls(r"(IndexMap|HashMap)(<.*>)?::(contains_key|get)$|TransportContext::(get|get_mut|contains)$"):
                        filtered = True
        # alternative idiom: every iteration of the open loop opens (no skip)
        opens = [x.node for x in fn.calls(r"Transport>?::open$|transport::Transport::open$")]
        noskip = False
        for lp in for_loops(fn):
            body = fn.reach([x for x, l in fn.succs(lp[1][0]) if l in lp[3]], avoid=[lp[0].node])
            if any(o in body for o in opens):
                w = fn.witness_path([x for x, l in fn.succs(lp[1][0]) if l in lp[3]], [lp[0].node], avoid=opens)
                noskip = w is None
        ctx.ob("R05.8", "dial/Opening-waits-only-for-installed-transports", filtered or noskip, site=fn.site(c.node), cfg=fx.cfg,
               detail="transport set filtered by the installed transports: %s; open loop without a skip path: %s" % (filtered, noskip))


def r05_9(ctx, fx, which=("Reject", "DialPeer", "DialAddress")):
    """no silence for dials the manager itself concludes.  Two places where the transports will never produce an event for an accepted
    dial: (a) the manager rejects an established connection that is the outcome of an own dial (limits / per-peer state), the
    transport drops it silently; (b) a DialPeer / DialAddress command (the handle already answered Ok to the protocol, which now waits
    for ConnectionEstablished or DialFailure) is refused by TransportManager::dial / dial_address.  On both paths a DialFailure must be
    produced (to the protocols and/or as TransportEvent)."""
    fn = ctx.fn(fx, TM + "next::{closure#0}", "R05.9")
    if fn is None:
        return
    reports = [n for n, _ in fn.aggregates(r"InnerTransportEvent$", "DialFailure")] + [n for n, _ in fn.aggregates(r"transport::TransportEvent$", "DialFailure")] \
        + [c.node for c in fn.calls(r"TransportManager::report_dial_failure\w*$")]
    start = fn.calls(r"TransportManager::on_connection_established$")
    ctx.anchor("R05.9", "next: on_connection_established", len(start), 1, cfg=fx.cfg)
    for s_ in (start if "Reject" in which else []):
        cuts = refine_cuts(fn, s_, ["Ok", "Reject"])
        r = fn.reach([s_.node], cut=cuts, after=True, stop=[s_.node]) if cuts else set()
        rej = [c.node for c in fn.calls(r"transport::Transport::reject$") if c.node in r]
        lis = set()   # inbound connections need no report: exclude the `endpoint.is_listener() == true` edges
        for c in fn.calls(r"Endpoint::is_listener$"):
            for sw_, t, f in fn.bool_tests(c.dest[0]):
                lis.add((sw_, t))
        # existence, not all-paths: a repair may legitimately be conditional (no report when another dial / connection still concludes
        # the attempt); what is decided is that the Reject path of a dialer endpoint has a report site at all
        rr = fn.reach(rej, cut=lis, after=True, stop=region_ends_of(fn, s_.node)) if rej else set()
        ok = bool(rej) and any(x in rr for x in reports)
        ctx.ob("R05.9", "next/established:Reject-of-an-own-dial-is-reported", ok, site=fn.site(rej[0]) if rej else fn.site(s_.node), cfg=fx.cfg,
               detail="report sites after Transport::reject on the Reject path: %s" % [fn.site(x) for x in reports if rej and x in fn.reach(rej, after=True, stop=[s_.node])])
    for meth, what in (("dial", "DialPeer"), ("dial_address", "DialAddress")):
        if what not in which:
            continue
        cs = [c for c in fn.calls(r"TransportManager::%s$" % meth)]
        ctx.anchor("R05.9", "next: %s command" % what, len(cs), 1, cfg=fx.cfg)
        for c in cs:
            # `self.dial(peer).await`: the Result is produced by the poll of the returned future; the handling of the command extends
            # from the call to the next select! dispatch
            r = fn.reach([c.node], after=True, stop=region_ends_of(fn, c.node))
            ok = any(x in r for x in reports)
            ctx.ob("R05.9", "next/%s:refused-command-is-reported-as-DialFailure" % what, ok, site=fn.site(c.node), cfg=fx.cfg,
                   detail="the handle already returned Ok to the protocol; DialFailure report sites on the Err path: %s" % [fn.site(x) for x in reports if x in r])


def r05_10(ctx, fx):
    """the failure report names all dialed addresses: a dial by peer id can be spread over several transports; when the last of them
    fails the manager sends ONE DialFailure to the protocols.  Its address list is built from the errors of all transports - the ones
    parked in `opening_errors` merged with the last transport's - not from the last transport's errors alone."""
    fn = ctx.fn(fx, TM + "next::{closure#0}", "R05.10")
    if fn is None:
        return
    of = fn.calls(r"TransportManager::on_open_failure$")
    ctx.anchor("R05.10", "next: on_open_failure", len(of), 1, cfg=fx.cfg)
    for c in of:
        region = fn.reach([c.node], after=True, stop=region_ends_of(fn, c.node))
        merged = [m.node for m in fn.calls(r"HashMap(<.*>)?::remove$") if ".opening_errors" in fn.recv(m) and m.node in region]
        reports = [(n, s_) for n, s_ in fn.aggregates(r"InnerTransportEvent$", "DialFailure") if n in region]
        ctx.anchor("R05.10", "next/OpenFailure: DialFailure built for the protocols", len(reports), 1, cfg=fx.cfg)
        for i, (n, s_) in enumerate(reports):
            rv = s_["rv"]
            o = rv["ops"][rv["fields"].index("addresses")] if "addresses" in rv.get("fields", []) else None
            rs = guards.rootstrs(fn, o) if o is not None else set()
            ok = bool(merged) and n not in fn.reach([c.node], after=True, avoid=merged, stop=region_ends_of(fn, c.node)) and any(x.endswith("HashMap::remove") for x in rs)
            ctx.ob("R05.10", "next/OpenFailure:DialFailure#%d-names-the-addresses-of-all-transports" % i, ok, site=fn.site(n), cfg=fx.cfg,
                   detail="opening_errors.remove before the report: %s; address roots %s" % (bool(merged), sorted(x for x in rs if "remove" in x or "extend" in x or "errors" in x)[:6]))


def r05_5(ctx, fx):
    """PeerState transition tables (the per-variant answers of the small pure methods, read off the discriminant switches):
    can_dial answers Ok exactly for Disconnected{dial_record: None}; dial_* enter a dialing state only over can_dial() == Ok;
    on_dial_failure returns true only after it cleared the dial record behind the connection-id equality"""
    fn = ctx.fn(fx, PSM + "can_dial", "R05.5")
    if fn is not None:
        sws = [sw for sw in fn.discr_switches() if sw[2] and sw[2].endswith("peer_state::PeerState")]
        ctx.anchor("R05.5", "can_dial: match on self", len(sws), 1, cfg=fx.cfg)
        for sw in sws[:1]:
            table = {}
            for v in list(sw[3].keys()) + list(sw[5]):
                r = fn.reach([n for n, l in fn.succs(sw[0]) if l in fn.variant_edges(sw, v)])
                got = set()
                for n, sh in fn.ret_sites():
                    if n in r:
                        got |= sh
                table[v] = got
            want = {"Connected": {"AlreadyConnected"}, "Dialing": {"DialingInProgress"}, "Opening": {"DialingInProgress"}, "Disconnected": {"Ok", "DialingInProgress"}}
            ctx.ob("R05.5", "can_dial/answer-per-state", table == want, site=fn.site(sw[0]), cfg=fx.cfg, detail="table read from the CFG: %s" % {k: sorted(v) for k, v in table.items()})
            osw = [s2 for s2 in fn.discr_switches() if s2[2] and s2[2].endswith("option::Option") and "dial_record" in "".join(map(str, s2[1]))]
            oks = [n for n, sh in fn.ret_sites() if sh == {"Ok"}]
            ok = bool(osw) and bool(oks) and all(fn.only_via(n, osw[0][0], fn.variant_edges(osw[0], "None")) for n in oks) and all(fn.only_via(n, sw[0], fn.variant_edges(sw, "Disconnected")) for n in oks)
            ctx.ob("R05.5", "can_dial/Ok-only-for-Disconnected{dial_record:None}", ok, site=fn.site(sw[0]), cfg=fx.cfg)
    for meth, var in (("dial_single_address", "Dialing"), ("dial_addresses", "Opening")):
        fn = ctx.fn(fx, PSM + meth, "R05.5")
        if fn is None:
            continue
        cd = fn.calls(r"PeerState::can_dial$")
        sws = [sw for sw in fn.discr_switches() if cd and sw[1][0] in fn.copies_of(cd[0].dest[0])]
        wr = [n for n, st in fn.assigns() if st["lhs"][:2] == [1, "*"] and len(st["lhs"]) == 2]
        ctx.anchor("R05.5", "%s: can_dial + write of *self" % meth, min(len(cd), len(sws), len(wr)), 1, cfg=fx.cfg)
        if cd and sws and wr:
            ok = all(fn.only_via(n, sws[0][0], fn.variant_edges(sws[0], "Ok")) for n in wr)
            shapes = set()
            for n in wr:
                st = fn.stmt(n)
                shapes |= fn.shape(st["rv"]["o"]) if st["rv"]["r"] == "use" else {st["rv"].get("var", "?")}
            ctx.ob("R05.5", "%s/enters-%s-only-if-can_dial==Ok" % (meth, var), ok and all(x.startswith(var) for x in shapes), site=fn.site(cd[0].node), cfg=fx.cfg, detail="state written: %s" % sorted(shapes))
            oks = [n for n, sh in fn.ret_sites() if sh == {"Ok"}]
            # .. or can_dial's answer is handed on (`let result = self.can_dial(); if let Ok = result { *self = .. } result`): that exit
            # yields Ok exactly on the paths over the Ok edge, and on those the state is written first
            passed = [n for n, sh in fn.ret_sites() if any(x.startswith("call:") and x.endswith("PeerState::can_dial") for x in sh)]
            ok_starts = [n for n, l in fn.succs(sws[0][0]) if l in fn.variant_edges(sws[0], "Ok")]
            ok2 = all(n not in fn.reach([fn.entry], avoid=wr) for n in oks) and all(n not in fn.reach(ok_starts, avoid=wr) for n in passed)
            ctx.ob("R05.5", "%s/Ok-implies-state-written" % meth, bool(oks or passed) and ok2, site=fn.site(fn.entry), cfg=fx.cfg)
    fn = ctx.fn(fx, PSM + "on_dial_failure", "R05.5")
    if fn is not None:
        wr = [n for n, st in fn.assigns() if st["lhs"][:2] == [1, "*"] and len(st["lhs"]) == 2]
        trues = [n for n, sh in fn.ret_sites() if sh == {"const:1"}]
        ctx.anchor("R05.5", "on_dial_failure: writes of *self / `true` exits", min(len(wr), len(trues)), 3, cfg=fx.cfg)
        ok = bool(trues) and all(n not in fn.reach([fn.entry], avoid=wr) for n in trues)
        ctx.ob("R05.5", "on_dial_failure/true-implies-dial-record-cleared", ok, site=fn.site(fn.entry), cfg=fx.cfg)
        eqs = [c for c in fn.calls(r"::eq$") if any(x.endswith(".connection_id") for a in c.args for x in [fn.origin(a)])]
        tests = [t for c in eqs for t in fn.bool_tests(c.dest[0])]
        ok = bool(tests) and all(any(fn.only_via(n, sw, [t]) for sw, t, f in tests) for n in wr)
        ctx.ob("R05.5", "on_dial_failure/clears-only-the-matching-dial", ok, site=fn.site(fn.entry), cfg=fx.cfg,
               detail="every write of *self lies behind `dial_record.connection_id == connection_id`")
        shapes = set()
        for n in wr:
            st = fn.stmt(n)
            shapes |= fn.shape(st["rv"]["o"]) if st["rv"]["r"] == "use" else {st["rv"].get("var", "?")}
        ctx.ob("R05.5", "on_dial_failure/result-state-has-no-dial-record", all(re.match(r"Disconnected\.None$|Disconnected$|Connected", x) for x in shapes) and bool(shapes), site=fn.site(fn.entry), cfg=fx.cfg, detail=str(sorted(shapes)))


def r05_11(ctx, fx):
    """"never silence": every report the manager sends is actually sent.  `Sender::send(..)` only builds a future; the event goes out
    when that future is awaited.  In the bodies of the transport manager every future built by a channel send is used (awaited,
    stored or handed on) - a `let _ = tx.send(event);` that lost its `.await` drops the DialFailure / ConnectionEstablished /
    ConnectionClosed for exactly the protocol whose queue was full."""
    from common import dropped_futures, FUTURE_CTORS
    n = 0
    bad = []
    for key in sorted(fx.find(r"^transport::manager::(TransportManager|handle::TransportManagerHandle|handle::TransportHandle)::\w+::\{closure#0\}(::\{closure#\d+\})*$")):
        fn = fx.fn(key)
        if not fn.is_coroutine:
            continue
        cs = fn.calls(FUTURE_CTORS)
        if not cs:
            continue
        n += len(cs)
        ctx.bodies.add((fx.cfg, key))
        for c in dropped_futures(fn):
            bad.append((short(key), fn.site(c.node)))
    ctx.anchor("R05.11", "channel send futures built in the manager's async bodies", n, 2, cfg=fx.cfg)
    ctx.ob("R05.11", "manager/every-send-future-is-awaited", not bad, cfg=fx.cfg, site=bad[0][1] if bad else "",
           detail="send futures that are created and dropped without being polled: %s" % bad)


def run(ctx):
    ctx.assume("R05.3: a peer with a tracked dial has an entry in TransportManager.peers (created by dial/dial_address)")
    for cfg in ctx.configs():
        fx = ctx.facts(cfg)
        r05_1(ctx, fx)
        r05_7(ctx, fx)
        r05_8(ctx, fx)
        if cfg == "default":
            r05_2(ctx, fx)
            r05_3(ctx, fx)
            r05_4(ctx, fx)
            r05_6(ctx, fx)
            r05_9(ctx, fx)
            r05_10(ctx, fx)
            r05_11(ctx, fx)
            r05_5(ctx, fx)
