"""C18 - Peer ids are canonical (invariant, constants, totality).

R18.1 (K3+K2) PeerId{..} is constructed only in from_public_key_protobuf / from_multihash / random; the field is private;
      from_public_key_protobuf: identity wrap exactly on `len <= MAX_INLINE_KEY_LENGTH`, SHA2-256 digest otherwise, both over the
      key bytes; from_multihash: Ok only for code == SHA2-256 or (code == identity and digest.len() <= MAX_INLINE_KEY_LENGTH),
      carrying the input multihash; random: identity over a [u8; N] with N <= MAX_INLINE_KEY_LENGTH
R18.2 (K5) constants agree with the libp2p-identity version multiaddr resolves to (registry source) and with multihash-codetable's
      SHA2-256 code; the reference's from_multihash accepts the same (code, length) classes (discharges the `expect` in
      From<PeerId> for multiaddr::PeerId); MAX_INLINE_KEY_LENGTH <= 64 (discharges the wrap(..).expect(..) sites)
R18.4 (K5) from_bytes uses the same whole-input multihash parser as the reference and validates through from_multihash
R18.3 (K6) the parsers (from_bytes, from_str, try_from_multiaddr, TryFrom impls, serde visitors) contain no panic site
Not decided: acceptance equality with the reference on all byte strings; round trips (value reasoning inside multihash/bs58).
"""
import re
from common import short, slice_locals
import guards
import panics
import refsrc

EXPLANATION = ("Who-may / guard / constant-agreement rules: PeerId literals exist in three constructors only and each is guarded so that "
               "the stored multihash is identity (<= 42 bytes) or SHA2-256; litep2p's constants are compared with the constants of the "
               "libp2p-identity release pinned in Cargo.lock; the parsing entry points are inventoried for panic-capable constructs.")

P = "peer_id::PeerId::"
CTORS = {P + "from_public_key_protobuf", P + "from_multihash", P + "random"}


def is_const(fx, fn, o, name):
    return ("const", name) in fn.roots(o) and len(fn.roots(o)) == 1


def r18_1(ctx, fx):
    cons = set(fx.constructors_of("peer_id::PeerId::PeerId"))
    ctx.ob("R18.1", "PeerId-literals-only-in-the-three-constructors", cons == CTORS, cfg=fx.cfg, detail="constructors: %s" % sorted(cons))
    adt = fx.adts.get("peer_id::PeerId")
    vis = [f.get("vis") for v in (adt or {}).get("variants", []) for f in v.get("fields", [])]
    ctx.ob("R18.1", "PeerId.multihash-is-private", bool(vis) and all(re.search(r"::peer_id\)\)$", str(v)) for v in vis), cfg=fx.cfg, detail=str(vis))
    mx = fx.const("peer_id::MAX_INLINE_KEY_LENGTH")

    # --- from_public_key_protobuf
    fn = ctx.fn(fx, P + "from_public_key_protobuf", "R18.1")
    if fn is not None:
        wraps = fn.calls(r"Multihash(<.*>)?::wrap$")
        digs = fn.calls(r"MultihashDigest(<.*>)?>?::digest$")
        ctx.anchor("R18.1", "from_public_key_protobuf: wrap + digest", min(len(wraps), len(digs)), 1, cfg=fx.cfg)
        is_q = lambda f, o: any(l.dest[0] in slice_locals(f, o, strict=True) for l in f.calls(r"slice::(<impl \[T\]>::)?len$") if re.match(r"^&?_1\*?$", f.recv(l)))
        is_b = lambda f, o: is_const(fx, f, o, "peer_id::MAX_INLINE_KEY_LENGTH")
        for w in wraps:
            ok, why = guards.guarded(fn, w.node, is_q, is_b, "<=")
            ctx.ob("R18.1", "from_public_key_protobuf/identity-only-if-len<=MAX_INLINE_KEY_LENGTH", ok, site=fn.site(w.node), cfg=fx.cfg, detail=why)
            ctx.ob("R18.1", "from_public_key_protobuf/identity-wrap(IDENTITY_CODE,key_enc)", is_const(fx, fn, w.args[0], "peer_id::MULTIHASH_IDENTITY_CODE") and re.match(r"^&?_1\*?$", fn.origin(w.args[1])) is not None,
                   site=fn.site(w.node), cfg=fx.cfg, detail="code roots %s, data origin %s" % (sorted(guards.rootstrs(fn, w.args[0])), fn.origin(w.args[1])))
        for d in digs:
            ok, why = guards.guarded(fn, d.node, is_q, is_b, ">")
            ctx.ob("R18.1", "from_public_key_protobuf/sha256-only-if-len>MAX_INLINE_KEY_LENGTH", ok, site=fn.site(d.node), cfg=fx.cfg, detail=why)
            codeagg = [s for n, s in fn.assigns() if s["lhs"][0] in slice_locals(fn, {"c": [int(re.match(r"^&?_(\d+)", fn.origin(d.args[0])).group(1))]}) and s["rv"]["r"] == "agg"]
            ok = bool(codeagg) and all(s["rv"].get("var") == "Sha2_256" for s in codeagg) and re.match(r"^&?_1\*?$", fn.origin(d.args[1])) is not None
            ctx.ob("R18.1", "from_public_key_protobuf/digest-is-Sha2_256(key_enc)", ok, site=fn.site(d.node), cfg=fx.cfg,
                   detail="hasher aggregates %s, data origin %s" % ([s["rv"].get("var") for s in codeagg], fn.origin(d.args[1])))
        for node, s in fn.aggregates(r"^peer_id::PeerId$"):
            calls_ = {r[1] for r in fn.roots(s["rv"]["ops"][0]) if r[0] == "call"}
            ok = all(re.search(r"Multihash(<.*>)?::wrap$|MultihashDigest(<.*>)?>?::digest$|Result(<.*>)?::expect$|slice::(<impl \[T\]>::)?len$", c) for c in calls_) and len(calls_) >= 3
            ctx.ob("R18.1", "from_public_key_protobuf/PeerId-holds-wrap-or-digest-result", ok, site=fn.site(node), cfg=fx.cfg, detail="call roots: %s" % sorted(calls_))

    # --- from_multihash
    fn = ctx.fn(fx, P + "from_multihash", "R18.1")
    if fn is not None:
        code = fn.calls(r"Multihash(<.*>)?::code$")
        ctx.anchor("R18.1", "from_multihash: Multihash::code", len(code), 1, cfg=fx.cfg)
        oks = fn.aggregates(r"^peer_id::PeerId$")
        ctx.anchor("R18.1", "from_multihash: PeerId aggregates", len(oks), 1, cfg=fx.cfg)
        if code:
            cl = code[0].dest[0]
            # (a) equality with u64::from(Code::Sha2_256)
            def is_code(f, o):
                return cl in slice_locals(f, o) or any(r == ("call", code[0].name) for r in f.roots(o))

            def is_sha(f, o):
                rs = f.roots(o)
                return any(r[0] == "call" and re.search(r"multihash_codetable::(<impl .*>::)?from$", r[1]) for r in rs) and ("const", "multihash_codetable::Code::Sha2_256") in rs
            sha_edges = {(sw, lab) for sw, lab, rel, cn in guards.edge_facts(fn, is_code, is_sha) if rel == "=="}
            # (b) SwitchInt on the code local with the identity constant, and digest().len() <= MAX_INLINE
            idv = fx.const("peer_id::MULTIHASH_IDENTITY_CODE")
            id_edges = set()
            for n in fn.all_nodes():
                if fn.is_term(n) and fn.term(n[0])["k"] == "switch":
                    t = fn.term(n[0])
                    p = t["o"].get("c") or t["o"].get("m")
                    if p == [cl]:
                        for v, tb in t["targets"]:
                            if v == idv:
                                id_edges.add((n, ("sw", v)))
            # .. or the same test spelled `code == MULTIHASH_IDENTITY_CODE`
            is_idc = lambda f, o: is_const(fx, f, o, "peer_id::MULTIHASH_IDENTITY_CODE") or (isinstance(idv, int) and f.const_value(o) == idv and "k" in o)
            id_edges |= {(sw, lab) for sw, lab, rel, cn in guards.edge_facts(fn, is_code, is_idc) if rel == "=="}
            is_dlen = lambda f, o: any(l.dest[0] in slice_locals(f, o, strict=True) for l in f.calls(r"slice::(<impl \[T\]>::)?len$")
                                       if (f.producer(l.args[0]) is not None and f.producer(l.args[0]).matches(r"Multihash(<.*>)?::digest$")))
            is_b = lambda f, o: is_const(fx, f, o, "peer_id::MAX_INLINE_KEY_LENGTH")
            len_edges = {(sw, lab) for sw, lab, rel, cn in guards.edge_facts(fn, is_dlen, is_b) if rel in guards.IMPLIES["<="]}
            rels = sorted({rel for sw, lab, rel, cn in guards.edge_facts(fn, is_dlen, is_b)})
            ctx.ob("R18.1", "from_multihash/identity-threshold-is-exactly-len<=MAX_INLINE_KEY_LENGTH", rels == ["<=", ">"], site=fn.site(fn.entry), cfg=fx.cfg,
                   detail="facts on the edges of the digest-length comparison: %s (accepting `<=`, rejecting `>`: the same boundary as from_public_key_protobuf "
                          "and the reference, so every id the constructor produces parses back)" % rels)
            ctx.anchor("R18.1", "from_multihash: code==Sha2_256 edge / identity switch edge / len<=MAX edge", min(len(sha_edges), len(id_edges), len(len_edges)), 1, cfg=fx.cfg)
            n_sha = n_id = 0
            sha_t = fn.reach([n for sw, lab in sha_edges for n, l in fn.succs(sw) if l == lab])
            len_t = fn.reach([n for sw, lab in len_edges for n, l in fn.succs(sw) if l == lab])
            for i, (node, s) in enumerate(oks):
                # every path to the Ok passes the sha edge, or passes both the identity edge and the length edge (one Ok site may serve
                # both classes: `if is_sha || is_inline { Ok(..) }`)
                via_sha = node not in fn.reach([fn.entry], cut=sha_edges)
                via_id = node not in fn.reach([fn.entry], cut=id_edges) and node not in fn.reach([fn.entry], cut=len_edges)
                either = node not in fn.reach([fn.entry], cut=sha_edges | id_edges) and node not in fn.reach([fn.entry], cut=sha_edges | len_edges)
                n_sha += node in sha_t
                n_id += node in len_t
                ctx.ob("R18.1", "from_multihash/Ok#%d-only-for-sha256-or-short-identity" % (i + 1), via_sha or via_id or either, site=fn.site(node), cfg=fx.cfg,
                       detail="behind code==SHA2-256: %s; behind code==identity and digest.len()<=MAX_INLINE_KEY_LENGTH: %s; behind one of the two on every path: %s" % (via_sha, via_id, either))
                rs = guards.rootstrs(fn, s["rv"]["ops"][0])
                ctx.ob("R18.1", "from_multihash/Ok#%d-carries-the-input-multihash" % (i + 1), rs <= {"param:_1", "call:std::convert::Into::into", "call:<T as std::convert::Into<U>>::into"} and "param:_1" in rs,
                       site=fn.site(node), cfg=fx.cfg, detail="roots: %s" % sorted(rs))
            ctx.ob("R18.1", "from_multihash/both-accepted-classes-present", n_sha >= 1 and n_id >= 1, site=fn.site(fn.entry), cfg=fx.cfg,
                   detail="Ok sites behind sha256: %d, behind identity: %d (SHA2-256 ids and inline identities must both parse)" % (n_sha, n_id))
            # tightness: the Err exit is not reachable over the sha edge / over identity+short
            errs = [n for n, sh in fn.exits(r"^Err") if any(x.startswith("Err") for x in sh)]
            for e in errs:
                r = fn.reach([n for sw, lab in sha_edges for n, l in fn.succs(sw) if l == lab])
                ctx.ob("R18.1", "from_multihash/sha256-never-rejected", e not in r, site=fn.site(e), cfg=fx.cfg)
                r = fn.reach([n for sw, lab in len_edges for n, l in fn.succs(sw) if l == lab])
                ctx.ob("R18.1", "from_multihash/short-identity-never-rejected", e not in r, site=fn.site(e), cfg=fx.cfg)

    # --- random
    fn = ctx.fn(fx, P + "random", "R18.1")
    if fn is not None:
        for w in fn.calls(r"Multihash(<.*>)?::wrap$"):
            m = re.match(r"^&?_(\d+)", fn.origin(w.args[1]))
            ty = fn.locals[int(m.group(1))] if m else ""
            mm = re.search(r"\[u8; (\d+)\]", ty)
            ok = is_const(fx, fn, w.args[0], "peer_id::MULTIHASH_IDENTITY_CODE") and mm is not None and isinstance(mx, int) and int(mm.group(1)) <= mx
            ctx.ob("R18.1", "random/identity-over-array-not-longer-than-MAX_INLINE_KEY_LENGTH", ok, site=fn.site(w.node), cfg=fx.cfg, detail="digest type %s, max %s" % (ty, mx))


def r18_2(ctx, fx):
    mx = fx.const("peer_id::MAX_INLINE_KEY_LENGTH")
    idc = fx.const("peer_id::MULTIHASH_IDENTITY_CODE")
    ref, ver, path = refsrc.consts("libp2p-identity", "src/peer_id.rs")
    ctx.ob("R18.2", "reference-source-found(libp2p-identity)", bool(ref), cfg=fx.cfg, detail="version %s, %s" % (ver, path), nontrivial=False)
    ctx.note("libp2p_identity_version", ver)
    if ref:
        ctx.ob("R18.2", "MAX_INLINE_KEY_LENGTH==reference", mx == ref.get("MAX_INLINE_KEY_LENGTH"), cfg=fx.cfg, detail="litep2p %s, libp2p-identity %s: %s" % (mx, ver, ref.get("MAX_INLINE_KEY_LENGTH")))
        ctx.ob("R18.2", "MULTIHASH_IDENTITY_CODE==reference", idc == ref.get("MULTIHASH_IDENTITY_CODE"), cfg=fx.cfg, detail="litep2p %s, reference %s" % (idc, ref.get("MULTIHASH_IDENTITY_CODE")))
        src, _ = refsrc.source("multihash-codetable", "src/lib.rs")
        m = re.search(r"#\[mh\(code\s*=\s*(0x[0-9a-fA-F]+|\d+)\s*,\s*hasher\s*=\s*crate::Sha2_256\)\]\s*Sha2_256", src or "")
        sha = int(m.group(1), 0) if m else None
        ctx.ob("R18.2", "Code::Sha2_256==reference-MULTIHASH_SHA256_CODE", sha is not None and sha == ref.get("MULTIHASH_SHA256_CODE"), cfg=fx.cfg,
               detail="multihash-codetable Sha2_256 code %s, reference %s" % (sha, ref.get("MULTIHASH_SHA256_CODE")))
        rsrc, _ = refsrc.source("libp2p-identity", "src/peer_id.rs")
        body = re.search(r"pub fn from_multihash\(.*?\n    \}", rsrc or "", re.S)
        b = body.group(0) if body else ""
        ok = bool(re.search(r"MULTIHASH_SHA256_CODE\s*=>\s*Ok\(", b)) and bool(re.search(r"MULTIHASH_IDENTITY_CODE\s+if\s+multihash\.digest\(\)\.len\(\)\s*<=\s*MAX_INLINE_KEY_LENGTH", b)) and bool(re.search(r"_\s*=>\s*Err\(", b))
        ctx.ob("R18.2", "reference-from_multihash-accepts-the-same-classes", ok, cfg=fx.cfg,
               detail="the pinned libp2p-identity accepts {code==SHA2-256} and {identity, len<=MAX_INLINE_KEY_LENGTH}: with R18.1 every litep2p PeerId converts, so the `expect` in From<PeerId> for multiaddr::PeerId cannot fire")
    ctx.ob("R18.2", "MAX_INLINE_KEY_LENGTH<=64(Multihash<64>)", isinstance(mx, int) and mx <= 64, cfg=fx.cfg, detail="identity digests of at most %s bytes fit Multihash<64>: wrap(..).expect(..) cannot fire" % mx)
    # the infallible conversion goes through the fallible one and nothing else
    fn = ctx.fn(fx, "peer_id::<impl std::convert::From<peer_id::PeerId> for multiaddr::PeerId>::from", "R18.2")
    if fn is not None:
        ps = panics.panic_sites(fn)
        ok = len(ps) == 1 and ps[0]["kind"] == "unwrap" and fn.producer(ps[0]["call"].args[0]) is not None and fn.producer(ps[0]["call"].args[0]).matches(r"PeerId::to_multiaddr_peer_id$")
        ctx.ob("R18.2", "From<PeerId>-for-multiaddr::PeerId/only-panic-site-is-the-discharged-expect", ok, site=fn.site(fn.entry), cfg=fx.cfg, detail=str([(p["kind"], p["desc"]) for p in ps]))


def r18_5(ctx, fx):
    """every peer id that is derived from key bytes a remote peer supplies is the hash of the *canonical* encoding of that key, as in
    the reference: outside peer_id.rs, the argument of PeerId::from_public_key_protobuf is rooted in a (re-)encoding call
    (`Message::encode*` of the decoded key, or `to_protobuf_encoding` of a key object) - never the received bytes alone (protobuf
    decoding accepts reordered fields, unknown fields and non-minimal varints)."""
    n = 0
    for key in sorted(fx.callers_of("peer_id::PeerId::from_public_key_protobuf")):
        if key.startswith("peer_id::") or "::tests::" in key:
            continue
        fn = fx.fn(key)
        for i, c in enumerate(fn.calls(r"PeerId::from_public_key_protobuf$")):
            n += 1
            ctx.bodies.add((fx.cfg, key))
            rs = guards.rootstrs(fn, c.args[0])
            ok = any(re.search(r"Message>?::(encode_to_vec|encode|encode_length_delimited_to_vec)$|to_protobuf_encoding$", x) for x in rs)
            ctx.ob("R18.5", "%s/peer-id#%d-from-the-canonical-key-encoding" % (short(key), i), ok, site=fn.site(c.node), cfg=fx.cfg,
                   detail="roots of the hashed bytes: %s" % sorted(rs)[:8])
    ctx.anchor("R18.5", "callers of from_public_key_protobuf outside peer_id.rs (%s)" % fx.cfg, n, 1, cfg=fx.cfg)


def r18_6(ctx, fx):
    """(feature `rsa`, `all` configuration) the peer id of an RSA key is the hash of the protobuf that embeds the DER
    SubjectPublicKeyInfo *verbatim*, and R18.5's re-encoding only canonicalises the protobuf envelope.  So the DER decoder itself must
    accept exactly one byte string per key: `rsa::PublicKey::try_decode_x509` yields a key only if the parser left no remainder
    (`rest.is_empty()`) and the input equals the canonical re-encoding of the parsed key.  Otherwise one key (one signature) is
    authenticated under as many peer ids as it has DER spellings (trailing bytes, other AlgorithmIdentifier, unused-bits octet)."""
    key = "crypto::rsa::PublicKey::try_decode_x509"
    if not fx.has(key):
        ctx.anchor("R18.6", "rsa::PublicKey::try_decode_x509 (%s)" % fx.cfg, 0, 1, cfg=fx.cfg)
        return
    fn = fx.fn(key)
    ctx.bodies.add((fx.cfg, key))
    parse = fn.calls(r"FromDer(<.*>)?>?::from_der$")
    ctx.anchor("R18.6", "try_decode_x509: SubjectPublicKeyInfo::from_der", len(parse), 1, cfg=fx.cfg)
    # success sources: Ok aggregates, or the Result of a combinator chain over the parse result returned as is
    srcs = [n for n, s in fn.aggregates(r"result::Result$", "Ok")]
    for c in fn.calls(r"result::Result(<.*>)?::(map|and_then|map_err|or_else)$"):
        if c.dest and c.dest[0] == 0 or (c.dest and 0 in fn.copies_of(c.dest[0])):
            srcs.append(c.node)
    for rn in fn.return_nodes():
        pass
    if not srcs:
        # returned through a chain whose last link is not recognised: take the parse call itself as the source (fail closed)
        srcs = [c.node for c in parse]
    from_parse = lambda o: any(x.startswith("call:") and "from_der" in x for x in guards.rootstrs(fn, o))
    empty_true = set()
    for c in fn.calls(r"slice::(<impl \[T\]>::)?is_empty$|Vec(<.*>)?::is_empty$"):
        if from_parse(c.args[0]):
            for sw, t, f in fn.bool_tests(c.dest[0]):
                empty_true.add((sw, t))
    same = set()
    for c in fn.calls(r"PartialEq(<.*>)?>?::(eq|ne)$|partial_eq::.*::(eq|ne)$"):
        if len(c.args) != 2:
            continue
        rs = [guards.rootstrs(fn, a) for a in c.args]
        inp = [any(x.startswith("param:_1") for x in r) for r in rs]
        enc = []
        for a in c.args:
            pr = [d for d in fn.calls(r".") if d.dest and ("call:" + d.name) in guards.rootstrs(fn, a) and not re.search(r"from_der$", d.name) and any(from_parse(x) for x in d.args)]
            enc.append(bool(pr))
        if (inp[0] and enc[1]) or (inp[1] and enc[0]):
            for sw, t, f in fn.bool_tests(c.dest[0]):
                same.add((sw, t if c.name.endswith("eq") else f))
    for i, n in enumerate(sorted(srcs)):
        ctx.ob("R18.6", "try_decode_x509/key#%d-only-if-the-parser-left-no-remainder" % i, bool(empty_true) and n not in fn.reach([fn.entry], cut=empty_true), site=fn.site(n), cfg=fx.cfg,
               detail="is_empty tests on the remainder of from_der: %d (trailing bytes change the peer id, not the key)" % len(empty_true))
        ctx.ob("R18.6", "try_decode_x509/key#%d-only-if-the-input-is-the-canonical-encoding" % i, bool(same) and n not in fn.reach([fn.entry], cut=same), site=fn.site(n), cfg=fx.cfg,
               detail="comparisons input == re-encoding of the parsed key: %d (the AlgorithmIdentifier and the unused-bits octet are otherwise free)" % len(same))


def r18_7(ctx, fx):
    """"converting any accepted peer id to its serialized form and back yields the same peer id", and the form is the reference's:
    writer and reader use the same serde data-model types on each side of `is_human_readable()` - a string (`serialize_str` of the
    base58 text / `deserialize_str`) and a *byte string* (`serialize_bytes` of `to_bytes()` / `deserialize_bytes`).  A
    `Vec<u8>::serialize` on the binary side writes a sequence of integers, which the byte-string visitor of the reader (and of every
    other libp2p implementation) rejects in self-describing formats (CBOR, MessagePack)."""
    ser = ctx.fn(fx, "<peer_id::PeerId as serde::Serialize>::serialize", "R18.7")
    de = ctx.fn(fx, "<peer_id::PeerId as serde::Deserialize<'de>>::deserialize", "R18.7")
    if ser is None or de is None:
        return
    def sides(fn, rx):
        """{True: methods called on the human-readable edge, False: on the other}"""
        out = {True: set(), False: set()}
        hr = fn.calls(r"(Serializer|Deserializer)(<.*>)?>?::is_human_readable$")
        calls = [c for c in fn.calls(rx) if not c.from_macro]
        for h in hr:
            for sw, t, f in fn.bool_tests(h.dest[0]):
                rt = fn.reach([n for n, l in fn.succs(sw) if l == t])
                rf = fn.reach([n for n, l in fn.succs(sw) if l == f])
                for c in calls:
                    m = c.name.rsplit("::", 1)[-1]
                    if c.node in rt and c.node not in rf:
                        out[True].add(m)
                    elif c.node in rf and c.node not in rt:
                        out[False].add(m)
                    else:
                        out[True].add(m + "?")
                        out[False].add(m + "?")
        return out, bool(hr)
    w, okw = sides(ser, r"Serializer(<.*>)?>?::serialize_\w+$|Serialize(<.*>)?>?::serialize$")
    r, okr = sides(de, r"Deserializer(<.*>)?>?::deserialize_\w+$")
    ctx.anchor("R18.7", "is_human_readable tests in Serialize / Deserialize", int(okw) + int(okr), 2, cfg=fx.cfg)
    ctx.ob("R18.7", "serialize/text-side-is-serialize_str,binary-side-is-serialize_bytes", w[True] == {"serialize_str"} and w[False] == {"serialize_bytes"}, site=ser.site(ser.entry), cfg=fx.cfg,
           detail="writer: human readable %s, binary %s" % (sorted(w[True]), sorted(w[False])))
    ctx.ob("R18.7", "deserialize/reader-asks-for-the-types-the-writer-emits", r[True] == {"deserialize_str"} and r[False] == {"deserialize_bytes"}, site=de.site(de.entry), cfg=fx.cfg,
           detail="reader: human readable %s, binary %s" % (sorted(r[True]), sorted(r[False])))
    # what is written: the base58 text and the multihash bytes
    for c in ser.calls(r"Serializer(<.*>)?>?::serialize_(str|bytes)$"):
        rs = guards.rootstrs(ser, c.args[1]) if len(c.args) > 1 else set()
        want = "to_base58" if c.name.endswith("_str") else "to_bytes"
        ctx.ob("R18.7", "serialize/%s-writes-%s()" % (c.name.rsplit("::", 1)[-1], want), any(x.endswith("PeerId::" + want) for x in rs), site=ser.site(c.node), cfg=fx.cfg, detail=str(sorted(rs))[:200])
    # agreement with the reference source
    rsrc, ver = refsrc.source("libp2p-identity", "src/peer_id.rs")
    m = re.search(r"impl Serialize for PeerId.*?\n}\n", rsrc or "", re.S)
    ref = sorted(set(re.findall(r"serializer\.(serialize_\w+)\(", m.group(0)))) if m else []
    mine = sorted(x for x in (w[True] | w[False]))
    ctx.ob("R18.7", "serialize/same-data-model-calls-as-the-reference", bool(ref) and mine == ref, site=ser.site(ser.entry), cfg=fx.cfg,
           detail="litep2p %s, libp2p-identity %s %s" % (mine, ver, ref))


def r18_4(ctx, fx):
    """sibling agreement with the reference on the byte parser: from_bytes decodes with the parser that must consume the whole
    input (Multihash::from_bytes), exactly like libp2p-identity, and hands that multihash to from_multihash"""
    fn = ctx.fn(fx, P + "from_bytes", "R18.4")
    if fn is None:
        return
    # the calls that make a Multihash (parsers / constructors); accessors such as code() / digest() - used for logging - are not parsers
    mh = [c for c in fn.calls(r"multihash::Multihash(<.*>)?::\w+$") if not c.from_macro and c.dest and "Multihash" in fn.locals[c.dest[0]]]
    names = sorted({c.name.rsplit("::", 1)[-1] for c in mh})
    rsrc, ver = refsrc.source("libp2p-identity", "src/peer_id.rs")
    m = re.search(r"pub fn from_bytes\(data: &\[u8\]\).*?\n    \}", rsrc or "", re.S)
    ref_parsers = sorted(set(re.findall(r"Multihash::(\w+)\(", m.group(0)))) if m else []
    ctx.ob("R18.4", "from_bytes/same-multihash-parser-as-the-reference", bool(ref_parsers) and names == ref_parsers, site=fn.site(fn.entry), cfg=fx.cfg,
           detail="litep2p uses Multihash::%s, libp2p-identity %s uses Multihash::%s (from_bytes rejects trailing bytes, read does not)" % (names, ver, ref_parsers))
    fm = fn.calls(r"PeerId::from_multihash$")
    ok = bool(fm) and bool(mh) and any(("call", mh[0].name) in fn.roots(a) for a in fm[0].args)
    ctx.ob("R18.4", "from_bytes/parsed-multihash-is-validated-by-from_multihash", ok, site=fn.site(fn.entry), cfg=fx.cfg)
    fs = ctx.fn(fx, "<peer_id::PeerId as std::str::FromStr>::from_str", "R18.4")
    if fs is not None:
        fb = fs.calls(r"PeerId::from_bytes$")
        ok = bool(fb) and bool(fs.calls(r"bs58::decode"))
        ctx.ob("R18.4", "from_str/base58-then-from_bytes", ok, site=fs.site(fs.entry), cfg=fx.cfg)
        # the decoder's output reaches from_bytes whole: same finishing call as the reference (`into_vec`, unbounded), no fixed-size
        # buffer that silently narrows the accepted set
        fin = sorted({c.name.rsplit("::", 1)[-1] for c in fs.calls(r"bs58::decode::DecodeBuilder(<.*>)?::\w+$")})
        m = re.search(r"fn from_str\(s: &str\).*?\n    \}", rsrc or "", re.S)
        ref_fin = sorted(set(re.findall(r"bs58::decode\(s\)\s*\.(\w+)\(", m.group(0)))) if m else []
        rooted = bool(fb) and any(any(x.startswith("call:") and "DecodeBuilder" in x for x in guards.rootstrs(fs, a)) for a in fb[0].args)
        ctx.ob("R18.4", "from_str/same-base58-finisher-as-the-reference", bool(ref_fin) and fin == ref_fin and rooted, site=fs.site(fs.entry), cfg=fx.cfg,
               detail="litep2p finishes the decode with %s, libp2p-identity %s with %s; from_bytes argument rooted in the decoder output: %s" % (fin, ver, ref_fin, rooted))


PARSERS = [
    P + "from_bytes", P + "from_bytes::{closure#0}", P + "from_bytes::{closure#1}", P + "from_multihash", P + "try_from_multiaddr",
    P + "try_from_multiaddr::{closure#0}", "<peer_id::PeerId as std::str::FromStr>::from_str",
    "<peer_id::PeerId as std::convert::TryFrom<std::vec::Vec<u8>>>::try_from", "<peer_id::PeerId as std::convert::TryFrom<std::vec::Vec<u8>>>::try_from::{closure#0}",
    "<peer_id::PeerId as std::convert::TryFrom<multihash::Multihash<64>>>::try_from",
    "<<peer_id::PeerId as serde::Deserialize<'de>>::deserialize::PeerIdVisitor as serde::de::Visitor<'_>>::visit_bytes",
    "<<peer_id::PeerId as serde::Deserialize<'de>>::deserialize::PeerIdVisitor as serde::de::Visitor<'_>>::visit_str",
    "<peer_id::PeerId as serde::Deserialize<'de>>::deserialize", P + "to_multiaddr_peer_id", P + "to_bytes", P + "to_base58",
]
# panic sites allowed in the constructors, each with the rule that discharges it
DISCHARGED = {
    P + "from_public_key_protobuf": ("unwrap", "R18.1 identity-only-if-len<=MAX and R18.2 MAX<=64"),
    P + "random": ("unwrap", "R18.1 random array length and R18.2 MAX<=64"),
}


def r18_3(ctx, fx):
    from common import nested_closures
    n = 0
    top = [k for k in PARSERS if "::{closure" not in k]
    for key in top:
        fn = ctx.fn(fx, key, "R18.3", required=key in PARSERS[:8])
        if fn is None:
            continue
        # the parser and every closure written inside it (whatever their number: `map_err(|e| ..)` closures come and go with the
        # spelling of the error handling); helpers that did not exist in the baseline are seen through (engine/inline.py)
        for body in [fn] + nested_closures(fx, fn):
            n += 1
            ctx.bodies.add((fx.cfg, body.key))
            ps = panics.panic_sites(body)
            k = body.key
            nm = short(key) if body is fn else "%s%s" % (short(key), k[k.index("::{closure"):] if "::{closure" in k else "::" + short(k))
            ctx.ob("R18.3", "%s/no-panic-site" % nm, not ps, site=body.site(body.entry), cfg=fx.cfg,
                   detail="panic-capable constructs: %s" % [(p["kind"], p["desc"], body.site(p["node"])) for p in ps])
    ctx.anchor("R18.3", "parser bodies", n, len([k for k in top if k in PARSERS[:8]]), cfg=fx.cfg)
    for key, (kind, why) in DISCHARGED.items():
        fn = fx.fn(key)
        if fn is None:
            continue
        ps = panics.panic_sites(fn)
        ok = len(ps) == 1 and ps[0]["kind"] == kind and fn.producer(ps[0]["call"].args[0]) is not None and fn.producer(ps[0]["call"].args[0]).matches(r"Multihash(<.*>)?::wrap$")
        ctx.ob("R18.3", "%s/only-panic-site-is-expect-on-wrap" % short(key), ok, site=fn.site(fn.entry), cfg=fx.cfg,
               detail="%s; discharged by %s" % ([(p["kind"], p["desc"]) for p in ps], why))


def run(ctx):
    fx = ctx.facts("default")
    r18_1(ctx, fx)
    r18_2(ctx, fx)
    r18_3(ctx, fx)
    r18_4(ctx, fx)
    r18_5(ctx, fx)
    r18_7(ctx, fx)
    if ctx.tier == "thorough":
        r18_5(ctx, ctx.facts("all"))   # the TLS / QUIC path exists only with the quic feature
        r18_6(ctx, ctx.facts("all"))   # RSA identities exist only with the rsa feature
        import witness
        res, tail = witness.run()
        for w in ("PeerIdFieldIsPrivate", "PeerIdFieldNotAssignable"):
            r = res.get(w, {})
            ctx.ob("R18.1", "K8:%s" % w, r.get("compile_fail") is True and r.get("twin") is True, cfg=fx.cfg,
                   detail="compile-fail witness rejected with the expected error code: %s; compiling twin builds: %s%s" % (r.get("compile_fail"), r.get("twin"), "" if r else " ; harness output: " + tail[-400:]))
    ctx.assume("multihash::Multihash::from_bytes/wrap, bs58::decode, multiaddr::PeerId::try_from are total (return Err instead of panicking)")
    ctx.assume("the registry source of the crate versions pinned in /repo/Cargo.lock is what the build uses")
