"""C09 - Idle connections close after the keep-alive timeout, busy ones are kept (non-timing clauses).

R09.1 keep-alive flag per protocol registered in Litep2p::new (ping, identify: No; all others: Yes)
R09.2 connection activity / upgrade and the substream lifetime permit exist exactly for keep-alive protocols
R09.3 the opening permit travels from the open request to the protocol
R09.4 only ConnectionHandle::{downgrade, close} turn a strong sender into a weak one
R09.5 (K11) the keep-alive tracker / TransportService never return Pending without a waker
Not decided: "after the timeout and not before" (time).
"""
import re
from paths import refine_cuts, region_uncovered
from common import closure_returns, closure_operand, short, field_calls
import guards
from common import slice_locals
import k11

EXPLANATION = ("Table, guard and provenance rules: the SubstreamKeepAlive constant at each register_protocol call site of Litep2p::new is "
               "compared with the property's table; activity tracking, connection upgrade and the lifetime permit are reachable exactly over "
               "the `== SubstreamKeepAlive::Yes` edge; weak-sender creation is confined to two methods; K11 shows that every "
               "Pending return of the tracker has a registered waker.")

TABLE = {  # config field the protocol comes from -> expected flag
    "notification_protocols": "Yes",
    "request_response_protocols": "Yes",
    "user_protocols": "Yes",
    "ping": "No",
    "kademlia": "Yes",
    "identify": "No",
    "bitswap": "Yes",
}
TS = "protocol::transport_service::TransportService::"


def r09_1(ctx, fx):
    fn = ctx.fn(fx, "Litep2p::new", "R09.1")
    if fn is None:
        return
    calls = fn.calls(r"TransportManager::register_protocol$")
    ctx.anchor("R09.1", "register_protocol call sites in Litep2p::new", len(calls), 7, cfg=fx.cfg)
    seen = {}
    for c in calls:
        flag = "|".join(sorted(fn.shape(c.args[5]))) if len(c.args) > 5 else "?"
        # which configuration entry does the protocol come from: roots of the codec / name arguments
        rs = set()
        for a in c.args[1:4]:
            rs |= guards.rootstrs(fn, a)
        src = sorted({k for k in TABLE if any(re.search(r"\.%s\b" % k, x) for x in rs)})
        name = "+".join(src) or "?"
        seen[name] = flag
        want = TABLE.get(src[0]) if len(src) == 1 else None
        ctx.ob("R09.1", "Litep2p::new/register_protocol(%s):keep-alive=%s" % (name, want), want is not None and flag == want, site=fn.site(c.node), cfg=fx.cfg,
               detail="flag passed: %s; protocol source fields: %s" % (flag, src))
    ctx.ob("R09.1", "Litep2p::new/all-protocol-kinds-registered", set(seen) >= set(TABLE), cfg=fx.cfg, detail="kinds seen: %s" % sorted(seen))


def keepalive_eq_edges(fn):
    """[(switch, label on Yes, label otherwise)] of the tests whether a keep-alive flag is SubstreamKeepAlive::Yes (`== Yes`, `matches!`,
    `match`)"""
    from common import enum_tests
    return enum_tests(fn, r"SubstreamKeepAlive", "Yes")


def r09_2(ctx, fx):
    fn = ctx.fn(fx, TS + "open_substream", "R09.2")
    if fn is not None:
        tests = keepalive_eq_edges(fn)
        ctx.anchor("R09.2", "open_substream: test == SubstreamKeepAlive::Yes", len(tests), 1, cfg=fx.cfg)
        acts = fn.calls(r"KeepAliveTracker::substream_activity$") + fn.calls(r"ConnectionHandle::try_upgrade$")
        ctx.anchor("R09.2", "open_substream: substream_activity + try_upgrade", len(acts), 2, cfg=fx.cfg)
        for a in acts:
            ok = any(fn.only_via(a.node, sw, [t]) for sw, t, f in tests)
            ctx.ob("R09.2", "open_substream/%s-only-if-keep-alive" % a.name.rsplit("::", 1)[-1], ok, site=fn.site(a.node), cfg=fx.cfg,
                   detail="ping/identify traffic must not prolong the connection")
        opens = fn.calls(r"ConnectionHandle::open_substream$")
        for sw, t, f in tests:
            for o in opens:
                for a in acts:
                    # on the Yes edge the activity is recorded before the request is sent
                    starts = [n for n, l in fn.succs(sw) if l == t]
                    p = fn.witness_path(starts, [o.node], avoid=[a.node])
                    ctx.ob("R09.2", "open_substream/keep-alive=>%s-before-request" % a.name.rsplit("::", 1)[-1], p is None, site=fn.site(o.node), cfg=fx.cfg,
                           detail="a keep-alive protocol opening a substream must refresh activity and upgrade the connection")
        for o in opens:
            rs = guards.rootstrs(fn, o.args[5]) if len(o.args) > 5 else set()
            ctx.ob("R09.2", "open_substream/request-carries-protocol-keep-alive-flag", any(x.endswith(".substream_keep_alive") for x in rs) and not any(x.startswith("const") for x in rs),
                   site=fn.site(o.node), cfg=fx.cfg, detail=str(sorted(rs)))
    fn = ctx.fn(fx, "<protocol::transport_service::TransportService as futures::Stream>::poll_next", "R09.2")
    if fn is not None:
        tests = keepalive_eq_edges(fn)
        ctx.anchor("R09.2", "poll_next: test == SubstreamKeepAlive::Yes", len(tests), 1, cfg=fx.cfg)
        acts = fn.calls(r"KeepAliveTracker::substream_activity$") + fn.calls(r"ConnectionContext::try_upgrade$")
        ctx.anchor("R09.2", "poll_next: substream_activity + try_upgrade", len(acts), 2, cfg=fx.cfg)
        for a in acts:
            ok = any(fn.only_via(a.node, sw, [t]) for sw, t, f in tests)
            ctx.ob("R09.2", "poll_next/%s-only-if-keep-alive" % a.name.rsplit("::", 1)[-1], ok, site=fn.site(a.node), cfg=fx.cfg)
        # SubstreamOpened of a keep-alive protocol refreshes activity before it is handed to the protocol
        ev = [n for n, s in fn.aggregates(r"^protocol::TransportEvent$|protocol::TransportEvent$", "SubstreamOpened")]
        ctx.anchor("R09.2", "poll_next: TransportEvent::SubstreamOpened", len(ev), 1, cfg=fx.cfg)
        # (the refresh is for substreams of this protocol: `protocol == self.protocol` is the other conjunct of the guard, in either order)
        own = set()
        for e in fn.calls(r"::(eq|ne)$"):
            if e.dest and (any("ProtocolName" in str(x) for x in e.f.get("args", [])) or any("ProtocolName" in fn.locals[(x.get("m") or x.get("c") or [0])[0]] for x in e.args if (x.get("m") or x.get("c")))):
                neq = e.name.endswith("::ne")
                own |= {(sw2, (t2 if neq else f2)) for sw2, t2, f2 in fn.bool_tests(e.dest[0])}
        for sw, t, f in tests:
            starts = [n for n, l in fn.succs(sw) if l == t]
            for a in fn.calls(r"KeepAliveTracker::substream_activity$"):
                p = fn.witness_path(starts, ev, avoid=[a.node], cut=own)
                ctx.ob("R09.2", "poll_next/keep-alive-substream=>activity-refreshed", p is None, site=fn.site(a.node), cfg=fx.cfg)
    # SubstreamKeepAlive::then compares with Yes
    fn = fx.fn("protocol::transport_service::SubstreamKeepAlive::then")
    if fn is not None:
        ctx.bodies.add((fx.cfg, fn.key))
        ok = False
        for c in fn.calls(r"::eq$"):
            for a in c.args:
                rs = fn.roots(a)
                if rs and all(r[0] == "const" and r[1].endswith("SubstreamKeepAlive::Yes") for r in rs):
                    ok = True
        thens = fn.calls(r"bool::then$")
        if not ok and len(thens) == 1:
            # `matches!(self, Yes).then(f)`: the bool is the constant true only on the Yes edge of a test of self
            tests = keepalive_eq_edges(fn)
            p = thens[0].args[0].get("m") or thens[0].args[0].get("c")
            for l in (fn.copies_of(p[0]) | {p[0]}) if p else ():
                ds = fn.defs().get(l, [])
                trues = [n for n, k, pl in ds if k == "assign" and pl["rv"]["r"] == "use" and "k" in pl["rv"]["o"] and fn.const_value(pl["rv"]["o"]) == 1]
                allc = ds and all(k == "assign" and pl["rv"]["r"] == "use" and "k" in pl["rv"]["o"] for n, k, pl in ds)
                if allc and trues and tests and all(any(fn.only_via(n, sw, [t]) for sw, t, f in tests) for n in trues):
                    ok = True
        okm = False
        if not thens:
            # the same function written as a match / if: `Some(f())` exactly on the Yes edge of a test of self, `None` otherwise
            tests = keepalive_eq_edges(fn)
            somes = [n for n, sh in fn.ret_sites() if all(x.startswith("Some") for x in sh)]
            nones = [n for n, sh in fn.ret_sites() if all(x == "None" for x in sh)]
            mixed = [n for n, sh in fn.ret_sites() if n not in somes and n not in nones]
            yes = {(sw, t) for sw, t, f in tests}
            no = {(sw, f) for sw, t, f in tests}
            okm = bool(tests) and bool(somes) and bool(nones) and not mixed and all(n not in fn.reach([fn.entry], cut=yes) for n in somes) \
                and all(n not in fn.reach([fn.entry], cut=no) for n in nones)
        ctx.ob("R09.2", "SubstreamKeepAlive::then/is-(self==Yes).then(f)", (ok and len(thens) == 1) or okm, site=fn.site(fn.entry), cfg=fx.cfg)
    else:
        ctx.anchor("R09.2", "SubstreamKeepAlive::then", 0, 1, cfg=fx.cfg)
    # transports: lifetime permit of a substream = keep_alive.then(|| opening_permit.clone())
    n = 0
    for key in sorted(fx.find(r"^transport::(tcp|websocket|quic)::connection::\w+::(handle_negotiated_substream|start|run_event_loop)::\{closure#0\}$")):
        fn = fx.fn(key)
        news = fn.calls(r"transport::(tcp|websocket|quic)::substream::Substream::new$")
        for c in news:
            n += 1
            ctx.bodies.add((fx.cfg, key))
            permit_arg = c.args[-1]
            for a in c.args:
                pa = a.get("c") or a.get("m")
                if pa is not None and "Permit" in fn.locals[pa[0]]:
                    permit_arg = a
            pr = fn.producer(permit_arg)
            ok = pr is not None and pr.matches(r"SubstreamKeepAlive::then$") and ".keep_alive" in fn.recv(pr)
            if not ok:
                # spelled out: `match keep_alive { Yes => Some(permit.clone()), No => None }`
                tests = [t for t in keepalive_eq_edges(fn)]
                pl_ = permit_arg.get("m") or permit_arg.get("c")
                somes, nones = [], []
                for l in slice_locals(fn, permit_arg) if pl_ else ():
                    for n_, k_, p_ in fn.defs().get(l, []):
                        if k_ == "assign" and p_["rv"]["r"] == "agg" and p_["rv"].get("var") in ("Some", "None"):
                            (somes if p_["rv"]["var"] == "Some" else nones).append(n_)
                ok = bool(tests) and bool(somes) and bool(nones) and all(any(fn.only_via(n_, sw, [t]) for sw, t, f in tests) for n_ in somes)
            ctx.ob("R09.2", "%s/substream-lifetime-permit=keep_alive.then(..)" % short(key), ok, site=fn.site(c.node), cfg=fx.cfg,
                   detail="producer of the permit argument: %s recv %s" % (pr.name if pr else None, fn.recv(pr) if pr else None))
    ctx.anchor("R09.2", "transport Substream::new sites", n, 1 if fx.cfg == "default" else 3, cfg=fx.cfg)


def r09_3(ctx, fx):
    key = "transport::tcp::connection::TcpConnection::handle_negotiated_substream::{closure#0}"
    fn = ctx.fn(fx, key, "R09.3")
    if fn is not None:
        for c in fn.calls(r"ProtocolSet::report_substream_open$"):
            rs = guards.rootstrs(fn, c.args[5]) if len(c.args) > 5 else set()
            ctx.ob("R09.3", "tcp/report_substream_open:opening-permit-is-the-negotiated-one", any(".permit" in x for x in rs) and not any("Permit::new" in x for x in rs),
                   site=fn.site(c.node), cfg=fx.cfg, detail=str(sorted(rs))[:300])
    fn = ctx.fn(fx, "<protocol::transport_service::TransportService as futures::Stream>::poll_next", "R09.3")
    if fn is not None:
        drops = [c for c in fn.calls(r"mem::drop$") if any("Permit" in a for a in c.f.get("args", []))]
        ups = fn.calls(r"ConnectionContext::try_upgrade$")
        ctx.anchor("R09.3", "poll_next: drop(opening_permit)", len(drops), 1, cfg=fx.cfg)
        for d in drops:
            after = fn.reach([d.node], after=True, stop=[n for n, _ in fn.exits()])
            ctx.ob("R09.3", "poll_next/permit-dropped-only-after-upgrade", not any(u.node in after for u in ups), site=fn.site(d.node), cfg=fx.cfg,
                   detail="try_upgrade must not be reachable after the opening permit was dropped (within the same event)")


def r09_4(ctx, fx):
    callers = set(fx.callers_of("tokio::sync::mpsc::Sender::downgrade")) | set(fx.callers_of("tokio::sync::mpsc::bounded::Sender::downgrade"))
    allowed = {"protocol::connection::ConnectionHandle::downgrade", "protocol::connection::ConnectionHandle::close"}
    callers = {c for c in callers if not c.startswith("transport::webrtc")}
    ctx.ob("R09.4", "Sender::downgrade-only-in-ConnectionHandle", callers == allowed, cfg=fx.cfg, detail="callers: %s" % sorted(callers))
    fn = ctx.fn(fx, "protocol::protocol_set::ProtocolSet::new", "R09.4", required=False)
    # the connection loop ends when the last strong sender is gone: handle_protocol_command(None) -> report_connection_closed: see C07 R07.1
    fn = ctx.fn(fx, "protocol::transport_service::ConnectionContext::downgrade", "R09.4")
    if fn is not None:
        cl = fn.calls(r"ConnectionHandle::close$")
        ctx.ob("R09.4", "ConnectionContext::downgrade/closes-matching-handle", len(cl) >= 1, site=fn.site(fn.entry), cfg=fx.cfg, detail="%d close calls" % len(cl))
    fn = ctx.fn(fx, "<protocol::transport_service::TransportService as futures::Stream>::poll_next", "R09.4")
    if fn is not None:
        dg = fn.calls(r"ConnectionContext::downgrade$")
        kp = [c for c in fn.calls(r"poll_next_unpin$|Stream>?::poll_next$") if ".keep_alive_tracker" in fn.recv(c)]
        ctx.anchor("R09.4", "poll_next: keep_alive_tracker poll + downgrade", min(len(dg), len(kp)), 1, cfg=fx.cfg)
        if dg and kp:
            cuts = refine_cuts(fn, kp[0], ["Ready", "Some", "?"])
            # a yielded (peer, connection) of a known peer is downgraded before the next poll
            ctx.ob("R09.4", "poll_next/expired-connection-is-downgraded", dg[0].node in fn.reach([kp[0].node], cut=cuts, after=True), site=fn.site(dg[0].node), cfg=fx.cfg)


def r09_5(ctx, fx):
    for key in ("<protocol::transport_service::KeepAliveTracker as futures::Stream>::poll_next",
                "<protocol::transport_service::TransportService as futures::Stream>::poll_next"):
        fn = ctx.fn(fx, key, "R09.5")
        if fn is None:
            continue
        bad, np, nw, npend = k11.pending_without_waker(fn, nonempty_guard=True)
        ctx.ob("R09.5", "%s/pending-has-waker" % short(key), not bad, site=fn.site(fn.entry), cfg=fx.cfg,
               detail="inner polls %d, waker uses %d, Pending exits %d; Pending without waker: %s" % (np, nw, npend, [fn.path_sites(p) for n, p in bad]))


def r09_7(ctx, fx):
    """"keep-alive protocols keep the connection": a substream negotiated under a *fallback* name of a protocol carries that protocol's
    keep-alive flag.  ProtocolSet::new builds the per-name flag table; in every closure of it that yields a (name, SubstreamKeepAlive)
    pair the flag is read from a protocol context (`.keep_alive`) - never a constant (`map_or(No, ..)`, a literal) - and when the
    context is looked up in `protocols`, the key is not the name the pair is filed under unless that name is the context's own
    (fallback names are not keys of `protocols`: such a lookup misses and a default would silently apply)."""
    from common import nested_closures
    fn = ctx.fn(fx, "protocol::protocol_set::ProtocolSet::new", "R09.7")
    if fn is None:
        return
    n = 0
    for cl in nested_closures(fx, fn):
        if "SubstreamKeepAlive)" not in cl.ret or not cl.ret.startswith("("):
            continue
        n += 1
        ctx.bodies.add((fx.cfg, cl.key))
        tup = [s_ for nd, s_ in cl.assigns() if s_["rv"]["r"] == "agg" and s_["rv"]["adt"] == "(tuple)" and s_["lhs"] == [0] and len(s_["rv"]["ops"]) == 2]
        nm = cl.key[cl.key.index("::{closure"):]
        for s_ in tup:
            name_o, flag_o = s_["rv"]["ops"]
            sh = cl.shape(flag_o)
            rs = guards.rootstrs(cl, flag_o)
            from_ctx = any(r[0] == "param" and r[2].endswith(".keep_alive") for r in cl.roots(flag_o)) or any(x.endswith("HashMap::get") for x in rs)
            const = [x for x in sh if x in ("Yes", "No")] + [x for x in rs if x.startswith("const:") and "SubstreamKeepAlive" in x]
            ctx.ob("R09.7", "ProtocolSet::new%s/flag-is-a-protocol's-own-keep_alive" % nm, from_ctx and not const, site=cl.site(cl.entry), cfg=fx.cfg,
                   detail="shape %s, constant roots %s" % (sorted(sh), const))
            gets = [c for c in cl.calls(r"HashMap(<.*>)?::get$")]
            for g in gets:
                kr = {x for x in guards.rootstrs(cl, g.args[1]) if x.startswith("param:")}
                nr = {x for x in guards.rootstrs(cl, name_o) if x.startswith("param:")}
                ctx.ob("R09.7", "ProtocolSet::new%s/context-looked-up-under-the-main-name" % nm, bool(kr) and not (kr & nr), site=cl.site(g.node), cfg=fx.cfg,
                       detail="lookup key roots %s, filed-under name roots %s (the fallback name is not a key of `protocols`)" % (sorted(kr), sorted(nr)))
    ctx.anchor("R09.7", "ProtocolSet::new: closures yielding (name, SubstreamKeepAlive)", n, 2, cfg=fx.cfg)


def r09_6(ctx, fx):
    """ConnectionContext::{downgrade, try_upgrade} act on the handle whose connection id was compared: each ConnectionHandle::close /
    try_upgrade lies behind the equal edge of `<that same handle>.connection_id() == connection_id`.  Acting on the other handle upgrades
    an idle connection without a timer (never closed) and leaves the active one weak (closed early)."""
    n = 0
    for meth, act in (("downgrade", "close"), ("try_upgrade", "try_upgrade")):
        fn = ctx.fn(fx, "protocol::transport_service::ConnectionContext::" + meth, "R09.6")
        if fn is None:
            continue
        ctx.bodies.add((fx.cfg, fn.key))
        ids = {c.dest[0]: fn.recv(c) for c in fn.calls(r"ConnectionHandle::connection_id$") if not c.from_macro and c.dest}
        eqs = []
        for e in fn.calls(r"::eq$"):
            for a in e.args:
                m = re.match(r"&?_(\d+)$", fn.origin(a))
                if m and int(m.group(1)) in ids and e.dest:
                    eqs.append((e, ids[int(m.group(1))]))
        acts = [c for c in fn.calls(r"ConnectionHandle::%s$" % act) if not c.from_macro]
        # iterator form: `once(&mut primary).chain(secondary.iter_mut()).find(|h| h.connection_id() == id)` and one action on what was found
        finds = []
        for c in fn.calls(r"Iterator>?::find$"):
            cl = closure_operand(fx, fn, c.args[1]) if len(c.args) > 1 else None
            if cl is None:
                continue
            rets = closure_returns(cl)
            if not (rets and all(r is not None and r[0] == 1 and r[1].matches(r"::eq$") for r in rets)):
                continue
            e = rets[0][1]
            cid = cl.calls(r"ConnectionHandle::connection_id$")
            elem_ok = any(cid and ("call", cid[0].name) in cl.roots(a) and any(x.startswith("param:_2") for x in guards.rootstrs(cl, a)) for a in e.args)
            capt_ok = any(all(x.startswith("param:_1") for x in guards.rootstrs(cl, a)) and guards.rootstrs(cl, a) for a in e.args)
            if elem_ok and capt_ok:
                ctx.bodies.add((fx.cfg, cl.key))
                finds.append(c)
        if finds and len(acts) == 1 and any(("call", f_.name) in fn.roots(acts[0].args[0]) for f_ in finds):
            srcs = guards.rootstrs(fn, finds[0].args[0])
            both = any(re.search(r"\.primary\b", x) for x in srcs) and any(re.search(r"\.secondary\b", x) for x in srcs)
            n += 2
            ctx.ob("R09.6", "ConnectionContext::%s/%s#0-on-the-handle-whose-id-matched" % (meth, act), True, site=fn.site(acts[0].node), cfg=fx.cfg,
                   detail="the action is applied to the handle that `find(|h| h.connection_id() == id)` returned")
            ctx.ob("R09.6", "ConnectionContext::%s/both-handles-handled" % meth, both, site=fn.site(fn.entry), cfg=fx.cfg,
                   detail="the searched iterator covers: %s" % sorted(x for x in srcs if "primary" in x or "secondary" in x))
            continue
        for i, a in enumerate(acts):
            n += 1
            ok = False
            for e, who in eqs:
                core = lambda x: re.sub(r"^&+|\*+$", "", x)     # the same place, whatever the depth of (re)borrows in a match guard
                if core(who) != core(fn.recv(a)):
                    continue
                for sw, t, f in fn.bool_tests(e.dest[0]):
                    if fn.only_via(a.node, sw, [t]):
                        ok = True
            ctx.ob("R09.6", "ConnectionContext::%s/%s#%d-on-the-handle-whose-id-matched" % (meth, act, i), ok, site=fn.site(a.node), cfg=fx.cfg,
                   detail="receiver %s; id comparisons on %s" % (fn.recv(a), sorted({w for _, w in eqs})))
        ctx.ob("R09.6", "ConnectionContext::%s/both-handles-handled" % meth, len({fn.recv(a) for a in acts}) == 2, site=fn.site(fn.entry), cfg=fx.cfg,
               detail="receivers: %s" % sorted({fn.recv(a) for a in acts}))
    ctx.anchor("R09.6", "handle actions in ConnectionContext", n, 4, cfg=fx.cfg)


def run(ctx):
    for cfg in ctx.configs():
        fx = ctx.facts(cfg)
        if cfg == "default":
            r09_1(ctx, fx)
            r09_3(ctx, fx)
            r09_4(ctx, fx)
            r09_5(ctx, fx)
            r09_6(ctx, fx)
            r09_7(ctx, fx)
        r09_2(ctx, fx)
