"""C14 - Kademlia routing table (structural part: bound, local node, eviction safety, bucket selection plumbing).

R14.1 KBucket.nodes grows at exactly one site (Vec::push in KBucket::entry) behind `nodes.len() < 20`
R14.2 RoutingTable::entry answers LocalNode exactly on the None edge of BucketIndex::new(local_key.distance(key)) and indexes a
      bucket only on the Some edge, with that index; add_known_peer mutates nothing on the LocalNode / NoSlot arms
R14.3 eviction safety: a Vacant entry over an existing slot is produced only on the NotConnected / CannotConnect edges of the same
      element; Occupied only on the key-equality edge of the same element; KBucketEntry::insert writes only on the Vacant edge
R14.4 table geometry: NUM_BUCKETS == 256; BucketIndex::new is ilog2 of the distance, unmodified
R14.6 connection-state bookkeeping: a stored peer with an established connection is marked Connected on every path
R14.5 closest_iter plumbing: sort key is target.distance(peer.key); the filter keeps exactly peers whose address store is non-empty;
      RoutingTable::closest takes `limit` elements
Not decided: ordering/exactness of closest() over all targets (value reasoning).
"""
import re
from common import short, proj_roots, from_field, slice_locals, polarity, closure_returns, closure_arg, map_presence_edges, nested_closures, closure_operand, keeps_iff
import guards

EXPLANATION = ("Who-may, bounded-growth and guarded-by rules over the MIR CFG of KBucket / RoutingTable: the single growth site of a bucket "
               "is behind len < 20, entry variants are produced only over the matching discriminant / equality edges of the same indexed "
               "element, the local node never reaches a bucket, and the closure plumbing of closest_iter is as stated.")

KB = "protocol::libp2p::kademlia::bucket::"
RT = "protocol::libp2p::kademlia::routing_table::"
GROW_RX = r"Vec::(push|insert|extend|extend_from_slice|append|resize|resize_with)$"


def r14_1(ctx, fx):
    """capacity: `KBucket.nodes` grows at exactly one site - the `Vec::push` of VacantSlot::insert, on the `index == None` edge - and a
    slot with `index: None` (append) is handed out by KBucket::entry only behind `nodes.len() < 20`.  A lookup itself stores nothing
    (F44: entry() used to push a placeholder peer for every unknown key, which used up the bucket's capacity)."""
    growers = []
    for key in sorted(fx.find(r"^protocol::libp2p::kademlia::(bucket|routing_table)::")):
        fn = fx.fn(key)
        for c in fn.calls(GROW_RX):
            if re.search(r"\.nodes\b", fn.recv(c)):
                growers.append((key, c))
    # (VacantSlot::insert, or the function it was written out in: engine/normalise.py `absorbed_fns`)
    slot_keys = {fx.fn(k).key for k in fx.find(r"^protocol::libp2p::kademlia::bucket::VacantSlot(::<.*>)?::insert$") if fx.fn(k) is not None}
    ctx.ob("R14.1", "KBucket.nodes-grown-only-by-the-push-of-VacantSlot::insert",
           len(growers) == 1 and growers[0][0] in slot_keys and growers[0][1].matches(r"Vec::push$"), cfg=fx.cfg,
           detail="growth sites: %s" % [(short(k), c.name) for k, c in growers])
    adt = fx.adts.get(KB + "KBucket")
    if adt is not None:
        vis = [f.get("vis") for v in adt.get("variants", []) for f in v.get("fields", []) if f.get("name") == "nodes"]
        ctx.ob("R14.1", "KBucket.nodes-is-private", bool(vis) and all(re.search(r"::bucket\)\)$", str(v)) for v in vis), cfg=fx.cfg, detail=str(vis))
    else:
        ctx.anchor("R14.1", "adt KBucket", 0, 1, cfg=fx.cfg)
    vs = fx.adts.get(KB + "VacantSlot")
    if vs is not None:
        vis = [f.get("vis") for v in vs.get("variants", []) for f in v.get("fields", [])]
        ctx.ob("R14.1", "VacantSlot-fields-are-private", bool(vis) and all(re.search(r"::bucket\)\)$", str(v)) for v in vis), cfg=fx.cfg, detail=str(vis))
    # the push sits on the None edge of self.index
    for key, c in growers:
        gfn = fx.fn(key)
        sws = [sw for sw in gfn.discr_switches() if sw[2].endswith("option::Option") and gfn.origin({"c": list(sw[1])}).endswith(".index")]
        ok = bool(sws) and any(gfn.only_via(c.node, sw[0], gfn.variant_edges(sw, "None")) for sw in sws)
        ctx.ob("R14.1", "VacantSlot::insert/push-only-for-an-append-slot(index==None)", ok, site=gfn.site(c.node), cfg=fx.cfg)
    fn = ctx.fn(fx, KB + "KBucket::entry", "R14.1")
    if fn is None:
        return
    muts = [c for c in fn.calls(GROW_RX + r"|Vec::(remove|swap_remove|pop|clear|truncate|retain|drain)$") if re.search(r"\.nodes\b", fn.recv(c))]
    ctx.ob("R14.1", "KBucket::entry/a-lookup-does-not-modify-the-bucket", not muts, site=fn.site(muts[0].node) if muts else fn.site(fn.entry), cfg=fx.cfg,
           detail="mutating calls on nodes in entry(): %s" % [c.name for c in muts])
    slots = [(n, s_) for n, s_ in fn.aggregates(r"bucket::VacantSlot$")]
    ctx.anchor("R14.1", "KBucket::entry: VacantSlot aggregates", len(slots), 2, cfg=fx.cfg)

    def is_q(f, o):
        return any(l.dest[0] in slice_locals(f, o) for l in f.calls(r"Vec::len$") if re.search(r"\.nodes\b", f.recv(l)))

    def is_b(f, o):
        return f.const_value(o) == 20
    for n, s_ in slots:
        f_ = dict(zip(s_["rv"].get("fields", []), s_["rv"]["ops"]))
        sh = fn.shape(f_["index"]) if "index" in f_ else {"?"}
        if sh == {"None"}:
            ok, why = guards.guarded(fn, n, is_q, is_b, "<")
            ctx.ob("R14.1", "KBucket::entry/append-slot-only-behind-nodes.len<20", ok, site=fn.site(n), cfg=fx.cfg, detail=why)


def r14_2(ctx, fx):
    fn = ctx.fn(fx, RT + "RoutingTable::entry", "R14.2")
    if fn is not None:
        bi = fn.calls(r"BucketIndex::new$")
        ctx.anchor("R14.2", "RoutingTable::entry: BucketIndex::new", len(bi), 1, cfg=fx.cfg)
        local = [n for n, s in fn.aggregates(r"KBucketEntry$", "LocalNode")]
        ke = fn.calls(r"KBucket::entry$")
        idx = [c for c in fn.calls(r"Index(Mut)?(<.*>)?>?::index(_mut)?$") if re.search(r"\.buckets\b", fn.recv(c))]
        # (`self.buckets` passed on as a slice is indexed by a place projection, not by a call of Index::index)
        idx_ops = [c.args[1] for c in idx] + [{"c": [int(m_.group(1))]} for c in ke for m_ in [re.search(r"\.buckets\[_(\d+)\]", fn.recv(c))] if m_]
        ctx.anchor("R14.2", "RoutingTable::entry: LocalNode aggregate / KBucket::entry / buckets[..]", min(len(local), len(ke), len(idx_ops)), 1, cfg=fx.cfg)
        if bi and local and ke and idx_ops:
            b = bi[0]
            sws = [sw for sw in fn.discr_switches() if sw[1][0] in fn.copies_of(b.dest[0])]
            ctx.anchor("R14.2", "RoutingTable::entry: match on BucketIndex::new result", len(sws), 1, cfg=fx.cfg)
            for sw in sws[:1]:
                some = fn.variant_edges(sw, "Some")
                none = fn.variant_edges(sw, "None")
                ctx.ob("R14.2", "RoutingTable::entry/LocalNode-only-on-None", all(fn.only_via(n, sw[0], none) for n in local), site=fn.site(local[0]), cfg=fx.cfg)
                ctx.ob("R14.2", "RoutingTable::entry/bucket-access-only-on-Some", all(fn.only_via(c.node, sw[0], some) for c in ke + idx), site=fn.site(ke[0].node), cfg=fx.cfg)
                r = fn.reach([n for n, l in fn.succs(sw[0]) if l in none])
                ctx.ob("R14.2", "RoutingTable::entry/None-edge-touches-no-bucket", not any(c.node in r for c in ke + idx), site=fn.site(sw[0]), cfg=fx.cfg,
                       detail="the local node must never be placed in a bucket")
            rs = fn.roots(b.args[0])
            names = {r[1] for r in rs if r[0] == "call"}
            params = {(r[1], r[2]) for r in rs if r[0] == "param"}
            ok = any(n.endswith("Key::distance") for n in names) and any(p[0] == 1 and "local_key" in p[1] for p in params) and any(p[0] == 2 for p in params)
            ctx.ob("R14.2", "RoutingTable::entry/index-from-distance(local_key,key)", ok, site=fn.site(b.node), cfg=fx.cfg,
                   detail="roots: %s" % sorted(guards.rootstrs(fn, b.args[0])))
            ri = guards.rootstrs(fn, idx_ops[0])
            ok = any("BucketIndex::get" in x for x in ri) and any("BucketIndex::new" in x for x in ri) and not any(x.startswith("const:") and not x.startswith("const:fn") for x in ri)
            ctx.ob("R14.2", "RoutingTable::entry/bucket-index-is-BucketIndex::new-result", ok, site=fn.site(idx[0].node if idx else ke[0].node), cfg=fx.cfg, detail="roots: %s" % sorted(ri))
            rk = guards.rootstrs(fn, ke[0].args[1])
            ctx.ob("R14.2", "RoutingTable::entry/looked-up-key-is-the-argument", rk == {"param:_2"}, site=fn.site(ke[0].node), cfg=fx.cfg, detail="roots: %s" % sorted(rk))
    fn = ctx.fn(fx, RT + "RoutingTable::add_known_peer", "R14.2")
    if fn is not None:
        en = fn.calls(r"RoutingTable::entry$")
        ctx.anchor("R14.2", "add_known_peer: RoutingTable::entry", len(en), 1, cfg=fx.cfg)
        sws = [sw for sw in fn.discr_switches() if sw[2] and sw[2].endswith("KBucketEntry")]
        ctx.anchor("R14.2", "add_known_peer: match on KBucketEntry", len(sws), 1, cfg=fx.cfg)
        for sw in sws[:1]:
            for var in ("LocalNode", "NoSlot"):
                edges = fn.variant_edges(sw, var)
                r = fn.reach([n for n, l in fn.succs(sw[0]) if l in edges])
                muts = [fn.site(c.node) for c in fn.calls(r"KBucketEntry.*::insert$|KademliaPeer::push_addresses$|AddressStore::\w+$") if c.node in r and not c.from_macro]
                wr = [fn.site(n) for n, s in fn.assigns() if n in r and "*" in "".join(s["lhs"][1:])]
                ctx.ob("R14.2", "add_known_peer/%s-arm-mutates-nothing" % var, bool(edges) and not muts and not wr, site=fn.site(sw[0]), cfg=fx.cfg,
                       detail="mutations reachable on the %s edge: %s %s" % (var, muts, wr))
            # the Vacant arm inserts, the Occupied arm does not insert a new peer
            vac = fn.variant_edges(sw, "Vacant")
            r = fn.reach([n for n, l in fn.succs(sw[0]) if l in vac])
            ins = [c for c in fn.calls(r"KBucketEntry.*::insert$") if c.node in r]
            ctx.ob("R14.2", "add_known_peer/Vacant-arm-inserts", bool(ins), site=fn.site(sw[0]), cfg=fx.cfg)


def _index_local(fn, o):
    """index locals feeding an Index/IndexMut call that produced the reference held by operand o"""
    pr = fn.producer(o)
    if pr is None or not pr.matches(r"Index(Mut)?(<.*>)?>?::index(_mut)?$") or len(pr.args) < 2:
        return None, set()
    return pr, slice_locals(fn, pr.args[1])


ALLOWED_EVICT = ("NotConnected", "CannotConnect")


def _idx_closure(fn, locs):
    """locals carrying the same index value as any of `locs` (copies in both directions)"""
    out = set(locs)
    for l in list(locs):
        out |= fn.copies_of(l)
        out |= slice_locals(fn, {"c": [l]})
    return out


def element_tests(fx, fn):
    """Tests of one element of `self.nodes` in KBucket::entry, whatever the spelling:
         loop form      `for i in 0..len { if self.nodes[i].key == key .. / match self.nodes[i].connection .. }`
         iterator form  `self.nodes.iter().position(|n| n.key == key)` / `.position(|n| matches!(n.connection, ..))`
       -> [{"kind": "key" | "conn", "idx": locals holding the element's index, "edges": {(switch, label)} on which the test holds,
            "miss": {(switch, label)} on which no element passed (iterator form only)}]"""
    out = []
    # ---- loop form: key equality
    for c in fn.calls(r"PartialEq(<.*>)?>?::eq$"):
        if len(c.args) != 2 or not c.dest:
            continue
        a0 = fn.origin(c.args[0])
        m = re.match(r"&?_(\d+)", a0)
        lp, li = _index_local(fn, {"c": [int(m.group(1))]}) if m else (None, set())
        if lp is None or not a0.endswith(".key") or guards.rootstrs(fn, c.args[1]) != {"param:_2"}:
            continue
        out.append({"kind": "key", "idx": _idx_closure(fn, li), "edges": {(sw, t) for sw, t, f in fn.bool_tests(c.dest[0])}, "miss": set(), "site": c.node})
    # ---- loop form: connection state (discriminant switch, or `== NotConnected || == CannotConnect`)
    for sw in fn.discr_switches():
        if not (sw[2] and sw[2].endswith("ConnectionType") and "".join(map(str, sw[1][1:])).endswith(".connection")):
            continue
        swpr, swidx = _index_local(fn, {"c": [sw[1][0]]})
        if swpr is None:
            continue
        allowed = []
        for v in ALLOWED_EVICT:
            allowed += fn.variant_edges(sw, v)
        if [v for v in ("Connected", "CanConnect") if set(fn.variant_edges(sw, v)) & set(allowed)]:
            continue
        out.append({"kind": "conn", "idx": _idx_closure(fn, swidx), "edges": {(sw[0], l) for l in allowed}, "miss": set(), "site": sw[0], "conj": True})
    eq_edges = {}
    ne_edges = {}
    for c in fn.calls(r"::(eq|ne)$"):
        if len(c.args) != 2 or not c.dest:
            continue
        other = None
        forbidden = None
        for a, b_ in ((c.args[0], c.args[1]), (c.args[1], c.args[0])):
            rs = fn.roots(a)
            sh = {x.lstrip("&") for x in fn.shape(a)}
            if c.name.endswith("::eq") and ((rs and all(r[0] == "const" and re.search(r"ConnectionType::(NotConnected|CannotConnect)$", r[1]) for r in rs)) or (sh and sh <= set(ALLOWED_EVICT))):
                other = b_
            # `c != Connected && c != CanConnect`: the complement over the four-variant enum
            for v in ("Connected", "CanConnect"):
                if (rs and all(r[0] == "const" and re.search(r"ConnectionType::%s$" % v, r[1]) for r in rs)) or sh == {v}:
                    other, forbidden = b_, v
        if other is None:
            continue
        from common import ref_local
        cand = set(slice_locals(fn, other))
        rl_ = ref_local(fn, other)
        if rl_ is not None:
            cand |= slice_locals(fn, {"c": [rl_]})
        for l in cand:
            for n_, k_, p_ in fn.defs().get(l, []):
                if k_ == "assign" and p_["rv"]["r"] in ("use", "ref"):
                    q = (p_["rv"].get("o") or {}).get("c") or (p_["rv"].get("o") or {}).get("m") or p_["rv"].get("p")
                    if q and "".join(map(str, q[1:])).endswith(".connection"):
                        pr_, il_ = _index_local(fn, {"c": [q[0]]})
                        if pr_ is not None:
                            key_ = tuple(sorted(il_))
                            if forbidden is None:
                                eq_edges.setdefault(key_, set()).update((sw_, t_) for sw_, t_, f_2 in fn.bool_tests(c.dest[0]))
                            else:
                                is_ne = c.name.endswith("::ne")
                                ne_edges.setdefault(key_, {}).setdefault(forbidden, set()).update((sw_, (t_ if is_ne else f_2)) for sw_, t_, f_2 in fn.bool_tests(c.dest[0]))
    for il_, edges in eq_edges.items():
        # `a == X || b == Y`: the element passes on either true edge; a node is "behind the test" when it is unreachable with all of
        # them cut (conj=False)
        out.append({"kind": "conn", "idx": _idx_closure(fn, set(il_)), "edges": edges, "miss": set(), "site": None, "conj": False})
    for il_, per in ne_edges.items():
        if set(per) == {"Connected", "CanConnect"} and all(per.values()):
            out.append({"kind": "conn", "idx": _idx_closure(fn, set(il_)), "edges": set().union(*per.values()), "all_of": list(per.values()), "miss": set(), "site": None, "conj": False})
    # ---- iterator form
    for c in fn.calls(r"Iterator>?::position$"):
        if len(c.args) != 2 or len(c.dest) != 1:
            continue
        rs = fn.roots(c.args[0])
        if not any(r[0] == "param" and r[1] == 1 and ".nodes" in r[2] for r in rs) or not any(r[0] == "call" and re.search(r"slice::(<impl \[T\]>::)?iter$|Vec(<.*>)?::iter$", r[1]) for r in rs):
            continue
        if any(r[0] == "call" and re.search(r"Iterator>?::(skip|rev|chain|filter|step_by|skip_while)$", r[1]) for r in rs):
            continue        # the position would not be an index into nodes
        cl = closure_operand(fx, fn, c.args[1])
        if cl is None:
            continue
        kind = None
        rets = closure_returns(cl)
        if rets and all(r is not None and r[0] == 1 and r[1].matches(r"PartialEq(<.*>)?>?::eq$") for r in rets):
            e = rets[0][1]
            o0, o1 = cl.origin(e.args[0]), cl.origin(e.args[1])
            elem = [o for o in (o0, o1) if re.match(r"^&?_2\*?\.key$", o)]
            capt = [a for a, o in ((e.args[0], o0), (e.args[1], o1)) if o.startswith(("_1", "&_1"))]
            # the captured operand is the `key` parameter of entry()
            cap_ok = False
            d = fn.single_def((c.args[1].get("m") or c.args[1].get("c"))[0])
            if d is not None and d[1] == "assign" and d[2]["rv"]["r"] == "agg":
                cap_ok = all(guards.rootstrs(fn, o) == {"param:_2"} for o in d[2]["rv"].get("ops", [])) and bool(d[2]["rv"].get("ops"))
            if len(elem) == 1 and len(capt) == 1 and cap_ok:
                kind = "key"
        else:
            # true only for an element whose connection is NotConnected / CannotConnect
            trues = [n for n, sh in cl.ret_sites() if not sh <= {"const:0"}]
            sws = [sw for sw in cl.discr_switches() if sw[2] and sw[2].endswith("ConnectionType") and re.match(r"^&?_2\*?\.connection$", cl.origin({"c": list(sw[1])}))]
            if trues and sws:
                sw = sws[0]
                allowed = []
                for v in ALLOWED_EVICT:
                    allowed += cl.variant_edges(sw, v)
                shared = [v for v in ("Connected", "CanConnect") if set(cl.variant_edges(sw, v)) & set(allowed)]
                if not shared and all(cl.only_via(n, sw[0], allowed) for n in trues):
                    kind = "conn"
        if kind is None:
            continue
        cp = fn.copies_of(c.dest[0]) | {c.dest[0]}
        edges, miss, idx = set(), set(), set()
        for sw in fn.discr_switches():
            if sw[1] and sw[1][0] in cp and len(sw[1]) == 1:
                some, none = fn.variant_edges(sw, "Some"), fn.variant_edges(sw, "None")
                edges |= {(sw[0], l) for l in some if l not in none}
                miss |= {(sw[0], l) for l in none if l not in some}
        for n_, s_ in fn.assigns():
            if s_["rv"]["r"] == "use" and len(s_["lhs"]) == 1:
                q = s_["rv"]["o"].get("m") or s_["rv"]["o"].get("c")
                if q and q[0] in cp and "".join(map(str, q[1:])) == "@Some.0":
                    idx.add(s_["lhs"][0])
        for l in list(idx):
            idx |= {x for x in range(len(fn.locals)) if l in slice_locals(fn, {"c": [x]})}
        out.append({"kind": kind, "idx": idx, "edges": edges, "miss": miss, "site": c.node, "conj": False, "position": True})
    return out


def _behind(fn, node, t):
    """node is reachable only over an edge on which test t holds"""
    if not t["edges"]:
        return False
    if t.get("all_of"):
        return all(node not in fn.reach([fn.entry], cut=S) for S in t["all_of"])
    if t.get("conj"):
        sws = {sw for sw, l in t["edges"]}
        return len(sws) == 1 and fn.only_via(node, list(sws)[0], [l for sw, l in t["edges"]])
    return node not in fn.reach([fn.entry], cut=t["edges"])


def r14_3(ctx, fx):
    """eviction safety and lookup discipline of KBucket::entry, and what KBucketEntry::insert / VacantSlot::insert write"""
    fn = ctx.fn(fx, KB + "KBucket::entry", "R14.3")
    if fn is not None:
        for cl in nested_closures(fx, fn):
            ctx.bodies.add((fx.cfg, cl.key))
        vac = fn.aggregates(r"KBucketEntry$", "Vacant")
        occ = fn.aggregates(r"KBucketEntry$", "Occupied")
        slots = [(n, s_) for n, s_ in fn.aggregates(r"bucket::VacantSlot$")]
        ctx.anchor("R14.3", "KBucket::entry: Vacant aggregates", len(vac), 2, cfg=fx.cfg)
        ctx.anchor("R14.3", "KBucket::entry: Occupied aggregates", len(occ), 1, cfg=fx.cfg)
        tests = element_tests(fx, fn)
        ctx.anchor("R14.3", "KBucket::entry: switch on nodes[i].connection", len([t for t in tests if t["kind"] == "conn"]), 1, cfg=fx.cfg)
        n_evict = 0
        for node, s_ in slots:
            f_ = dict(zip(s_["rv"].get("fields", []), s_["rv"]["ops"]))
            sh = fn.shape(f_["index"]) if "index" in f_ else {"?"}
            if sh == {"None"}:
                continue    # append slot: R14.1
            n_evict += 1
            # a replace slot designates nodes[i]: the index stored is the index of the element whose `connection` was tested
            idxl = set()
            for l in (slice_locals(fn, f_["index"]) if "index" in f_ else ()):
                d = fn.single_def(l)
                if d and d[1] == "assign" and d[2]["rv"]["r"] == "agg" and d[2]["rv"].get("var") == "Some":
                    idxl |= slice_locals(fn, d[2]["rv"]["ops"][0])
            ok = any(t["kind"] == "conn" and (t["idx"] & idxl) and _behind(fn, node, t) for t in tests)
            why = "connection tests of an element: %d, of the element the slot designates: %d" % (len([t for t in tests if t["kind"] == "conn"]), len([t for t in tests if t["kind"] == "conn" and (t["idx"] & idxl)]))
            ctx.ob("R14.3", "KBucket::entry/replace-slot#%d-only-for-a-NotConnected|CannotConnect-entry" % n_evict, ok, site=fn.site(node), cfg=fx.cfg,
                   detail="a connected peer is never displaced: " + why)
        ctx.anchor("R14.3", "KBucket::entry: replace slots", n_evict, 1, cfg=fx.cfg)
        for node, s in occ:
            pr, idxl = _index_local(fn, s["rv"]["ops"][0])
            ok = any(t["kind"] == "key" and (t["idx"] & idxl) and _behind(fn, node, t) for t in tests)
            ctx.ob("R14.3", "KBucket::entry/Occupied-only-if-nodes[i].key==key", ok, site=fn.site(node), cfg=fx.cfg)
        # the key lookup runs to completion before any slot is handed out as Vacant / NoSlot is answered: otherwise a peer stored
        # behind a disconnected entry would be "found" as Vacant and duplicated
        keyt = [t for t in tests if t["kind"] == "key"]
        outs = [n for n, s2 in vac] + [n for n, s2 in fn.aggregates(r"KBucketEntry$", "NoSlot")]
        look = None
        for t in keyt:
            if t.get("position"):
                look = ("position", t)
                break
            for c in fn.calls(r"Iterator>?::next$|iter::range::(<impl .*>::)?next$"):
                sws = [sw for sw in fn.discr_switches() if sw[1][0] in fn.copies_of(c.dest[0]) and len(sw[1]) == 1]
                if not sws:
                    continue
                body = fn.reach([m for m, l in fn.succs(sws[0][0]) if l in fn.variant_edges(sws[0], "Some")], avoid=[c.node])
                if t["site"] in body:
                    look = ("loop", (c, sws[0]))
        ctx.anchor("R14.3", "KBucket::entry: key-lookup loop", 1 if look else 0, 1, cfg=fx.cfg)
        if look and look[0] == "loop":
            c, sw = look[1]
            done = fn.variant_edges(sw, "None")
            late = [fn.site(n) for n in outs if not fn.only_via(n, sw[0], done)]
            ctx.ob("R14.3", "KBucket::entry/lookup-completes-before-a-slot-is-handed-out", not late, site=fn.site(c.node), cfg=fx.cfg,
                   detail="Vacant / NoSlot reachable before every stored key was compared: %s" % late)
        elif look:
            t = look[1]
            late = [fn.site(n) for n in outs if not t["miss"] or n in fn.reach([fn.entry], cut=t["miss"])]
            ctx.ob("R14.3", "KBucket::entry/lookup-completes-before-a-slot-is-handed-out", not late, site=fn.site(t["site"]), cfg=fx.cfg,
                   detail="Vacant / NoSlot reachable without the None answer of the key search: %s" % late)
    fn = ctx.fn(fx, KB + "KBucketEntry::<'a>::insert", "R14.3")
    if fn is not None:
        sws = [sw for sw in fn.discr_switches() if sw[2] and sw[2].endswith("KBucketEntry")]
        ctx.anchor("R14.3", "KBucketEntry::insert: switch on self", len(sws), 1, cfg=fx.cfg)
        wr = [c.node for c in fn.calls(r"bucket::VacantSlot(::<.*>)?::insert$|VacantSlot(<.*>)?::insert$")] + [n for n, s in fn.assigns() if "*" in "".join(s["lhs"][1:])]
        ctx.anchor("R14.3", "KBucketEntry::insert: store sites", len(wr), 1, cfg=fx.cfg)
        for sw in sws[:1]:
            vac = fn.variant_edges(sw, "Vacant")
            others = [v for v in ("LocalNode", "Occupied", "NoSlot") if set(fn.variant_edges(sw, v)) & set(vac)]
            ok = all(fn.only_via(n, sw[0], vac) for n in wr) and not others
            ctx.ob("R14.3", "KBucketEntry::insert/writes-only-on-Vacant", ok, site=fn.site(sw[0]), cfg=fx.cfg,
                   detail="an Occupied (live) entry must not be overwritten by insert; edges shared with %s" % others)
    vfn = None
    for k in fx.find(r"^protocol::libp2p::kademlia::bucket::VacantSlot(::<.*>)?::insert$"):
        vfn = fx.fn(k)
    ctx.anchor("R14.3", "VacantSlot::insert", 1 if vfn is not None else 0, 1, cfg=fx.cfg)
    if vfn is not None:
        ctx.bodies.add((fx.cfg, vfn.key))
        # the key stored is derived from the new peer id
        keys_ok = False
        for n, s_ in vfn.aggregates(r"types::KademliaPeer$"):
            f_ = dict(zip(s_["rv"].get("fields", []), s_["rv"]["ops"]))
            if "key" in f_:
                rs = guards.rootstrs(vfn, f_["key"])
                keys_ok = any("Key" in x and "::from" in x for x in rs) and any(x.startswith("param:_2") for x in rs)
        ctx.ob("R14.3", "VacantSlot::insert/key=Key::from(new.peer)", keys_ok, site=vfn.site(vfn.entry), cfg=fx.cfg)
        # .. in *both* arms: what is written over a replaced element carries the new peer's key too (a slot reused field by field
        # without its key is found under the evicted peer's key and sorted by it)
        keyed = set()
        for n, s_ in vfn.aggregates(r"types::KademliaPeer$"):
            f_ = dict(zip(s_["rv"].get("fields", []), s_["rv"]["ops"]))
            if "key" in f_ and any("Key" in x and "::from" in x for x in guards.rootstrs(vfn, f_["key"])):
                keyed |= vfn.copies_of(s_["lhs"][0]) | {s_["lhs"][0]}
        for i_, c in enumerate(vfn.calls(r"IndexMut(<.*>)?>?::index_mut$")):
            refs = vfn.copies_of(c.dest[0]) | {c.dest[0]}
            whole, fields = [], set()
            for n, s_ in vfn.assigns():
                if s_["lhs"][0] in refs and len(s_["lhs"]) >= 2 and s_["lhs"][1] == "*":
                    if len(s_["lhs"]) == 2:
                        whole.append(s_)
                    else:
                        fields.add(s_["lhs"][2].lstrip("."))
            ok_w = bool(whole) and all(s_["rv"]["r"] == "use" and (set(slice_locals(vfn, s_["rv"]["o"])) & keyed) for s_ in whole)
            # `mem::replace(&mut nodes[i], new)` / `mem::swap`: the same whole-element write through a library call
            swaps = [m_ for m_ in vfn.calls(r"mem::(replace|swap)$") if len(m_.args) == 2 and (slice_locals(vfn, m_.args[0]) & refs or (vfn.producer(m_.args[0]) is not None and vfn.producer(m_.args[0]).node == c.node))]
            if not whole and swaps:
                whole = swaps
                ok_w = all(set(slice_locals(vfn, m_.args[1])) & keyed for m_ in swaps)
            ok_f = "key" in fields
            ctx.ob("R14.3", "VacantSlot::insert/replace-arm#%d-stores-the-new-peer's-key" % i_, ok_w or (not whole and ok_f), site=vfn.site(c.node), cfg=fx.cfg,
                   detail="whole-element writes from the re-keyed value: %s; fields written one by one: %s" % (ok_w, sorted(fields)))
        # the replace arm overwrites exactly the designated element (IndexMut with the stored index), the append arm pushes
        im = [c for c in vfn.calls(r"IndexMut(<.*>)?>?::index_mut$")]
        sws = [sw for sw in vfn.discr_switches() if sw[2].endswith("option::Option") and vfn.origin({"c": list(sw[1])}).endswith(".index")]
        ok = bool(im) and bool(sws) and all(any(vfn.only_via(c.node, sw[0], vfn.variant_edges(sw, "Some")) for sw in sws) and vfn.origin(c.args[1]).endswith(".index@Some.0") for c in im)
        ctx.ob("R14.3", "VacantSlot::insert/replace-arm-overwrites-nodes[index]", ok, site=vfn.site(im[0].node) if im else vfn.site(vfn.entry), cfg=fx.cfg,
               detail="index origins: %s" % [vfn.origin(c.args[1]) for c in im])


def r14_6(ctx, fx):
    """connection-state bookkeeping that the eviction rule relies on: RoutingTable::on_connection_established marks the stored
    peer Connected on every path from the Occupied edge (whatever the direction of the connection); Kademlia::disconnect_peer marks
    it NotConnected"""
    fn = ctx.fn(fx, RT + "RoutingTable::on_connection_established", "R14.6")
    if fn is not None:
        sws = [sw for sw in fn.discr_switches() if sw[2] and sw[2].endswith("KBucketEntry")]
        ctx.anchor("R14.6", "on_connection_established: match on the entry", len(sws), 1, cfg=fx.cfg)
        marks = [n for n, st in fn.assigns() if "".join(st["lhs"][1:]).endswith(".connection") and fn.shape(st["rv"]["o"] if st["rv"]["r"] == "use" else {"k": {}}) == {"Connected"} or
                 ("".join(st["lhs"][1:]).endswith(".connection") and st["rv"]["r"] == "agg" and st["rv"].get("var") == "Connected")]
        ctx.anchor("R14.6", "on_connection_established: entry.connection = Connected", len(marks), 1, cfg=fx.cfg)
        for sw in sws[:1]:
            e = fn.variant_edges(sw, "Occupied")
            starts = [n for n, l in fn.succs(sw[0]) if l in e]
            p = fn.witness_path(starts, fn.return_nodes(), avoid=marks)
            ctx.ob("R14.6", "RoutingTable::on_connection_established/stored-peer-always-marked-Connected", bool(e) and p is None, site=fn.site(sw[0]), cfg=fx.cfg,
                   detail="a path on which a peer with an established connection stays evictable: %s" % (fn.path_sites(p) if p else None))
    fn = ctx.fn(fx, "protocol::libp2p::kademlia::Kademlia::disconnect_peer::{closure#0}", "R14.6")
    if fn is not None:
        marks = [n for n, st in fn.assigns() if "".join(st["lhs"][1:]).endswith(".connection") and ((st["rv"]["r"] == "agg" and st["rv"].get("var") == "NotConnected") or (st["rv"]["r"] == "use" and fn.shape(st["rv"]["o"]) == {"NotConnected"}))]
        ctx.ob("R14.6", "Kademlia::disconnect_peer/marks-the-entry-NotConnected", bool(marks), site=fn.site(fn.entry), cfg=fx.cfg, nontrivial=False)


def r14_4(ctx, fx):
    nb = None
    for k, v in fx.consts.items():
        if k.endswith("kademlia::routing_table::NUM_BUCKETS") or k.endswith("::NUM_BUCKETS"):
            nb = v.get("v")
    ctx.ob("R14.4", "NUM_BUCKETS==256", nb == 256, cfg=fx.cfg, detail="evaluated constant: %s" % nb)
    fn = ctx.fn(fx, RT + "BucketIndex::new", "R14.4")
    cl = ctx.fn(fx, RT + "BucketIndex::new::{closure#0}", "R14.4", required=False)
    if fn is not None and cl is None:
        # `ilog2().map(BucketIndex)` spelled as a match: the Some payload of ilog2 goes into the BucketIndex aggregate unmodified
        rs = guards.rootstrs(fn, {"c": [0]})
        ok = any(x.endswith("Distance::ilog2") for x in rs) and "param:_1*" in rs and not any(x.startswith("const:") and not x.startswith("const:fn") and not x.endswith("Option::None") for x in rs)
        ctx.ob("R14.4", "BucketIndex::new/is-ilog2-of-the-distance", ok, site=fn.site(fn.entry), cfg=fx.cfg, detail="roots: %s" % sorted(rs))
        arith = [fn.site(n) for n, s in fn.assigns() if s["rv"]["r"] in ("bin", "un")]
        aggs = [s for n, s in fn.aggregates(r"routing_table::BucketIndex$")]
        okw = bool(aggs) and not arith and all(any(x.endswith("Distance::ilog2") for x in guards.rootstrs(fn, s["rv"]["ops"][0])) for s in aggs)
        ctx.ob("R14.4", "BucketIndex::new/closure-wraps-ilog2-unmodified", okw, site=fn.site(fn.entry), cfg=fx.cfg, detail="arithmetic: %s" % arith)
    if fn is not None and cl is not None:
        rs = guards.rootstrs(fn, {"c": [0]})
        ok = any(x.endswith("Distance::ilog2") for x in rs) and "param:_1*" in rs and not any(x.startswith("const:") and "closure" not in x and not x.startswith("const:fn") for x in rs)
        ctx.ob("R14.4", "BucketIndex::new/is-ilog2-of-the-distance", ok, site=fn.site(fn.entry), cfg=fx.cfg, detail="roots: %s" % sorted(rs))
        arith = [cl.site(n) for n, s in cl.assigns() if s["rv"]["r"] in ("bin", "un")]
        rs2 = guards.rootstrs(cl, {"c": [0]})
        ctx.ob("R14.4", "BucketIndex::new/closure-wraps-ilog2-unmodified", not arith and rs2 == {"param:_2"}, site=cl.site(cl.entry), cfg=fx.cfg,
               detail="arithmetic: %s roots: %s" % (arith, sorted(rs2)))
    fn = ctx.fn(fx, RT + "RoutingTable::new", "R14.4")
    if fn is not None:
        rng = [s for n, s in fn.assigns() if s["rv"]["r"] == "agg" and s["rv"]["adt"].endswith("ops::Range")]
        ok = any(any(("const", k) in fn.roots(o) for k in fx.consts if k.endswith("NUM_BUCKETS")) or fn.const_value(o) == 256 for s in rng for o in s["rv"]["ops"][1:])
        if not ok:
            # `repeat_with(KBucket::new).take(NUM_BUCKETS)` / `vec![..; NUM_BUCKETS]`
            for c in fn.calls(r"Iterator::take$|vec::from_elem$"):
                o = c.args[1] if len(c.args) > 1 else None
                if o is not None and (any(("const", k) in fn.roots(o) for k in fx.consts if k.endswith("NUM_BUCKETS")) or fn.const_value(o) == 256):
                    ok = True
        ctx.ob("R14.4", "RoutingTable::new/creates-NUM_BUCKETS-buckets", ok, site=fn.site(fn.entry), cfg=fx.cfg,
               detail="range aggregates: %d" % len(rng))


def r14_5(ctx, fx):
    fn = ctx.fn(fx, KB + "KBucket::closest_iter", "R14.5")
    if fn is None:
        return
    # the two closures by role, not by index: the one handed to the sort, the one handed to filter / filter_map / retain
    srt = fn.calls(r"sort_by_key$|sort_by_cached_key$|sort_unstable_by_key$|sort(_unstable)?_by$")
    flt = fn.calls(r"Iterator>?::(filter|filter_map)$|Vec(<.*>)?::retain$")
    ctx.anchor("R14.5", "closest_iter: sort_by_key + filter", min(len(srt), len(flt)), 1, cfg=fx.cfg)
    c0 = closure_operand(fx, fn, srt[0].args[1]) if srt and len(srt[0].args) > 1 else None
    c1 = closure_operand(fx, fn, flt[0].args[1]) if flt and len(flt[0].args) > 1 else None
    ctx.anchor("R14.5", "closest_iter: sort closure + filter closure", (c0 is not None) + (c1 is not None), 2, cfg=fx.cfg)
    if c0 is None or c1 is None:
        return
    ctx.bodies.add((fx.cfg, c0.key))
    ctx.bodies.add((fx.cfg, c1.key))
    ok = keeps_iff(c1, r"AddressStore::is_empty$", -1)
    ctx.ob("R14.5", "closest_iter/filter-keeps-peers-with-addresses", ok, site=c1.site(c1.entry), cfg=fx.cfg, detail=str(closure_returns(c1)))
    srt_by = [c for c in srt if re.search(r"sort(_unstable)?_by$", c.name)]
    d = [c for c in c0.calls(r"Key::distance$") if c.dest == [0]]
    ok = len(d) == 1 and "target" in c0.origin(d[0].args[0]) and c0.origin(d[0].args[1]).endswith(".key")
    if not ok and srt_by:
        # `sort_by(|a, b| target.distance(&a.key).cmp(&target.distance(&b.key)))`: ascending in the same key
        ds = c0.calls(r"Key::distance$")
        cm = [c for c in c0.calls(r"::cmp$") if c.dest == [0]]
        if len(ds) == 2 and len(cm) == 1 and all("target" in c0.origin(x.args[0]) and c0.origin(x.args[1]).endswith(".key") for x in ds):
            first = {x.split(":", 1)[1] for x in guards.rootstrs(c0, cm[0].args[0]) if x.startswith("param:")}
            second = {x.split(":", 1)[1] for x in guards.rootstrs(c0, cm[0].args[1]) if x.startswith("param:")}
            ok = any(x.startswith("_2") for x in first) and not any(x.startswith("_3") for x in first) and any(x.startswith("_3") for x in second) and not any(x.startswith("_2") for x in second)
    ctx.ob("R14.5", "closest_iter/sort-key-is-target.distance(peer.key)", ok, site=c0.site(c0.entry), cfg=fx.cfg,
           detail="distance calls: %s" % [(c0.origin(c.args[0]), c0.origin(c.args[1])) for c in d])
    # what is returned is the filtered view of the sorted list: the sort comes before the filter, the filter result is the return value
    ctx.ob("R14.5", "closest_iter/sorted-before-returned", flt[0].node in fn.reach([srt[0].node], after=True) and srt[0].node not in fn.reach([flt[0].node], after=True) and flt[0].dest == [0],
           site=fn.site(srt[0].node), cfg=fx.cfg)
    fn = ctx.fn(fx, RT + "RoutingTable::closest", "R14.5")
    if fn is not None:
        tk = fn.calls(r"Iterator::take$")
        ok = len(tk) == 1 and guards.rootstrs(fn, tk[0].args[1]) == {"param:_3"}
        if not tk:
            # the same bound as a loop: a peer is pushed onto the result only while `result.len() < limit`
            pushes = [c for c in fn.calls(r"Vec(<.*>)?::push$") if not c.from_macro]
            is_q = lambda f, o: any(l.dest[0] in slice_locals(f, o) for l in f.calls(r"Vec(<.*>)?::len$"))
            is_b = lambda f, o: guards.rootstrs(f, o) == {"param:_3"}
            ok = bool(pushes) and all(guards.guarded(fn, c.node, is_q, is_b, "<")[0] for c in pushes)
            if not ok and pushes:
                # .. or tested after the push: `push; if result.len() == limit { return }` with `limit == 0` answered before the loop -
                # a further push is reachable from a push only over the `len != limit` edge, the first one only over `limit != 0`
                facts = guards.edge_facts(fn, is_q, is_b)
                cont = {(sw, lab) for sw, lab, rel, cn in facts if rel in ("!=", "<")}
                nz = {(sw, lab) for sw, lab, rel, cn in guards.edge_facts(fn, is_b, lambda f, o: "k" in o and f.const_value(o) == 0) if rel in ("!=", ">")}
                again = any(c2.node in fn.reach([c.node], after=True, cut=cont) for c in pushes for c2 in pushes)
                first = any(c.node in fn.reach([fn.entry], cut=nz) for c in pushes)
                ok = bool(cont) and bool(nz) and not again and not first
        ctx.ob("R14.5", "RoutingTable::closest/take(limit)", ok, site=fn.site(fn.entry), cfg=fx.cfg,
               detail="take calls: %s" % [sorted(guards.rootstrs(fn, t.args[1])) for t in tk])
        ci = fn.calls(r"ClosestBucketsIter::new$")
        ok = len(ci) == 1 and any(x.endswith("Key::distance") for x in guards.rootstrs(fn, ci[0].args[0])) and any("local_key" in x for x in guards.rootstrs(fn, ci[0].args[0]))
        ctx.ob("R14.5", "RoutingTable::closest/bucket-order-from-distance(local_key,target)", ok, site=fn.site(fn.entry), cfg=fx.cfg)


CONNECTION_WRITERS = {
    # function (short) -> what it may store in KademliaPeer.connection of a stored entry
    "KBucketEntry::insert": "the new peer replacing a vacant slot",
    "RoutingTable::on_connection_established": "Connected",
    "RoutingTable::add_known_peer": "the caller's connectivity argument (checked at the callers)",
    "Kademlia::disconnect_peer": "NotConnected, on connection loss",
}


def r14_7(ctx, fx):
    """who may downgrade a stored peer: an entry's `connection` decides whether KBucket::entry may hand its slot out (R14.3), so it is
    written only by the functions in CONNECTION_WRITERS, and add_known_peer's connectivity argument is either the constant NotConnected
    at construction time (empty table) or `self.peers.get(&peer).map_or(NotConnected, |_| Connected)` - the live connection set.
    Any other writer (e.g. a dial-failure handler) can mark a connected peer evictable."""
    n = 0
    for key in sorted(fx.find(r"^protocol::libp2p::kademlia::(routing_table|bucket|mod|)")):
        if not key.startswith("protocol::libp2p::kademlia::") or "::schema::" in key or "::tests::" in key:
            continue
        fn = fx.fn(key)
        for node, s_ in fn.assigns():
            l = "".join(str(x) for x in s_["lhs"][1:])
            if not l.endswith(".connection") or "KademliaPeer" not in fn.local_ty(s_["lhs"][0]):
                continue
            n += 1
            who = short(key)
            allowed = [w for w in CONNECTION_WRITERS if who.startswith(w) or who.endswith(w) or w in who]
            val = sorted(fn.shape(s_["rv"]["o"])) if s_["rv"]["r"] == "use" else [s_["rv"]["r"]]
            ok = bool(allowed)
            if ok and "on_connection_established" in who:
                ok = val == ["Connected"]
            if ok and "disconnect_peer" in who:
                ok = val == ["NotConnected"]
            ctx.ob("R14.7", "%s/writes-entry.connection" % who, ok, site=fn.site(node), cfg=fx.cfg,
                   detail="value %s; allowed writers: %s" % (val, sorted(CONNECTION_WRITERS)))
            if "add_known_peer" in who:
                # re-discovery must not downgrade: the write lies behind a test that the stored state is not Connected
                # (`self.peers` of Kademlia is not the set of connected peers: connections the transport reports without a Kademlia
                # dial mark the entry Connected but are not tracked there)
                guard = set()
                for c in fn.calls(r"PartialEq(<.*>)?>?::(ne|eq)$|::(ne|eq)$"):
                    if any(fn.origin(a).endswith(".connection") for a in c.args) and any("Connected" in x and "NotConnected" not in x for a in c.args for x in fn.shape(a) | guards.rootstrs(fn, a)):
                        for sw_, t, f in fn.bool_tests(c.dest[0]):
                            guard.add((sw_, t if c.name.endswith("ne") else f))
                for sw in fn.discr_switches():
                    if fn.origin({"c": list(sw[1])}).endswith(".connection"):
                        for v in list(sw[3]) + list(sw[5]):
                            if v != "Connected":
                                for lab in fn.variant_edges(sw, v):
                                    if lab not in fn.variant_edges(sw, "Connected"):
                                        guard.add((sw[0], lab))
                okg = bool(guard) and node not in fn.reach([fn.entry], cut=guard)
                ctx.ob("R14.7", "%s/re-discovery-never-downgrades-a-Connected-entry" % who, okg, site=fn.site(node), cfg=fx.cfg,
                       detail="the Occupied-arm write of the caller's value must be guarded by `entry.connection != Connected` (guards found: %d)" % len(guard))
    ctx.anchor("R14.7", "writes to KademliaPeer.connection", n, 3, cfg=fx.cfg)
    m = 0
    for key in sorted(fx.callers_of("protocol::libp2p::kademlia::routing_table::RoutingTable::add_known_peer")):
        fn = fx.fn(key)
        for i, c in enumerate(fn.calls(r"RoutingTable::add_known_peer$")):
            m += 1
            sh = fn.shape(c.args[3])
            ok = False
            why = "shape %s" % sorted(sh)
            if sh == {"NotConnected"}:
                ok = short(key).endswith("Kademlia::new")
                why = "constant NotConnected is allowed only while the table is being built (Kademlia::new)"
            elif all(x.startswith("call:") and x.endswith("Option::map_or") for x in sh):
                p = fn.producer(c.args[3])
                if p is not None and len(p.args) == 3:
                    rs = guards.rootstrs(fn, p.args[0])
                    dflt = fn.shape(p.args[1])
                    # the closure applied to a present peer yields Connected
                    some_val = None
                    a2 = p.args[2].get("m") or p.args[2].get("c")
                    for node_, kind_, pl_ in (fn.defs().get(a2[0], []) if a2 else []):
                        if kind_ == "assign" and pl_["rv"]["r"] == "agg" and pl_["rv"].get("closure"):
                            if fx.has(pl_["rv"]["closure"]):
                                some_val = fx.fn(pl_["rv"]["closure"]).shape({"c": [0]})
                    ok = any("HashMap::get" in x for x in rs) and any(re.search(r"^param:_1.*\.peers", x) for x in rs) and dflt == {"NotConnected"} \
                        and some_val == {"Connected"}
                    why = "map_or receiver roots %s default %s closure yields %s" % (sorted(x for x in rs if "get" in x or "peers" in x), sorted(dflt), some_val)
            elif sh == {"Connected", "NotConnected"}:
                # the same choice spelled with match / if on `self.peers.contains_key(..)` / `get(..)`: Connected is chosen only on
                # the edge where the peer is present in the live set, NotConnected only where it is absent
                present, absent = map_presence_edges(fn, "peers")
                sl = slice_locals(fn, c.args[3]) | {(c.args[3].get("m") or c.args[3].get("c") or [None])[0]}
                conn = [n_ for n_, s_ in fn.assigns() if s_["lhs"][0] in sl and len(s_["lhs"]) == 1 and s_["rv"]["r"] == "agg" and s_["rv"].get("var") == "Connected"]
                notc = [n_ for n_, s_ in fn.assigns() if s_["lhs"][0] in sl and len(s_["lhs"]) == 1 and s_["rv"]["r"] == "agg" and s_["rv"].get("var") == "NotConnected"]
                ok = bool(present) and bool(absent) and bool(conn) and bool(notc) and all(n_ not in fn.reach([fn.entry], cut=present) for n_ in conn) \
                    and all(n_ not in fn.reach([fn.entry], cut=absent) for n_ in notc)
                why = "Connected assigned only behind `peer present in self.peers` (%d sites), NotConnected only behind absent (%d sites): %s" % (len(conn), len(notc), ok)
            ctx.ob("R14.7", "%s/add_known_peer#%d-connectivity-from-the-live-peer-set" % (short(key), i), ok, site=fn.site(c.node), cfg=fx.cfg, detail=why)
    ctx.anchor("R14.7", "add_known_peer call sites", m, 3, cfg=fx.cfg)


def run(ctx):
    fx = ctx.facts("default")
    r14_1(ctx, fx)
    r14_2(ctx, fx)
    r14_3(ctx, fx)
    r14_4(ctx, fx)
    r14_5(ctx, fx)
    r14_6(ctx, fx)
    r14_7(ctx, fx)
    ctx.assume("Distance::ilog2 returns None exactly for distance 0 and a value < 256 otherwise (U256 arithmetic, trusted)")
