"""C01 - Noise handshake authenticates the remote peer identity (structural).

R01.1 parse_and_verify_peer_id returns Ok only over the true edge of the signature verification
R01.2 what is verified: domain-separated remote static key of this session, signature and key from the payload, PeerId from the verified key
R01.3 the handshake returns Ok only through parse_and_verify_peer_id, fed with snow's authenticated remote static key
R01.4 a NoiseSocket is only built by NoiseSocket::new, called only by the handshake
R01.5 the verify chain returns the verifier's verdict (no constant result)
R01.6 the dialed peer id is compared with the proven one; mismatch cannot reach Ok
R01.7 defence in depth in the manager
Not decided: cryptographic soundness of snow / ed25519-dalek, behaviour under fragmentation.
"""
import re
from paths import Inter, refine_cuts
from common import short, field_calls
import guards

EXPLANATION = ("Guard (separating-edge) and provenance rules over the MIR CFG of the Noise handshake: no Ok of the identity check without the "
               "true edge of RemotePublicKey::verify; the verified message is built from STATIC_KEY_DOMAIN and the session's remote static key "
               "returned by snow::HandshakeState::get_remote_static; the reported PeerId is derived from the very key that verified; the dialed "
               "id is compared on the Some edge.")

N = "crypto::noise::"


def params_of(rs):
    return {x for x in rs if x.startswith("param:")}


def r01_1_2(ctx, fx):
    fn = ctx.fn(fx, N + "parse_and_verify_peer_id", "R01.1")
    if fn is None:
        return
    ver = fn.calls(r"crypto::RemotePublicKey::verify$")
    ctx.anchor("R01.1", "RemotePublicKey::verify call", len(ver), 1, cfg=fx.cfg)
    if not ver:
        cl = [short(k) + k[k.index("::{closure"):] for k in fx.find(r"^crypto::noise::parse_and_verify_peer_id::\{closure") if fx.fn(k).calls(r"crypto::RemotePublicKey::verify$")]
        ctx.ob("R01.1", "parse_and_verify_peer_id/Ok-only-over-verify==true", False, site=fn.site(fn.entry), cfg=fx.cfg,
               detail="no call of RemotePublicKey::verify lies on the paths to the Ok exit (verify is called from: %s); if the check runs "
                      "only inside an Option/Result combinator, a missing signature or key skips it" % (cl or "nowhere"))
        return
    # a missing signature / key is an error before verification: both options are unwrapped with ok_or(..)? in this body
    for fld, what in (("identity_sig", "signature"), ("identity_key", "identity key")):
        oo = [c for c in fn.calls(r"option::Option(<.*>)?::ok_or(_else)?$") if ("." + fld) in fn.origin(c.args[0]) or any(x.startswith("param:_1." + fld) for x in guards.rootstrs(fn, c.args[0]))]
        used = bool(oo) and any(("call", c.name) in fn.roots(a) for c in oo for a in ver[0].args)
        if not used:
            # the same thing spelled with `let Some(x) = payload.<fld> else { return Err(..) }` / `match`: verify is reached only over the
            # Some edge of a test of that option, and its argument is the option's payload
            some = set()
            for sw in fn.discr_switches():
                if ("." + fld) in fn.origin({"c": list(sw[1])}) and sw[2] and sw[2].endswith("option::Option"):
                    for lab in fn.variant_edges(sw, "Some"):
                        if lab not in fn.variant_edges(sw, "None"):
                            some.add((sw[0], lab))
            fed = any(any(x.startswith("param:_1." + fld) for x in guards.rootstrs(fn, a)) for a in ver[0].args)
            used = bool(some) and fed and ver[0].node not in fn.reach([fn.entry], cut=some)
        ctx.ob("R01.1", "parse_and_verify_peer_id/missing-%s-is-an-error" % fld, used, site=fn.site(oo[0].node) if oo else fn.site(fn.entry), cfg=fx.cfg,
               detail="the %s handed to verify must be the payload of `payload.%s.ok_or(..)?`: None can then only reach the Err exit" % (what, fld))
    v = ver[0]
    tests = fn.bool_tests(v.dest[0])
    ctx.anchor("R01.1", "branch on verify result", len(tests), 1, cfg=fx.cfg)
    oks = [n for n, sh in fn.exits(r"^Ok") if any(s.startswith("Ok") for s in sh)]
    ctx.anchor("R01.1", "Ok exits", len(oks), 1, cfg=fx.cfg)
    for n in oks:
        ok = any(fn.only_via(n, sw, [t]) for sw, t, f in tests)
        ctx.ob("R01.1", "parse_and_verify_peer_id/Ok-only-over-verify==true", ok, site=fn.site(n), cfg=fx.cfg,
               detail="a forged or missing signature must not yield a peer id")
    # false edge reaches only Err
    for sw, t, f in tests:
        r = fn.reach([m for m, l in fn.succs(sw) if l == f])
        ctx.ob("R01.1", "parse_and_verify_peer_id/verify==false-reaches-no-Ok", not any(n in r for n in oks), site=fn.site(sw), cfg=fx.cfg)
    # R01.2 provenance
    key_r = guards.rootstrs(fn, v.args[0])
    msg_r = guards.rootstrs(fn, v.args[1])
    sig_r = guards.rootstrs(fn, v.args[2])
    ctx.ob("R01.2", "verify/message=STATIC_KEY_DOMAIN++session-static-key",
           any("STATIC_KEY_DOMAIN" in x for x in msg_r) and "param:_2" in {x.split("*")[0].rstrip(".") for x in params_of(msg_r)} | {x for x in params_of(msg_r)} and
           not any(x.startswith("param:_1") for x in msg_r),
           site=fn.site(v.node), cfg=fx.cfg, detail="roots of msg: %s" % sorted(msg_r))
    ctx.ob("R01.2", "verify/signature-from-payload.identity_sig", params_of(sig_r) and all(x.startswith("param:_1.identity_sig") for x in params_of(sig_r)),
           site=fn.site(v.node), cfg=fx.cfg, detail="roots of sig: %s" % sorted(sig_r))
    ctx.ob("R01.2", "verify/key-from-payload.identity_key", params_of(key_r) and all(x.startswith("param:_1.identity_key") for x in params_of(key_r))
           and any("from_protobuf_encoding" in x for x in key_r), site=fn.site(v.node), cfg=fx.cfg, detail="roots of key: %s" % sorted(key_r))
    for n in oks:
        st = fn.at(n)
        rv = st["rv"] if "rv" in st else None
        if rv and rv["r"] == "agg" and rv["ops"]:
            pr = guards.rootstrs(fn, rv["ops"][0])
            ctx.ob("R01.2", "Ok(peer_id)/derived-from-the-verified-key", params_of(pr) and all(x.startswith("param:_1.identity_key") for x in params_of(pr))
                   and any("PeerId::from_public_key_protobuf" in x for x in pr), site=fn.site(n), cfg=fx.cfg, detail="roots of peer id: %s" % sorted(pr))
        else:
            ctx.ob("R01.2", "Ok(peer_id)/derived-from-the-verified-key", False, site=fn.site(n), cfg=fx.cfg, detail="Ok exit is not a direct aggregate")


def r01_3(ctx, fx):
    key = None
    for k in fx.find(r"^crypto::noise::handshake::\{closure#0\}::\{closure#0\}$"):
        key = k
    fn = ctx.fn(fx, key or N + "handshake::{closure#0}::{closure#0}", "R01.3")
    if fn is None:
        return
    pv = fn.calls(r"noise::parse_and_verify_peer_id$")
    ctx.anchor("R01.3", "handshake: parse_and_verify_peer_id call", len(pv), 1, cfg=fx.cfg)
    if not pv:
        return
    oks = [n for n, sh in fn.exits(r"^Ok") if any(s.startswith("Ok") for s in sh)]
    ctx.anchor("R01.3", "handshake: Ok exits", len(oks), 1, cfg=fx.cfg)
    r = fn.reach([fn.entry], avoid=[c.node for c in pv])
    ctx.ob("R01.3", "handshake/Ok-only-after-parse_and_verify_peer_id", not any(n in r for n in oks), site=fn.site(pv[0].node), cfg=fx.cfg)
    # Ok of handshake only on the Ok of parse_and_verify (the `?`)
    cuts = refine_cuts(fn, pv[0], ["Err", "?"])
    r2 = fn.reach([pv[0].node], cut=cuts, after=True)
    ctx.ob("R01.3", "handshake/verify-Err-reaches-no-Ok", not any(n in r2 for n in oks), site=fn.site(pv[0].node), cfg=fx.cfg)
    rs = guards.rootstrs(fn, pv[0].args[1])
    ctx.ob("R01.3", "handshake/verified-key-is-session-remote-static", any("get_handshake_dh_remote_pubkey" in x for x in rs), site=fn.site(pv[0].node), cfg=fx.cfg,
           detail="roots of dh key argument: %s" % sorted(x for x in rs if "call:" in x)[:12])
    # both roles feed a payload decoded from a handshake message read from the wire
    sws = [sw for sw in fn.discr_switches() if sw[2] and sw[2].endswith("::Role")]
    ctx.anchor("R01.3", "handshake: match on Role", len(sws), 1, cfg=fx.cfg)
    reads = {c.node for c in fn.calls() if c.res and "read_handshake_message" in c.res}
    for sw in sws[:1]:
        for role in ("Dialer", "Listener"):
            labs = fn.variant_edges(sw, role)
            starts = [n for n, l in fn.succs(sw[0]) if l in labs]
            p = fn.witness_path(starts, [pv[0].node], avoid=reads)
            ctx.ob("R01.3", "handshake/%s-payload-read-from-wire-before-verify" % role, bool(starts) and p is None, site=fn.site(sw[0]), cfg=fx.cfg)
    # peer id handed to NoiseSocket::new and returned is the verified one
    for c in fn.calls(r"noise::NoiseSocket::new$"):
        for a in c.args:
            pa = a.get("c") or a.get("m")
            if pa is not None and "PeerId" in fn.locals[pa[0]]:
                prs = guards.rootstrs(fn, a)
                ctx.ob("R01.3", "handshake/NoiseSocket-peer-is-verified-peer", any("parse_and_verify_peer_id" in x for x in prs) and not any("PeerId::" in x for x in prs),
                       site=fn.site(c.node), cfg=fx.cfg, detail=str(sorted(x for x in prs if "PeerId" in x or "parse_and" in x)))
    g = ctx.fn(fx, N + "NoiseContext::get_handshake_dh_remote_pubkey", "R01.3")
    if g is not None:
        rs_ = g.calls(r"snow::(handshakestate::)?HandshakeState::get_remote_static$")
        oks_ = [n for n, sh in g.exits(r"^Ok")]
        rr = g.reach([g.entry], avoid=[c.node for c in rs_])
        ctx.ob("R01.3", "get_handshake_dh_remote_pubkey/Ok-value-is-snow-remote-static", bool(rs_) and not any(n in rr for n in oks_), site=g.site(g.entry), cfg=fx.cfg)
        for n in oks_:
            st = g.at(n)
            if "rv" in st and st["rv"]["r"] == "agg" and st["rv"]["ops"]:
                x = guards.rootstrs(g, st["rv"]["ops"][0])
                ctx.ob("R01.3", "get_handshake_dh_remote_pubkey/returns-get_remote_static-payload", any("get_remote_static" in y for y in x), site=g.site(n), cfg=fx.cfg, detail=str(sorted(x)))
    if fx.cfg == "all":
        w = ctx.fn(fx, N + "NoiseContext::get_remote_peer_id", "R01.3")
        if w is not None:
            pv2 = w.calls(r"noise::parse_and_verify_peer_id$")
            oks2 = [n for n, sh in w.exits(r"^Ok|^call:")]
            r3 = w.reach([w.entry], avoid=[c.node for c in pv2])
            ctx.ob("R01.3", "webrtc get_remote_peer_id/Ok-only-after-parse_and_verify_peer_id", bool(pv2) and not any(n in r3 for n in oks2 if "Ok" in str(dict(w.exits()).get(n))), site=w.site(w.entry), cfg=fx.cfg)
            if pv2:
                rs = guards.rootstrs(w, pv2[0].args[1])
                ctx.ob("R01.3", "webrtc get_remote_peer_id/verified-key-is-session-remote-static", any("get_remote_static" in x or "get_handshake_dh_remote_pubkey" in x for x in rs), site=w.site(pv2[0].node), cfg=fx.cfg,
                       detail=str(sorted(x for x in rs if "call:" in x)[:10]))


def r01_4(ctx, fx):
    ctors = fx.constructors_of("crypto::noise::NoiseSocket::NoiseSocket")
    ctx.ob("R01.4", "NoiseSocket-literal-only-in-new", [norm_(k) for k in ctors] == ["crypto::noise::NoiseSocket::new"], cfg=fx.cfg, detail=str(ctors))
    callers = fx.callers_of("crypto::noise::NoiseSocket::new")
    ctx.ob("R01.4", "NoiseSocket::new-called-only-by-handshake", bool(callers) and all(re.match(r"crypto::noise::handshake", norm_(c)) for c in callers), cfg=fx.cfg, detail=str(callers))
    callers = fx.callers_of("crypto::noise::parse_and_verify_peer_id")
    want = 1 if fx.cfg == "default" else 2
    ctx.anchor("R01.4", "callers of parse_and_verify_peer_id", len(callers), want, cfg=fx.cfg)


def norm_(k):
    from facts import norm
    return norm(k)


def r01_5(ctx, fx):
    fn = ctx.fn(fx, "crypto::RemotePublicKey::verify", "R01.5")
    if fn is not None:
        rs = fn.roots({"c": [0]})
        consts = [r for r in rs if r[0] == "const" and not r[1].startswith("fn:")]
        sws = [sw for sw in fn.discr_switches() if sw[2] and sw[2].endswith("RemotePublicKey")]
        ok = not consts
        ctx.ob("R01.5", "RemotePublicKey::verify/result-has-no-constant-root", ok, site=fn.site(fn.entry), cfg=fx.cfg, detail=str(sorted(map(str, rs))))
        for sw in sws[:1]:
            for var, callee in (("Ed25519", r"ed25519::PublicKey::verify$"), ("Rsa", r"rsa::PublicKey::verify$")):
                labs = fn.variant_edges(sw, var)
                if not labs:
                    continue
                starts = [n for n, l in fn.succs(sw[0]) if l in labs]
                hits = {c.node for c in fn.calls(callee)}
                p = fn.witness_path(starts, fn.return_nodes(), avoid=hits)
                ctx.ob("R01.5", "RemotePublicKey::verify/%s-arm-uses-own-verifier" % var, bool(hits) and p is None, site=fn.site(sw[0]), cfg=fx.cfg)
    fn = ctx.fn(fx, "crypto::ed25519::PublicKey::verify", "R01.5")
    if fn is not None:
        rs = guards.rootstrs(fn, {"c": [0]})
        DALEK = r"Verifier.*::verify$|VerifyingKey::verify(_strict)?$"
        # the verdict is never the constant true, and where it is not the constant false it is is_ok() of the verification result
        # (a malformed signature answered with `return false` before the verifier runs is a rejection)
        ok = "const:1" not in rs and any("is_ok" in x for x in rs)
        direct = fn.calls(DALEK)
        inner = fx.fn("crypto::ed25519::PublicKey::verify::{closure#0}")
        if direct:
            # the verifier is called in this body: is_ok() is applied to its result
            ok2 = any(any(("call", v.name) in fn.roots(a) for v in direct) for c in fn.calls(r"result::Result(<.*>)?::is_ok$") for a in c.args[:1])
        else:
            ok = ok and "const:0" not in rs
            ok2 = inner is not None and bool(inner.calls(DALEK))
            if inner is not None:
                ctx.bodies.add((fx.cfg, inner.key))
                irs = guards.rootstrs(inner, {"c": [0]})
                ok2 = ok2 and not any(x.startswith("const:Ok") or "Result::Ok" in x for x in irs)
        if not ok:
            # `matches!(result, Ok(..))`: the verdict is the constant true only on the Ok edge of a switch on the verification result
            d0 = fn.defs().get(0, [])
            consts = all(k == "assign" and pl["rv"]["r"] == "use" and fn.const_value(pl["rv"]["o"]) in (0, 1) and "k" in pl["rv"]["o"] for n, k, pl in d0)
            trues = [n for n, k, pl in d0 if k == "assign" and pl["rv"]["r"] == "use" and fn.const_value(pl["rv"]["o"]) == 1]
            for sw in fn.discr_switches():
                if not (sw[2] and sw[2].endswith("result::Result") and len(sw[1]) == 1):
                    continue
                if not any(re.search(r"and_then$|verify(_strict)?$", x) for x in guards.rootstrs(fn, {"c": list(sw[1])})):
                    continue
                okl = fn.variant_edges(sw, "Ok")
                other = [n for n, l in fn.succs(sw[0]) if l not in okl]
                if d0 and consts and trues and okl and not any(n in fn.reach(other) for n in trues) and not any(n in fn.reach([fn.entry], avoid=[sw[0]]) for n in trues):
                    ok = True
                    if direct and any(v.dest and sw[1][0] in (fn.copies_of(v.dest[0]) | {v.dest[0]}) for v in direct):
                        ok2 = True      # `match verify_strict(..) { Ok(()) => true, Err(_) => false }`
        ctx.ob("R01.5", "ed25519::PublicKey::verify/verdict-is-dalek-verify(msg,sig).is_ok()", ok and ok2, site=fn.site(fn.entry), cfg=fx.cfg, detail=str(sorted(rs)))


def r01_6(ctx, fx):
    keys = sorted(fx.find(r"^transport::(tcp|websocket)::connection::\w+::negotiate_connection::\{closure#0\}$"))
    ctx.anchor("R01.6", "negotiate_connection bodies", len(keys), 1 if fx.cfg == "default" else 2, cfg=fx.cfg)
    for key in keys:
        fn = fx.fn(key)
        ctx.bodies.add((fx.cfg, key))
        hs = [c for c in fn.calls() if c.res and re.search(r"noise::handshake::\{closure#0\}$", c.res)]
        ctx.anchor("R01.6", "%s: handshake poll" % short(key), len(hs), 1, cfg=fx.cfg)
        cmps = [c for c in fn.calls(r"PeerId as std::cmp::PartialEq>::(eq|ne)$|::(eq|ne)$") if any("PeerId" in a for a in c.f.get("args", []))]
        ctx.anchor("R01.6", "%s: PeerId comparison" % short(key), len(cmps), 1, cfg=fx.cfg)
        oks = [n for n, sh in fn.exits(r"^Ok") if any(s.startswith("Ok") for s in sh)]
        if not cmps or not hs:
            continue
        c = cmps[0]
        ra = guards.rootstrs(fn, c.args[0]) | guards.rootstrs(fn, c.args[1])
        ok_roots = any("dialed_peer" in x or re.search(r"param:_1\{?dialed_peer", x) for x in ra) or any(x.startswith("param:_1") for x in ra)
        is_ne = c.name.endswith("ne")
        good = []
        bad_starts = []
        for sw, t, f in fn.bool_tests(c.dest[0]):
            good.append((sw, f if is_ne else t))
            bad_starts += [m for m, l in fn.succs(sw) if l == (t if is_ne else f)]
        # None edge of the dialed-peer option
        none_cut = set()
        for sw in fn.discr_switches():
            if sw[2] and sw[2].endswith("option::Option") and "PeerId" in fn.locals[sw[1][0]]:
                for lab in fn.variant_edges(sw, "None"):
                    none_cut.add((sw[0], lab))
        ctx.anchor("R01.6", "%s: match on dialed peer option" % short(key), len(none_cut), 1, cfg=fx.cfg)
        r = fn.reach([hs[0].node], cut=set(good) | none_cut, after=True)
        ctx.ob("R01.6", "%s/dialed-Some=>Ok-only-if-ids-equal" % short(key), ok_roots and not any(n in r for n in oks), site=fn.site(c.node), cfg=fx.cfg,
               detail="with a dialed peer id the connection may only succeed over the equal edge of the PeerId comparison")
        rb = fn.reach(bad_starts)
        ctx.ob("R01.6", "%s/mismatch-reaches-no-Ok" % short(key), not any(n in rb for n in oks), site=fn.site(c.node), cfg=fx.cfg)
        mm = [n for n, s in fn.aggregates(r"NegotiationError$", "PeerIdMismatch")]
        ctx.ob("R01.6", "%s/mismatch-yields-PeerIdMismatch" % short(key), any(n in rb for n in mm), site=fn.site(c.node), cfg=fx.cfg)
    # dialing callers pass the id parsed from the dialed address
    for key in sorted(fx.find(r"^<transport::tcp::TcpTransport as transport::Transport>::(dial|open)::\{closure#\d+\}(::\{closure#\d+\})*$")):
        fn = fx.fn(key)
        for c in fn.calls(r"TcpConnection::open_connection$"):
            ctx.bodies.add((fx.cfg, key))
            for a in c.args:
                pa = a.get("c") or a.get("m")
                if pa is not None and "Option<peer_id::PeerId>" in fn.locals[pa[0]]:
                    rs = guards.rootstrs(fn, a)
                    ok = any("multiaddr_to_socket_address" in x for x in rs) or any(x.startswith("param:_1") for x in rs)
                    ctx.ob("R01.6", "%s/open_connection-gets-peer-from-dialed-address" % short(key), ok and not any(x == "const:std::option::Option::None" for x in rs), site=fn.site(c.node), cfg=fx.cfg,
                           detail=str(sorted(rs))[:300])


def r01_7(ctx, fx):
    fn = ctx.fn(fx, "transport::manager::TransportManager::on_connection_established", "R01.7")
    if fn is None:
        return
    cmps = [c for c in fn.calls(r"::(eq|ne)$") if any("PeerId" in a for a in c.f.get("args", []))]
    ctx.anchor("R01.7", "manager: dialed_peer != peer", len(cmps), 1, cfg=fx.cfg)
    oks = [n for n, sh in fn.exits(r"^Ok")]
    for c in cmps[:1]:
        is_ne = c.name.endswith("ne")
        for sw, t, f in fn.bool_tests(c.dest[0]):
            r = fn.reach([m for m, l in fn.succs(sw) if l == (t if is_ne else f)])
            ctx.ob("R01.7", "manager/peer-id-mismatch-never-accepted", not any(n in r for n in oks), site=fn.site(c.node), cfg=fx.cfg)


def r01_8(ctx, fx):
    """the signature check binds the payload to this session only if the verification is strict: ed25519_dalek's `verify` accepts
    small-order keys / R components, for which one signature is valid for every message (an identity payload that can be replayed
    into a session with any other static key).  The Ed25519 verification reachable from RemotePublicKey::verify is `verify_strict`."""
    n = 0
    for key in sorted(fx.find(r"^crypto::ed25519::PublicKey::verify(::\{closure#\d+\})?$")):
        fn = fx.fn(key)
        for c in fn.calls(r"ed25519_dalek::(VerifyingKey|Verifier)(<.*>)?>?::verify\w*$|Verifier>?::verify$"):
            n += 1
            ctx.bodies.add((fx.cfg, key))
            ctx.ob("R01.8", "ed25519::PublicKey::verify/uses-verify_strict", c.name.endswith("::verify_strict"), site=fn.site(c.node), cfg=fx.cfg,
                   detail="callee %s" % c.name)
    ctx.anchor("R01.8", "ed25519 verification call", n, 1, cfg=fx.cfg)


def r01_9(ctx, fx):
    """the reported peer id is the hash of the proven key: protobuf decoding is lenient (field order, unknown fields), so the id must be
    computed from the canonical re-encoding of the decoded key (or the received bytes must be compared with it) - not from the raw
    received bytes alone, which a remote can vary freely for one and the same key."""
    fn = ctx.fn(fx, N + "parse_and_verify_peer_id", "R01.9")
    if fn is None:
        return
    mk = fn.calls(r"PeerId::from_public_key_protobuf$|PeerId::from_public_key$")
    ctx.anchor("R01.9", "parse_and_verify_peer_id: PeerId construction", len(mk), 1, cfg=fx.cfg)
    for c in mk:
        rs = guards.rootstrs(fn, c.args[0])
        reenc = any(re.search(r"Message>?::(encode_to_vec|encode|encode_length_delimited_to_vec)$|to_protobuf_encoding$", x) for x in rs)
        cmpd = False
        for e in fn.calls(r"::(eq|ne)$"):
            ra = [guards.rootstrs(fn, a) for a in e.args]
            if any(any(re.search(r"Message>?::encode", x) for x in r_) for r_ in ra):
                cmpd = True
        ctx.ob("R01.9", "parse_and_verify_peer_id/peer-id-from-the-canonical-encoding-of-the-decoded-key", reenc or cmpd, site=fn.site(c.node), cfg=fx.cfg,
               detail="argument re-encoded from the decoded key: %s; received bytes compared with the re-encoding: %s; roots %s" % (reenc, cmpd, sorted(rs)[:8]))


def run(ctx):
    for cfg in ctx.configs():
        fx = ctx.facts(cfg)
        if cfg == "default":
            r01_1_2(ctx, fx)
            r01_7(ctx, fx)
            r01_8(ctx, fx)
            r01_9(ctx, fx)
        r01_3(ctx, fx)
        r01_4(ctx, fx)
        r01_5(ctx, fx)
        r01_6(ctx, fx)
    if ctx.tier == "thorough":
        # "the identity key whose hash is P": with RSA identities (feature rsa) the hashed bytes embed the DER key verbatim, so the
        # one-spelling-per-key obligation of C18 R18.6 is a necessary condition of this property too
        import C18
        C18.r18_6(ctx, ctx.facts("all"))
        import witness
        res, tail = witness.run()
        r = res.get("NoiseModuleIsPrivate", {})
        ctx.ob("R01.4", "K8:NoiseModuleIsPrivate", r.get("compile_fail") is True and r.get("twin") is True, cfg="default",
               detail="`use litep2p::crypto::noise::NoiseSocket` is rejected with E0603 outside the crate: %s; compiling twin builds: %s%s" % (r.get("compile_fail"), r.get("twin"), "" if r else " ; harness output: " + tail[-400:]))
    ctx.assume("snow::HandshakeState::get_remote_static is the authenticated remote static key of this session; ed25519-dalek verify is sound")
