"""C06 - Connection caps (structural).

R06.1 only accept_established_connection grows the counted sets, by direction; it is called only behind both admission checks
R06.2 release on close: limits.on_connection_closed removes from both sets; the manager calls it on every path
R06.3 limit comparisons: refuse exactly when len >= max (safety and tightness), per direction
R06.4 protocol side keeps at most two handles per peer (TransportService::on_connection_established)
R06.6 PeerState::on_connection_established never accepts a third connection; on_connection_closed answers true iff the peer became Disconnected
R06.5 every Accept exit of the manager counted the connection
"""
import re
from paths import refine_cuts
from common import short, field_calls
import guards

EXPLANATION = ("Who-may / guarded-by / comparison-strictness rules over the MIR CFG of ConnectionLimits and the manager's establish/close "
               "paths: the counted sets grow at one site per direction behind the admission checks, shrink on every close path, and the "
               "limit comparisons refuse exactly on len >= max.")

L = "transport::manager::limits::ConnectionLimits::"
TM = "transport::manager::TransportManager::"
SETS = ("incoming_connections", "outgoing_connections")


def r06_1(ctx, fx):
    growers = {}
    for key in fx.fn_keys():
        if "limits" not in key and "manager" not in key:
            continue
        fn = fx.fn(key)
        for s in SETS:
            if field_calls(fn, r"HashSet::(insert|extend|replace|get_or_insert)", s):
                growers.setdefault(s, set()).add(key)
    for s in SETS:
        ctx.ob("R06.1", "%s-grown-only-in-accept_established_connection" % s,
               growers.get(s, set()) == {L + "accept_established_connection"}, cfg=fx.cfg, detail="growers: %s" % sorted(growers.get(s, set())))
    fn = ctx.fn(fx, L + "accept_established_connection", "R06.1")
    if fn is not None:
        tests = fn.bool_tests(3)   # is_listener parameter
        ctx.anchor("R06.1", "branch on is_listener", len(tests), 1, cfg=fx.cfg)
        for s, want_true in (("incoming_connections", True), ("outgoing_connections", False)):
            for c in field_calls(fn, r"HashSet::insert$", s):
                ok = any(fn.only_via(c.node, sw, [t if want_true else f]) for sw, t, f in tests)
                ctx.ob("R06.1", "accept_established_connection/%s.insert-only-if-is_listener=%s" % (s, want_true), ok,
                       site=fn.site(c.node), cfg=fx.cfg, detail="a connection must be counted in the set of its own direction")
                # and only when the corresponding maximum is configured (otherwise the set grows without bound check)
                lim = "max_incoming_connections" if want_true else "max_outgoing_connections"
                ok2 = False
                for cc in fn.calls(r"Option::is_some$"):
                    if lim in fn.recv(cc):
                        ok2 = ok2 or any(fn.only_via(c.node, sw, [t]) for sw, t, f in fn.bool_tests(cc.dest[0]))
                for sw in fn.discr_switches():
                    if lim in "".join(map(str, sw[1])):
                        ok2 = ok2 or all(fn.only_via(c.node, sw[0], fn.variant_edges(sw, "Some")) for _ in [0])
                ctx.ob("R06.1", "accept_established_connection/%s.insert-only-if-%s-configured" % (s, lim), ok2,
                       site=fn.site(c.node), cfg=fx.cfg)
    callers = fx.callers_of(L + "accept_established_connection")
    ctx.ob("R06.1", "accept_established_connection-called-only-by-manager", callers == [TM + "on_connection_established"], cfg=fx.cfg,
           detail="callers: %s" % callers)
    fn = ctx.fn(fx, TM + "on_connection_established", "R06.1")
    if fn is not None:
        acc = fn.calls(r"ConnectionLimits::accept_established_connection$")
        can = fn.calls(r"ConnectionLimits::can_accept_connection$")
        st = fn.calls(r"PeerState::on_connection_established$")
        ctx.anchor("R06.1", "manager: accept/can_accept/state calls", min(len(acc), len(can), len(st)), 1, cfg=fx.cfg)
        if acc and can and st:
            a = acc[0]
            # Ok edge of can_accept_connection: not reachable when the call returned Err
            cuts = refine_cuts(fn, can[0], ["Err", "?"])
            r = fn.reach([can[0].node], cut=cuts, after=True)
            ctx.ob("R06.1", "manager/count-only-after-can_accept_connection-Ok", a.node not in r and a.node not in fn.reach([fn.entry], avoid=[can[0].node]),
                   site=fn.site(a.node), cfg=fx.cfg, detail="accept_established_connection must be unreachable on the Err result of can_accept_connection")
            ok = any(fn.only_via(a.node, sw, [t]) for sw, t, f in fn.bool_tests(st[0].dest[0]))
            ctx.ob("R06.1", "manager/count-only-if-state-accepted", ok, site=fn.site(a.node), cfg=fx.cfg,
                   detail="accept_established_connection only over the true edge of PeerState::on_connection_established")
            # same direction flag in both calls: Endpoint::is_listener(endpoint)
            r1 = guards.rootstrs(fn, can[0].args[1])
            r2 = guards.rootstrs(fn, a.args[2])
            same = {x for x in r1 if not x.startswith("const")} == {x for x in r2 if not x.startswith("const")} and any("Endpoint::is_listener" in x for x in r1)
            ctx.ob("R06.1", "manager/same-direction-flag-checked-and-counted", same, site=fn.site(a.node), cfg=fx.cfg,
                   detail="roots checked: %s ; roots counted: %s" % (sorted(r1), sorted(r2)))
            r3 = guards.rootstrs(fn, a.args[1])
            ctx.ob("R06.1", "manager/counted-id-is-endpoint-connection-id", any("Endpoint::connection_id" in x for x in r3) and not any(x.startswith("call:") and "connection_id" not in x for x in r3),
                   site=fn.site(a.node), cfg=fx.cfg, detail="roots: %s" % sorted(r3))


def r06_2(ctx, fx):
    fn = ctx.fn(fx, L + "on_connection_closed", "R06.2")
    if fn is not None:
        for s in SETS:
            rm = field_calls(fn, r"HashSet::remove$", s)
            r = fn.reach([fn.entry], avoid=[c.node for c in rm])
            bad = [n for n in fn.return_nodes() if n in r]
            ctx.ob("R06.2", "limits.on_connection_closed/removes-from-%s-on-every-path" % s, bool(rm) and not bad, site=fn.site(fn.entry), cfg=fx.cfg)
            for c in rm:
                rs = guards.rootstrs(fn, c.args[1])
                ctx.ob("R06.2", "limits.on_connection_closed/%s.remove(connection_id-param)" % s, rs == {"param:_2"}, site=fn.site(c.node), cfg=fx.cfg,
                       detail="roots: %s" % sorted(rs))
    fn = ctx.fn(fx, TM + "on_connection_closed", "R06.2")
    if fn is not None:
        rel = fn.calls(r"ConnectionLimits::on_connection_closed$")
        r = fn.reach([fn.entry], avoid=[c.node for c in rel])
        bad = [n for n, _ in fn.exits() if n in r]
        ctx.ob("R06.2", "manager.on_connection_closed/releases-capacity-on-every-path", bool(rel) and not bad, site=fn.site(fn.entry), cfg=fx.cfg)
        for c in rel:
            rs = guards.rootstrs(fn, c.args[1])
            ctx.ob("R06.2", "manager.on_connection_closed/releases-the-closed-connection-id", rs == {"param:_3"}, site=fn.site(c.node), cfg=fx.cfg,
                   detail="roots: %s" % sorted(rs))


def limit_cmp(ctx, fx, fn, rule, name, setf, limf, err_var, side_cut=(), ok_rx=r"^Ok"):
    is_q = lambda f, o: guards.has_root(f, o, r"call:.*HashSet::len$") and (any(
        setf in f.recv(c) for c in f.calls(r"HashSet::len$") if c.dest[0] in _locals_of(f, o)) or
        # (the length bound to a local first and captured by a closure that was spelled out in place)
        (guards.has_root(f, o, r"\." + setf + r"($|[^_a-z])") and not guards.has_root(f, o, r"\.(incoming|outgoing)_connections($|[^_a-z])".replace(setf.split("_")[0], "#"))))
    is_b = lambda f, o: guards.has_root(f, o, r"\." + limf)
    facts = guards.edge_facts(fn, is_q, is_b)
    cmpn = sorted({cn for _, _, _, cn in facts})
    ctx.ob(rule, "%s/%s:comparison-found" % (name, setf), len(cmpn) == 1, site=fn.site(cmpn[0]) if cmpn else "", cfg=fx.cfg,
           detail="comparisons between %s.len() and %s: %d" % (setf, limf, len(cmpn)), nontrivial=False)
    if len(cmpn) != 1:
        return
    errs = [n for n, s in fn.aggregates(r"ConnectionLimitsError$", err_var)]
    # tightness: refusal only on len >= max
    good_ge = {(sw, lab) for sw, lab, rel, cn in facts if rel in guards.IMPLIES[">="]}
    for e in errs:
        r = fn.reach([fn.entry], cut=good_ge)
        ctx.ob(rule, "%s/%s:refuse-only-when-len>=max" % (name, setf), e not in r, site=fn.site(e), cfg=fx.cfg,
               detail="the %s refusal must lie behind an edge implying len >= max (a node below its limit accepts)" % err_var)
    # safety: with the limit configured (and the direction selected) an Ok exit needs len < max
    good_lt = {(sw, lab) for sw, lab, rel, cn in facts if rel in guards.IMPLIES["<"]}
    none_cut = set()
    for sw in fn.discr_switches():
        if limf in "".join(map(str, sw[1])) or limf in fn.origin({"c": list(sw[1])}):
            for lab in fn.variant_edges(sw, "None"):
                none_cut.add((sw[0], lab))
    r = fn.reach([fn.entry], cut=good_lt | none_cut | set(side_cut))
    oks = [n for n, sh in fn.exits(ok_rx) if n in r]
    ctx.ob(rule, "%s/%s:accept-only-when-len<max" % (name, setf), bool(none_cut) and not oks, site=fn.site(cmpn[0]), cfg=fx.cfg,
           detail="Ok exits reachable with %s configured without passing a len < max edge: %s" % (limf, [fn.site(n) for n in oks]))


def _locals_of(fn, o):
    # locals in the backward slice of an operand (cheap: copies only)
    p = o.get("c") or o.get("m")
    if p is None:
        return set()
    out = {p[0]}
    work = [p[0]]
    while work:
        l = work.pop()
        for node, kind, pl in fn.defs().get(l, []):
            if kind == "assign" and pl["rv"]["r"] == "use":
                q = pl["rv"]["o"].get("c") or pl["rv"]["o"].get("m")
                if q is not None and q[0] not in out:
                    out.add(q[0])
                    work.append(q[0])
    return out


def r06_3(ctx, fx):
    fn = ctx.fn(fx, L + "can_accept_connection", "R06.3")
    if fn is not None:
        tests = fn.bool_tests(2)
        ctx.anchor("R06.3", "can_accept_connection: branch on is_listener", len(tests), 1, cfg=fx.cfg)
        if tests:
            # the parameter is immutable: every test of it (also `!is_listener`, `is_listener && ..`) decides the same direction
            limit_cmp(ctx, fx, fn, "R06.3", "can_accept_connection", "incoming_connections", "max_incoming_connections", "MaxIncomingConnectionsExceeded", side_cut=[(sw, f) for sw, t, f in tests])
            limit_cmp(ctx, fx, fn, "R06.3", "can_accept_connection", "outgoing_connections", "max_outgoing_connections", "MaxOutgoingConnectionsExceeded", side_cut=[(sw, t) for sw, t, f in tests])
    fn = ctx.fn(fx, L + "on_incoming", "R06.3")
    if fn is not None:
        limit_cmp(ctx, fx, fn, "R06.3", "on_incoming", "incoming_connections", "max_incoming_connections", "MaxIncomingConnectionsExceeded")
    fn = ctx.fn(fx, L + "on_dial_address", "R06.3")
    if fn is not None:
        limit_cmp(ctx, fx, fn, "R06.3", "on_dial_address", "outgoing_connections", "max_outgoing_connections", "MaxOutgoingConnectionsExceeded")


def r06_4(ctx, fx):
    fn = ctx.fn(fx, "protocol::transport_service::TransportService::on_connection_established", "R06.4")
    if fn is None:
        return
    # stores of a handle: HashMap::insert on .connections (primary) and assignment to `.secondary`
    from common import map_inserts, map_presence_edges
    ins = map_inserts(fn, "connections")
    sec = [n for n, s in fn.assigns() if "".join(s["lhs"][1:]).endswith(".secondary")]
    ctx.anchor("R06.4", "handle stores (primary insert, secondary assign)", min(len(ins), 1) + min(len(sec), 1), 2, cfg=fx.cfg)
    present, absent = map_presence_edges(fn, "connections")
    ctx.anchor("R06.4", "connections.get_mut", min(len(present), len(absent)), 1, cfg=fx.cfg)
    gm = bool(present) and bool(absent)
    if gm:
        for c in ins:
            # the store of a primary handle lies behind the edge on which the peer is known to be absent (get_mut None / Entry::Vacant)
            ctx.ob("R06.4", "TransportService::on_connection_established/primary-insert-only-if-peer-unknown", c.node not in fn.reach([fn.entry], cut=absent), site=fn.site(c.node), cfg=fx.cfg)
        for sw in fn.discr_switches():
            if "".join(map(str, sw[1])).endswith(".secondary"):
                for n in sec:
                    ok = fn.only_via(n, sw[0], fn.variant_edges(sw, "None"))
                    ctx.ob("R06.4", "TransportService::on_connection_established/secondary-store-only-if-slot-free", ok, site=fn.site(n), cfg=fx.cfg,
                           detail="a third connection must not displace the secondary handle")
    # emits ConnectionEstablished only with the primary insert
    ev = [n for n, s in fn.aggregates(r"TransportEvent$", "ConnectionEstablished")]
    for e in ev:
        ok = bool(ins) and e not in fn.reach([fn.entry], avoid=[c.node for c in ins]) or bool(ins) and all(c.node not in fn.reach([fn.entry], avoid=[e]) for c in ins)
        ctx.ob("R06.4", "TransportService::on_connection_established/event-iff-primary-insert", ok, site=fn.site(e), cfg=fx.cfg)


def r06_5(ctx, fx):
    fn = ctx.fn(fx, TM + "on_connection_established", "R06.5")
    if fn is None:
        return
    acc = [c.node for c in fn.calls(r"ConnectionLimits::accept_established_connection$")]
    r = fn.reach([fn.entry], avoid=acc)
    bad = [n for n, sh in fn.exits(r"Accept") if n in r and any("Accept" in s for s in sh)]
    ctx.ob("R06.5", "manager/Accept-implies-counted", bool(acc) and not bad, site=fn.site(fn.entry), cfg=fx.cfg,
           detail="Accept exits reachable without accept_established_connection: %s" % [fn.site(n) for n in bad])


PSM = "transport::manager::peer_state::PeerState::"


def _self_writes(fn):
    out = []
    for n, st in fn.assigns():
        # `*self = ..`, also through the `&mut self` of a helper method that was written out in place (a reborrow of `self`)
        is_self = st["lhs"][:2] == [1, "*"]
        if not is_self and len(st["lhs"]) == 2 and st["lhs"][1] == "*" and fn.rec.get("inlined"):
            whole = [d for d in fn.defs().get(st["lhs"][0], []) if d[1] == "assign" and len(d[2]["lhs"]) == 1]
            is_self = len(whole) == 1 and whole[0][2]["rv"]["r"] == "use" and fn.origin(whole[0][2]["rv"]["o"]).lstrip("&") in ("_1*", "_1")
        if is_self and len(st["lhs"]) == 2:
            sh = fn.shape(st["rv"]["o"]) if st["rv"]["r"] == "use" else {st["rv"].get("var", "?")}
            out.append((n, sh))
    return out


def r06_6(ctx, fx):
    """manager-side two-per-peer shape rules read off PeerState::on_connection_established / on_connection_closed"""
    fn = ctx.fn(fx, PSM + "on_connection_established", "R06.6")
    if fn is not None:
        wr = _self_writes(fn)
        trues = [n for n, sh in fn.ret_sites() if sh == {"const:1"}]
        ctx.anchor("R06.6", "on_connection_established: writes of *self / true exits", min(len(wr), len(trues)), 5, cfg=fx.cfg)
        ctx.ob("R06.6", "PeerState::on_connection_established/true-implies-Connected-written", bool(trues) and all(n not in fn.reach([fn.entry], avoid=[w for w, _ in wr]) for n in trues)
               and all(all(x.startswith("Connected") for x in sh) for _, sh in wr), site=fn.site(fn.entry), cfg=fx.cfg, detail=str(sorted({x for _, sh in wr for x in sh}))[:200])
        ssw = [sw for sw in fn.discr_switches() if sw[2] and sw[2].endswith("SecondaryOrDialing")]
        ctx.anchor("R06.6", "on_connection_established: match on the secondary slot", len(ssw), 1, cfg=fx.cfg)
        bad = []
        for sw in ssw:
            e = fn.variant_edges(sw, "Secondary")
            if set(e) & set(fn.variant_edges(sw, "Dialing")):
                # shared (otherwise) edge: the Dialing case must have been split off before
                pass
            r = fn.reach([n for n, l in fn.succs(sw[0]) if l in e and l not in fn.variant_edges(sw, "Dialing")])
            bad += [fn.site(n) for n in trues if n in r]
        ctx.ob("R06.6", "PeerState::on_connection_established/third-connection-never-accepted", not bad, site=fn.site(fn.entry), cfg=fx.cfg,
               detail="`true` exits reachable with an established secondary connection already stored: %s" % bad)
    fn = ctx.fn(fx, PSM + "on_connection_closed", "R06.6")
    if fn is not None:
        wr = _self_writes(fn)
        dis = [n for n, sh in wr if all(x.startswith("Disconnected") for x in sh)]
        con = [n for n, sh in wr if all(x.startswith("Connected") for x in sh)]
        trues = [n for n, sh in fn.ret_sites() if sh == {"const:1"}]
        falses = [n for n, sh in fn.ret_sites() if sh == {"const:0"}]
        ctx.anchor("R06.6", "on_connection_closed: Disconnected / Connected writes", min(len(dis), len(con)), 2, cfg=fx.cfg)
        ctx.ob("R06.6", "PeerState::on_connection_closed/true-iff-became-Disconnected", bool(trues) and all(n not in fn.reach([fn.entry], avoid=dis) for n in trues)
               and not any(f in fn.reach(dis, after=True) for f in falses), site=fn.site(fn.entry), cfg=fx.cfg,
               detail="`true` (peer disconnected, capacity released, event emitted) exactly on the paths that write Disconnected")
        ctx.ob("R06.6", "PeerState::on_connection_closed/promotion-or-secondary-close-keeps-peer-connected", bool(con) and not any(t in fn.reach(con, after=True) for t in trues), site=fn.site(fn.entry), cfg=fx.cfg)
        eqs = [c for c in fn.calls(r"::eq$")]
        tests = [t for c in eqs for t in fn.bool_tests(c.dest[0])]
        ctx.ob("R06.6", "PeerState::on_connection_closed/state-changes-only-for-a-matching-connection-id", bool(tests) and all(any(fn.only_via(w, sw, [t]) for sw, t, f in tests) for w, _ in wr), site=fn.site(fn.entry), cfg=fx.cfg)


def r06_8(ctx, fx):
    """direction of a QUIC connection: QuicTransport decides dialer vs listener by looking the connection id up in `pending_dials`
    when the connection future resolves.  Every local path that hands a connection to `pending_connections` (dial(), and negotiate()
    for connections opened through open()) records the dialed address in `pending_dials` first - otherwise an outbound connection is
    announced as `Endpoint::Listener`, counted against max_incoming_connections and not against max_outgoing_connections."""
    n = 0
    for key in sorted(fx.find(r"^<transport::quic::QuicTransport as transport::Transport>::(dial|negotiate)$")):
        fn = fx.fn(key)
        push = [c for c in fn.calls(r"FuturesUnordered(<.*>)?::push$|FuturesStream(<.*>)?::push$") if ".pending_connections" in fn.recv(c)]
        ins = [c.node for c in fn.calls(r"HashMap(<.*>)?::insert$") if ".pending_dials" in fn.recv(c)]
        for i, c in enumerate(push):
            n += 1
            ctx.bodies.add((fx.cfg, key))
            ok = bool(ins) and c.node not in fn.reach([fn.entry], avoid=ins)
            ctx.ob("R06.8", "%s/pending_connections.push#%d-after-pending_dials.insert" % (short(key), i), ok, site=fn.site(c.node), cfg=fx.cfg,
                   detail="pending_dials.insert calls in this function: %d" % len(ins))
    ctx.anchor("R06.8", "QuicTransport dial/negotiate hand-overs", n, 2, cfg=fx.cfg)


def run(ctx):
    fx = ctx.facts("default")
    r06_6(ctx, fx)
    r06_1(ctx, fx)
    r06_2(ctx, fx)
    r06_3(ctx, fx)
    r06_4(ctx, fx)
    r06_5(ctx, fx)
    # a counted connection that is discarded before it was announced (failed accept, failed protocol notification) must release its slot:
    # the rollback obligations of R05.2 (stated in rules/C05.py) require TransportManager::on_connection_closed on those paths, which by
    # R06.2 releases the capacity on every path
    import C05
    C05.r05_2(ctx, fx)
    if ctx.tier == "thorough":
        r06_8(ctx, ctx.facts("all"))   # the QUIC transport exists only with the quic feature
