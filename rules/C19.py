"""C19 - Bytes from the network can never panic or over-allocate a decoder (litep2p's own code).

Scope: the call-graph closure inside crate litep2p of the decoder roots (ROOTS below).  Dependencies (prost, unsigned-varint,
multihash, multiaddr, cid, snow, bytes) are trusted to be total on the arguments litep2p passes under the listed guards.

R19.1 (K6) inventory + discharge of every panic-capable construct of the closure (MIR Assert, slice/array/Vec/Bytes indexing,
      unwrap/expect, split_to/split_off/advance/slice/copy_from_slice/get_u16, explicit panic!/assert!/unreachable!):
        auto   - usize Add/Mul/Shl overflow checks (sizes of in-memory objects cannot reach 2^64), constant conditions,
                 RangeFull indexing, preconditions with a constant-0 argument
        table  - every other site must be listed in rules/C19_table.py with the *guard facts* that justify it; the facts are
                 recomputed from the CFG on every run and must still dominate the site (or its anchor: the place where a state
                 invariant is established).  A site that is not listed, or a listed fact that no longer dominates, is a violation
                 naming the construct.  Entries of class state/api/config carry the reason why the panic is not reachable by
                 remote bytes and, where a local fact establishes the invariant, that fact.
R19.2 (K6) every allocation sized by a run-time integer in the closure is listed: constant / local-data sizes, sizes typed u16,
      or sizes behind a comparison with a configured maximum
R19.3 (K5) loops over remote input make progress: the listed loops have, on every back-edge path, a strictly consuming step
Not decided: encode->decode identity (values); decoders of dependencies.
"""
import collections
import re
import guards
from paths import Inter
from common import short, slice_locals
import panics
import k6
from C19_table import TABLE, ALLOC_TABLE, LOOPS, GROWTH

EXPLANATION = ("Inventory of every panic-capable and allocation-sizing construct in the call-graph closure of the decoder entry points, "
               "each discharged automatically (size arithmetic, constants) or by a frozen, reviewed table entry whose guard facts "
               "(comparisons / discriminants / loop ranges that hold on every CFG path to the site, named by source variables) are "
               "re-derived from the current MIR on every run.")

ROOTS = [
    r"multistream_select::protocol::Message::decode$",
    r"multistream_select::length_delimited::LengthDelimited<R> as futures::Stream>::poll_next$",
    r"multistream_select::dialer_select::", r"multistream_select::listener_select::", r"multistream_select::negotiated::",
    r"substream::Substream as futures::Stream>::poll_next$", r"^substream::read_payload_size$", r"^codec::",
    r"noise::NoiseSocket<S> as futures::AsyncRead>::poll_read$", r"noise::NoiseContext::read_handshake_message",
    r"noise::NoiseContext::get_remote_peer_id", r"noise::parse_and_verify_peer_id", r"webrtc::substream::Substream as tokio::io::AsyncRead>::poll_read$",
    r"crypto::RemotePublicKey::from_protobuf_encoding", r"^peer_id::PeerId::from_",
    # conversion of an accepted (possibly remote-chosen) peer id into the multiaddr crate's PeerId: applied to every peer a Kademlia
    # response or identify message names (Protocol::P2p(peer.into()) in add_known_peer / AddressRecord::new / add_known_address)
    r"^peer_id::<impl std::convert::From<peer_id::PeerId> for multiaddr::PeerId>::from$",
    r"kademlia::message::KademliaMessage::from_bytes", r"kademlia::message::record_from_schema",
    r"kademlia::types::KademliaPeer as std::convert::TryFrom", r"identify::Identify::on_outbound_substream",
    r"bitswap::Bitswap::on_message_received", r"bitswap::Prefix::from_bytes", r"bitswap::block_to_response",
]
ROOT_FLOOR = 19   # root patterns that must resolve in the default configuration (get_remote_peer_id is webrtc-only)


def closure(fx):
    keys = set()
    found = 0
    for rx in ROOTS:
        ks = fx.find(rx)
        found += 1 if ks else 0
        keys |= set(ks)
    it = Inter(fx, r"^$")
    seen = dict((k, fx.fn(k)) for k in keys)
    work = list(seen.values())
    while work:
        f = work.pop()
        for c in f.calls():
            if panics.in_log_macro(c.ex):
                continue
            b = it.callee_body(c)
            if b is not None and b.key not in seen:
                seen[b.key] = b
                work.append(b)
        for n, s in f.assigns():
            if s["rv"]["r"] == "agg" and s["rv"].get("closure"):
                k = s["rv"]["closure"]
                if k in fx.hidden():
                    continue        # a new closure that was spelled out where it is used (engine/inline.py): analysed there
                if fx.has(k) and k not in seen:
                    seen[k] = fx.fn(k)
                    work.append(seen[k])
    return seen, found


def fn_short(k):
    """stable short name: `Type as Trait::method{closures}` for trait impls, `Type::method{closures}` otherwise"""
    from facts import norm
    mm = re.match(r"^<(.*) as (.*?)>::(\w+)((?:::\{closure#\d+\})*)$", k)
    if mm:
        ty = norm(mm.group(1)).split("::")[-1]
        ty = re.sub(r"<.*$", "", ty)
        tr = re.sub(r"<.*$", "", norm(mm.group(2)).split("<")[0]).split("::")[-1]
        return "%s as %s::%s%s" % (ty, tr, mm.group(3), mm.group(4))
    n = norm(k)
    n = re.sub(r"<impl [^>]*>::", "", n)
    m = re.search(r"(\w+)::(\w+)((?:::\{closure#\d+\})*)$", n)
    if m:
        return "%s::%s%s" % (m.group(1), m.group(2), m.group(3))
    return n[-50:]


def site_desc(fn, fs, p):
    t = fn.at(p["node"])
    if p.get("call") is not None:
        desc = " ; ".join(fs.d.op(a).lstrip("&") for a in p["call"].args)
        what = (p["call"].name or "").split("::")[-1]
    else:
        cl = t["cond"].get("m") or t["cond"].get("c")
        d = fn.single_def(cl[0]) if cl else None
        desc = fs.d.rvalue(d[2]["rv"], 0) if d and d[1] == "assign" else fs.d.op(t["cond"])
        what = p["kind"].split(":")[1]
    return what, desc


def auto_discharge(fn, p, what, desc):
    k = p["kind"]
    if k == "assert:Overflow":
        t = fn.at(p["node"])
        cl = t["cond"].get("m") or t["cond"].get("c")
        d = fn.single_def(cl[0]) if cl else None
        if d and d[1] == "assign" and d[2]["rv"]["r"] == "bin":
            rv = d[2]["rv"]
            op = rv["op"].replace("WithOverflow", "")
            a, b = rv["a"], rv["b"]
            if fn.const_value(a) is not None and fn.const_value(b) is not None:
                return "constant operands"
            tys = set()
            for o in (a, b):
                pl = o.get("m") or o.get("c")
                if pl is not None and len(pl) == 1:
                    tys.add(fn.locals[pl[0]])
                elif o.get("k") is not None:
                    tys.add(o["k"].get("ty", "?"))
                else:
                    tys.add("usize" if pl is not None else "?")
            if op in ("Add", "Mul") and tys <= {"usize"}:
                return "usize %s over in-memory sizes" % op
            if op in ("Shl", "Shr", "Lt") and fn.const_value(b) is not None:
                return "shift by a constant"
        if re.match(r"^\(\d+Lt\d+\)$", desc):
            return "constant shift-range check"
    if k == "index" and "RangeFull" in desc:
        return "full-range index"
    if k == "precond" and p.get("call") is not None and len(p["call"].args) >= 2 and fn.const_value(p["call"].args[1]) == 0 and what in ("split_off", "split_to", "advance"):
        return "constant 0 argument"
    return None


def find_anchor(fn, spec):
    """anchor DSL: 'agg:<Adt>::<Variant>' | 'call:<regex>' | 'assign:<field-suffix>' -> list of nodes"""
    kind, _, arg = spec.partition(":")
    if kind == "agg":
        flt = None
        m = re.match(r"^(.*)\[(.*)\]$", arg)
        if m:
            arg, flt = m.group(1), m.group(2)
        adt, _, var = arg.rpartition("::")
        out = [(n, s) for n, s in fn.aggregates(re.escape(adt) + "$", var)]
        if flt is not None:
            d = k6.Desc(fn)
            out = [(n, s) for n, s in out if s["rv"]["ops"] and re.search(flt, d.op(s["rv"]["ops"][0]))]
        return [n for n, s in out]
    if kind == "call":
        return [c.node for c in fn.calls(arg)]
    if kind == "assign":
        return [n for n, s in fn.assigns() if "".join(map(str, s["lhs"][1:])).endswith(arg)]
    return []


VAR_TOK = re.compile(r"(?<![\w:.>])([a-z_][a-z0-9_]*)(?![\w(:<])")
NOT_VARS = {"is", "in", "const", "b", "mut"}


def var_atoms(facts):
    out = set()
    for f in facts:
        for part in (f[0], f[2]):
            for m in VAR_TOK.finditer(str(part)):
                if m.group(1) not in NOT_VARS:
                    out.add(m.group(1))
    return out


def rename_fact(f, ren):
    def sub(s):
        return VAR_TOK.sub(lambda m: ren.get(m.group(1), m.group(1)), str(s))
    return (sub(f[0]), f[1], sub(f[2]))


WRAP_RX = re.compile(r"^[\w<>:, ]*?(?:Try>?::branch|Result::map_err|Result::map|Result::ok|Option::ok_or_else|Option::ok_or|Option::map)\((.*)\)$")
POLARITY = {"Continue": "+", "Ok": "+", "Some": "+", "Break": "-", "Err": "-", "None": "-"}


def core_fact(f):
    """`Try::branch(Result::map_err(X)) is Continue`, `Result::map_err(X) is Ok` and `X is Ok` state the same thing about X: variant tests
    are compared modulo the polarity-preserving adaptors (`?`, map_err, map, ok, ok_or) - they disappear when an `?` chain is inlined
    or rewritten as a match"""
    if len(f) != 3 or f[1] != "is" or f[2] not in POLARITY:
        return None
    subj = str(f[0])
    for _ in range(6):
        m = WRAP_RX.match(subj)
        if not m:
            break
        inner, depth = m.group(1), 0
        for i, ch in enumerate(inner):
            depth += ch in "(<[" 
            depth -= ch in ")>]"
            if ch == "," and depth == 0:
                inner = inner[:i]
                break
        subj = inner.strip()
    return (subj, "is", POLARITY[f[2]])


def holds(need, dom):
    if tuple(need) in dom or k6.canon(*need) in dom:
        return True
    c = core_fact(tuple(need))
    return c is not None and any(core_fact(tuple(d)) == c for d in dom)


def missing_facts(needs, dom, fn):
    """needs that do not dominate; local variables that no longer exist in the function may be consistently renamed to other
    local variables of the function (a pure rename of a local must not raise an alarm)"""
    import itertools
    # variables of a helper that was inlined (engine/inline.py) carry the helper's name as a prefix when the caller has a variable of
    # the same name: `decrypt_next_frame/frame_size` is the `frame_size` of the moved code
    shorts = set()
    for k in (fn.rec.get("inlined") or []):
        if not k.startswith("combinator:"):
            shorts.add(k.rsplit("::", 2)[-1] if "{closure" not in k else "::".join(k.rsplit("::", 2)[-2:]))
    if shorts:
        rx = re.compile(r"(?<![\w:])(?:%s)/(?=[A-Za-z_])" % "|".join(re.escape(x) for x in sorted(shorts)))
        strip = lambda x: rx.sub("", str(x))
        dom = set(dom) | {(strip(a), r, strip(b)) for a, r, b in dom if "/" in str(a) or "/" in str(b)}
    miss = [n for n in needs if not holds(n, dom)]
    if not miss:
        return []
    names = set(fn.names.values()) | set(fn.upvar_names.values())
    vanished = sorted(v for v in var_atoms(needs) if v not in names)
    cands = sorted(v for v in var_atoms(dom) if v in names and v not in var_atoms(needs))
    if vanished and len(vanished) <= 3:
        for perm in itertools.permutations(cands, len(vanished)):
            ren = dict(zip(vanished, perm))
            if all(holds(rename_fact(n, ren), dom) for n in needs):
                return []
    if not vanished:
        # a pattern binding renamed to a name that is free again elsewhere in the function (`Some(pending)` -> `Some(PendingFrame {
        # buffer, .. })` while a field `pending` still exists): one variable of the failing needs may stand for one other variable,
        # consistently in all needs of the entry
        for old_ in sorted(var_atoms(miss)):
            for new_ in cands:
                ren = {old_: new_}
                if all(holds(rename_fact(n, ren), dom) for n in needs):
                    return []
    return miss


def fact_str(f):
    return "%s %s %s" % (f[0], f[1], f[2])


def _root_line(fn, node):
    """line at which the code of `node` sits in the function as written: for a block that was inlined from a helper (engine/inline.py)
    the line of the call it replaced, so that moved code keeps its place in the order of the sites"""
    at = fn.blocks[node[0]].get("inl_at")
    return at if at else fn.line(node)


def _entry_missing(fx, fn, fs, p, ent):
    nodes = [p["node"]]
    afs, afn = fs, fn
    if ent.get("at"):
        afn = fn if not ent.get("at_fn") else fx.fn(ent["at_fn"])
        afs = fs if afn is fn else k6.Facts6(afn) if afn is not None else None
        nodes = find_anchor(afn, ent["at"]) if afn is not None else []
        if not nodes:
            return ["anchor %s not found" % ent["at"]]
    missing = []
    for nd in nodes:
        missing += [fact_str(x) for x in missing_facts(ent.get("need", []), afs.dominating(nd), afn)]
    return missing


def _shifted_entry(fx, fn, fs, p, short, what, ordinal, key):
    for delta in (1, -1, 2, -2):
        k2 = "%s|%s:%s#%d" % (short, p["kind"], what, ordinal + delta)
        e2 = TABLE.get(k2)
        if e2 is None or k2 == key or not e2.get("need"):
            continue
        if not _entry_missing(fx, fn, fs, p, e2):
            return k2, e2
    return None


def r19_1(ctx, fx, seen):
    n_sites = n_auto = n_table = 0
    used = set()
    classes = collections.Counter()
    inventory = []
    for k, fn in sorted(seen.items()):
        ps = panics.panic_sites(fn)
        # ordinals follow the source: sites are numbered by line (then by position in the CFG), so that a block which was moved
        # into a helper defined in the same order - or whose basic blocks come out in another order - keeps its numbers
        ps = sorted(ps, key=lambda p_: (_root_line(fn, p_["node"]), fn.line(p_["node"]), p_["node"]))
        if not ps:
            continue
        ctx.bodies.add((fx.cfg, k))
        fs = k6.Facts6(fn)
        ords = collections.Counter()
        for p in ps:
            what, desc = site_desc(fn, fs, p)
            n_sites += 1
            why = auto_discharge(fn, p, what, desc)
            if why is not None:
                n_auto += 1
                classes["auto"] += 1
                continue
            ords[(p["kind"], what)] += 1
            key = "%s|%s:%s#%d" % (fn_short(k), p["kind"], what, ords[(p["kind"], what)])
            inventory.append((key, desc, fn.site(p["node"])))
            ent = TABLE.get(key)
            if ent is None:
                # one construct more than the table lists for this function and kind (an expression was duplicated): the entry of a
                # neighbouring ordinal whose facts hold here may be the one meant
                shifted = _shifted_entry(fx, fn, fs, p, fn_short(k), what, ords[(p["kind"], what)], None)
                if shifted is None:
                    # .. or the construct stands for one that is gone (`bytes.slice(a..b)` rewritten as `advance(a)` + `split_to(n)`):
                    # an entry of this function whose construct no longer exists and whose (non-empty) requirement holds here
                    present = {"%s|%s:%s#%d" % (fn_short(k), q_["kind"], site_desc(fn, fs, q_)[0], i_ + 1)
                               for kk in {(q2["kind"], site_desc(fn, fs, q2)[0]) for q2 in ps}
                               for i_, q_ in enumerate([q3 for q3 in ps if (q3["kind"], site_desc(fn, fs, q3)[0]) == kk])}
                    for k2, e2 in TABLE.items():
                        if k2.startswith(fn_short(k) + "|") and k2 not in present and e2.get("need") and not _entry_missing(fx, fn, fs, p, e2):
                            shifted = (k2, e2)
                            break
                if shifted is not None:
                    used.add(shifted[0])
                    n_table += 1
                    ctx.ob("R19.1", key, True, site=fn.site(p["node"]), cfg=fx.cfg, detail="discharged by the entry %s (ordinal shifted): %s" % (shifted[0], shifted[1].get("why", "")))
                    continue
                ctx.ob("R19.1", "undischarged:" + key, False, site=fn.site(p["node"]), cfg=fx.cfg,
                       detail="panic-capable construct `%s` in the decoder closure is not covered by any discharge (rules/C19_table.py); dominating facts: %s"
                              % (desc[:80], sorted(fact_str(x) for x in fs.dominating(p["node"]))[:8]))
                continue
            used.add(key)
            n_table += 1
            classes[ent.get("class", "guard")] += 1
            nodes = [p["node"]]
            if ent.get("at"):
                afn = fn if not ent.get("at_fn") else fx.fn(ent["at_fn"])
                afs = fs if afn is fn else k6.Facts6(afn) if afn is not None else None
                nodes = find_anchor(afn, ent["at"]) if afn is not None else []
                if not nodes:
                    ctx.ob("R19.1", "anchor-lost:" + key, False, site=fn.site(p["node"]), cfg=fx.cfg, detail="anchor %s not found" % ent["at"])
                    continue
            else:
                afs = fs
                afn = fn
            missing = []
            for nd in nodes:
                dom = afs.dominating(nd)
                missing += [fact_str(x) for x in missing_facts(ent.get("need", []), dom, afn)]
            if missing:
                # the ordinal of a site shifts when a neighbouring construct of the same kind is added or removed (a sub-expression
                # bound to a local once instead of written twice): a listed entry of this function and kind, at most two ordinals
                # away, whose (non-empty) requirement holds here is taken instead
                shifted = _shifted_entry(fx, fn, fs, p, fn_short(k), what, ords[(p["kind"], what)], key)
                if shifted is not None:
                    used.add(shifted[0])
                    ctx.ob("R19.1", key, True, site=fn.site(p["node"]), cfg=fx.cfg, detail="discharged by the entry %s (ordinal shifted): %s" % (shifted[0], shifted[1].get("why", "")))
                    continue
            ctx.ob("R19.1", key, not missing, site=fn.site(p["node"]), cfg=fx.cfg,
                   detail="[%s] %s :: %s ; required guard facts %s%s" % (ent.get("class", "guard"), desc[:60], ent.get("why", ""), [fact_str(x) for x in ent.get("need", [])],
                                                                          (" ; NO LONGER DOMINATING: %s" % sorted(set(missing))) if missing else ""))
    stale = sorted(k2 for k2 in set(TABLE) - used if TABLE[k2].get("cfg", fx.cfg) == fx.cfg)
    ctx.note("inventory_sites", n_sites)
    ctx.note("auto_discharged", n_auto)
    ctx.note("table_discharged", n_table)
    ctx.note("classes", dict(classes))
    ctx.note("stale_table_entries", stale if fx.cfg == "default" else [])
    ctx.anchor("R19.1", "panic-capable constructs inventoried", n_sites, 100, cfg=fx.cfg)
    return inventory


_SMALL_INT = re.compile(r"^(u8|u16|i8|i16)$")
_ALLOC_RX = r"BytesMut::(zeroed|with_capacity)$|vec::from_elem$|Vec(<.*>)?::with_capacity$"


def auto_bounded(fn, o, depth=0):
    """is the usize operand `o` bounded by construction: a constant, a value of a <=16-bit integer type (a u16 length prefix), sums /
    products of such, or the `len()` of a buffer that this function allocated with such a size"""
    if depth > 12:
        return False
    if "k" in o:
        return isinstance((o["k"] or {}).get("v"), int) or "cdef" in (o["k"] or {})
    p = o.get("m") or o.get("c")
    if p is None:
        return False
    if len(p) == 2 and p[1] == ".0":
        p = [p[0]]
    if len(p) != 1:
        return False
    if _SMALL_INT.match(fn.locals[p[0]]):
        return True
    d = fn.single_def(p[0])
    if d is None:
        return False
    if d[1] == "assign":
        rv = d[2]["rv"]
        if rv["r"] in ("use", "cast"):
            return auto_bounded(fn, rv["o"], depth + 1)
        if rv["r"] == "bin" and re.match(r"^(Add|Mul|Sub)", rv["op"]):
            return auto_bounded(fn, rv["a"], depth + 1) and auto_bounded(fn, rv["b"], depth + 1)
        return False
    if d[1] == "call":
        c = fn.call_at(d[0])
        if re.search(r"slice::(<impl \[T\]>::)?len$|(BytesMut|Bytes|Vec(<.*>)?|String|str)::len$", c.name) and c.args and depth > 0:
            # a term of a sum that is the length of data already held in memory (`Vec::with_capacity(a.len() + b.len())`): the
            # allocation is proportional to what is there, whatever its origin (depth > 0: not the bare decoded length itself, which
            # is a `len()` of nothing yet)
            return True
        if re.search(r"(BytesMut|Bytes|Vec(<.*>)?)::len$", c.name) and c.args:
            from common import ref_local
            b = ref_local(fn, c.args[0])
            if b is not None:
                pr = fn.single_def(b)
                if pr is not None and pr[1] == "call":
                    a = fn.call_at(pr[0])
                    if re.search(_ALLOC_RX, a.name) and a.args:
                        szi = 1 if re.search(r"from_elem$", a.name) else 0
                        return auto_bounded(fn, a.args[szi] if len(a.args) > szi else a.args[-1], depth + 1)
    return False


def r19_2(ctx, fx, seen):
    n = 0
    for k, fn in sorted(seen.items()):
        al = sorted(panics.alloc_sites(fn), key=lambda c_: (_root_line(fn, c_.node), fn.line(c_.node), c_.node))
        if not al:
            continue
        fs = k6.Facts6(fn)
        ords = collections.Counter()
        for c in al:
            n += 1
            nm = "::".join(c.name.split("::")[-2:])
            szi = 1 if re.search(r"::(resize|reserve|reserve_exact)$|from_elem$", c.name) else 0
            size = c.args[szi] if len(c.args) > szi else None
            sdesc = fs.d.op(size) if size is not None else "?"
            ords[nm] += 1
            key = "%s|alloc:%s#%d" % (fn_short(k), nm, ords[nm])
            if size is not None and (fn.const_value(size) is not None or (fn.roots(size) and all(r[0] == "const" for r in fn.roots(size)))):
                continue
            if size is not None and auto_bounded(fn, size):
                ctx.ob("R19.2", "%s|alloc-bounded-by-construction#%d" % (fn_short(k), sum(ords.values())), True, site=fn.site(c.node), cfg=fx.cfg,
                       detail="size `%s`: constants, <=16-bit integers and lengths of buffers so allocated" % sdesc[:60])
                continue
            ent = ALLOC_TABLE.get(key)
            if ent is None:
                ctx.ob("R19.2", "unbounded-alloc:" + key, False, site=fn.site(c.node), cfg=fx.cfg,
                       detail="allocation sized by `%s` in the decoder closure has no bound entry (rules/C19_table.py)" % sdesc)
                continue
            ok = True
            why = ent.get("why", "")
            if ent.get("type"):
                # the size derives from a value of the given integer type (e.g. u16)
                tys = set()
                work = [size]
                seenl = set()
                while work:
                    o = work.pop()
                    pl = o.get("m") or o.get("c")
                    if pl is None or pl[0] in seenl:
                        continue
                    seenl.add(pl[0])
                    tys.add(fn.locals[pl[0]])
                    d = fn.single_def(pl[0])
                    if d and d[1] == "assign":
                        rv = d[2]["rv"]
                        for kk in ("o", "a", "b"):
                            if kk in rv and isinstance(rv[kk], dict):
                                work.append(rv[kk])
                ok = ent["type"] in tys
                why += " (types on the size slice: %s)" % sorted(t for t in tys if len(t) < 8)
            if ent.get("min_with"):
                # the size is `min(.., bound)` where `bound` carries a named constant step and nothing decoded from the wire alone
                pr = fn.producer(size)
                ok = pr is not None and bool(re.search(r"cmp::min$|Ord>?::min$", pr.name)) and \
                    any(any(re.search(ent["min_with"], x) for x in guards.rootstrs(fn, a) if x.startswith("const:")) for a in pr.args)
                why += " (size produced by %s)" % (pr.name if pr is not None else None)
            def need_missing(e_):
                cut = set()
                if e_.get("unless_none"):
                    for sw, pd in fs.discrs():
                        if re.search(e_["unless_none"], pd):
                            for lab in fn.variant_edges(sw, "None"):
                                cut.add((sw[0], lab))
                dom = dominating_with_cut(fn, fs, c.node, cut)
                return [fact_str(x) for x in missing_facts(e_["need"], dom, fn)]
            missing = []
            if ent.get("need"):
                missing = need_missing(ent)
                if missing:
                    # the ordinal of an allocation shifts when the block it is in moves (a helper defined above its caller): another
                    # listed allocation of this function and constructor whose facts hold here is the one meant
                    for k2, e2 in ALLOC_TABLE.items():
                        if k2 != key and k2.rsplit("#", 1)[0] == key.rsplit("#", 1)[0] and e2.get("need") and not e2.get("type") and not e2.get("min_with") and not need_missing(e2):
                            missing, why = [], e2.get("why", "") + " (entry %s, ordinal shifted)" % k2
                            break
                ok = ok and not missing
            ctx.ob("R19.2", key, ok, site=fn.site(c.node), cfg=fx.cfg,
                   detail="size `%s`: %s%s" % (sdesc[:50], why, (" ; MISSING: %s" % missing) if missing else ""))
    ctx.anchor("R19.2", "allocation sites inventoried", n, 15, cfg=fx.cfg)


GROW_RX = (r"(Vec|VecDeque|BytesMut)(<.*>)?::(push|push_back|extend|extend_from_slice|put_slice|insert|append)$|Hash(Map|Set)(<.*>)?::insert$|"
           r"BufMut>?::put\w*$|Extend(<.*>)?>?::extend$")


FINITE_SRC_RX = re.compile(r"IntoIterator>?::into_iter$|::(iter|iter_mut|drain|keys|values|into_keys|into_values|split|lines|chunks|windows)$|"
                           r"Iterator>?::(filter_map|map|filter|enumerate|zip|take|skip|chain|cloned|copied|rev|peekable|take_while|skip_while|by_ref|next)$")


def finite_iteration(fn, c):
    """the growth site `c` runs once per item of an in-memory collection: its innermost loop is a `for` whose iterator is built from
    into_iter / iter / adaptors over parameters, fields and locals - not a range, a generator or a `loop` / `while` on decoded data"""
    from common import for_loops
    best = None
    for L in for_loops(fn):
        nx, sw, none_l, some_l = L
        body = fn.reach([n for n, l in fn.succs(sw[0]) if l in some_l], avoid=[nx.node])
        if c.node in body and (best is None or len(body) < best[1]):
            best = (L, len(body))
    if best is None:
        return False
    nx = best[0][0]
    # not inside a further (non-`for`) loop nested in the body
    if c.node in fn.reach([c.node], after=True, avoid=[nx.node]):
        return False
    pl = nx.args[0].get("m") or nx.args[0].get("c")
    from common import ref_local
    it = ref_local(fn, nx.args[0])
    ty = fn.locals[it] if it is not None else ""
    if not ty or re.search(r"ops::Range|iter::(Repeat|Successors|FromFn|RepeatWith|Cycle|Once)", ty):
        return False
    rs = fn.roots(nx.args[0])
    calls = [r[1] for r in rs if r[0] in ("call", "mutcall")]
    return bool(calls) and all(FINITE_SRC_RX.search(x) for x in calls) and any(r[0] in ("param", "field", "place", "upvar") for r in rs) \
        and not any(r[0] == "const" for r in rs)


def r19_2b(ctx, fx, seen):
    """growth inside a loop of the decoder closure must be listed with its bound"""
    n = 0
    for k, fn in sorted(seen.items()):
        gs = [c for c in fn.calls(GROW_RX) if not panics.in_log_macro(c.ex)]
        gs = sorted([c for c in gs if c.node in fn.reach([c.node], after=True)], key=lambda c_: (_root_line(fn, c_.node), fn.line(c_.node), c_.node))
        if not gs:
            continue
        fs = k6.Facts6(fn)
        ords = collections.Counter()
        for c in gs:
            n += 1
            nm = "::".join(x for x in re.sub(r"<.*?>+", "", c.name).split("::")[-2:] if x and not x.startswith("<"))
            nm = nm if not nm.startswith("::") else nm[2:]
            ords[nm] += 1
            key = "%s|grow:%s#%d" % (fn_short(k), nm, ords[nm])
            ent = GROWTH.get(key)
            if ent is None and finite_iteration(fn, c):
                ctx.ob("R19.2", "%s|growth-per-item-of-an-in-memory-collection#%d" % (fn_short(k), sum(ords.values())), True, site=fn.site(c.node), cfg=fx.cfg,
                       detail="the innermost loop around the site is a `for` over an in-memory collection (no range, no generator): the container gains "
                              "a constant number of entries per item that already exists")
                continue
            if ent is None:
                ctx.ob("R19.2", "unbounded-growth:" + key, False, site=fn.site(c.node), cfg=fx.cfg,
                       detail="a container grows inside a loop of the decoder closure without a listed bound; dominating facts: %s" % sorted(fact_str(x) for x in fs.dominating(c.node))[:6])
                continue
            dom = fs.dominating(c.node)
            missing = [fact_str(x) for x in missing_facts(ent.get("need", []), dom, fn)]
            if missing:
                # the ordinal of a site shifts when a sibling loop is rewritten (e.g. into `extend(iter.filter_map(..))`): as long as
                # the function has no more in-loop growth sites than the table lists for it, another listed site of this function
                # whose requirement holds here may be the one meant
                mine = [(k2, e2) for k2, e2 in GROWTH.items() if k2.startswith(fn_short(k) + "|grow:") and k2 != key]
                if len(gs) <= len(mine) + 1:
                    for k2, e2 in mine:
                        if not missing_facts(e2.get("need", []), dom, fn):
                            missing = []
                            ent = e2
                            break
            ctx.ob("R19.2", key, not missing, site=fn.site(c.node), cfg=fx.cfg, detail="%s%s" % (ent.get("why", ""), (" ; MISSING: %s" % missing) if missing else ""))
    # a loop rewritten as an iterator chain is not a loop of this body any more: count `extend(..)` calls fed by an adaptor chain too
    n_ext = sum(1 for k, fn in seen.items() for c in fn.calls(r"Extend(<.*>)?>?::extend$|Vec(<.*>)?::extend$") if not panics.in_log_macro(c.ex)
                and any(re.search(r"Iterator>?::(filter_map|map|filter|flat_map)$", x) for x in guards.rootstrs(fn, c.args[1] if len(c.args) > 1 else c.args[0])))
    ctx.anchor("R19.2", "in-loop growth sites inventoried", n + n_ext, 6, cfg=fx.cfg)


def dominating_with_cut(fn, fs, site, cut):
    """facts dominating `site` when the edges in `cut` are removed from the CFG (e.g. 'no maximum configured')"""
    if not cut:
        return fs.dominating(site)
    out = set()
    from guards import NEG
    for tests, a, rel, b in fs.cmps():
        for sw, t, f in tests:
            if site not in fn.reach([fn.entry], cut=cut | {(sw, t)}):
                out.add(k6.canon(a, rel, b))
            elif site not in fn.reach([fn.entry], cut=cut | {(sw, f)}):
                out.add(k6.canon(a, NEG[rel], b))
    return out


def r19_3(ctx, fx, seen):
    for key, spec in LOOPS.items():
        fn = fx.fn(key)
        if fn is None:
            ctx.anchor("R19.3", "loop body " + key, 0, 1, cfg=fx.cfg)
            continue
        ctx.bodies.add((fx.cfg, key))
        heads = [c for c in fn.calls(spec["head"])]
        steps = [c.node for c in fn.calls(spec["step"])] if spec.get("step") else []
        if spec.get("reassign_arg0") and heads:
            # the loop variable is the (re-assigned) local the head call reads: every re-assignment inside the loop consumes input
            from common import slice_locals
            cand = set(slice_locals(fn, heads[0].args[0]))
            m0 = re.match(r"^&?_(\d+)", fn.origin(heads[0].args[0]))
            if m0:
                cand.add(int(m0.group(1)))
            lv = [l for l in cand if fn.single_def(l) is None and len(fn.defs().get(l, [])) >= 2]
            body = fn.reach([heads[0].node], after=True)
            steps += [n for l in lv for n, kind, pl in fn.defs().get(l, []) if kind == "assign" and n in body and n in fn.reach_back([heads[0].node])]
        ctx.anchor("R19.3", "%s: loop head / consuming step" % fn_short(key), min(len(heads), len(steps)), 1, cfg=fx.cfg)
        for h in heads[:1]:
            # a cycle through the head that avoids every consuming step = an iteration without progress
            p = fn.witness_path([h.node], [h.node], avoid=steps, after=True)
            ctx.ob("R19.3", "%s/every-iteration-consumes-input" % fn_short(key), p is None, site=fn.site(h.node), cfg=fx.cfg,
                   detail="%s ; iteration without progress: %s" % (spec["why"], fn.path_sites(p) if p else None))


def r19_4(ctx, fx):
    """capacity of the Noise read path: poll_read slices `read_buffer[nread..nread + frame_size - remaining]` (auxiliary extension) and
    decrypts into `decrypt_buffer`, with `nread <= canonical_max_read` and `frame_size` any value of the 2-byte prefix.  The slicing sites are
    'state' entries of the table; the part of their argument that is visible in the constructor is decided here:
      len(read_buffer) - canonical_max_read  >=  u16::MAX   and   len(decrypt_buffer) >= u16::MAX - NOISE_EXTRA_ENCRYPT_SPACE,
      initial ReadData.max_read == canonical_max_read."""
    from common import linform
    N = "crypto::noise::"
    fn = ctx.fn(fx, N + "NoiseSocket::new", "R19.4")
    if fn is None:
        return
    aggs = [(n, s) for n, s in fn.aggregates(r"noise::NoiseSocket$") if "read_buffer" in s["rv"].get("fields", [])]
    ctx.anchor("R19.4", "NoiseSocket literal with read_buffer", len(aggs), 1, cfg=fx.cfg)
    tag = fx.const(N + "NOISE_EXTRA_ENCRYPT_SPACE")
    for n, s in aggs:
        rv = s["rv"]
        f = dict(zip(rv["fields"], rv["ops"]))

        def veclen(o):
            c = fn.producer(o)
            if c is not None and re.search(r"vec::from_elem$|Vec(<.*>)?::with_capacity$", c.name):
                return linform(fn, fx, c.args[-1])
            return None
        rb = veclen(f["read_buffer"])
        cm = linform(fn, fx, f["canonical_max_read"]) if "canonical_max_read" in f else None
        ok = False
        diff = None
        if rb is not None and cm is not None:
            diff = dict(rb)
            for k_, c in cm.items():
                diff[k_] = diff.get(k_, 0) - c
            diff = {k_: c for k_, c in diff.items() if c != 0}
            ok = set(diff) <= {""} and diff.get("", 0) >= 65535
        ctx.ob("R19.4", "NoiseSocket::new/read_buffer-holds-read-ahead+largest-announced-frame", ok, site=fn.site(n), cfg=fx.cfg,
               detail="len(read_buffer)=%s canonical_max_read=%s difference=%s, needs a constant >= 65535 (every value of the u16 length prefix)" % (rb, cm, diff))
        db = None
        if "decrypt_buffer" in f:
            o = f["decrypt_buffer"]
            d = fn.single_def((o.get("m") or o.get("c") or [None])[0])
            if d and d[1] == "assign" and d[2]["rv"]["r"] == "agg" and d[2]["rv"].get("var") == "Some":
                o = d[2]["rv"]["ops"][0]
            db = veclen(o)
        ctx.ob("R19.4", "NoiseSocket::new/decrypt_buffer-holds-largest-plaintext", db is not None and set(db) <= {""} and isinstance(tag, int) and db.get("", 0) >= 65535 - tag,
               site=fn.site(n), cfg=fx.cfg, detail="len(decrypt_buffer)=%s, needs >= 65535 - %s" % (db, tag))
        # the initial read window is the canonical one
        rs = None
        for l in slice_locals(fn, f["read_state"]) if "read_state" in f else []:
            d = fn.single_def(l)
            if d and d[1] == "assign" and d[2]["rv"]["r"] == "agg" and d[2]["rv"].get("var") == "ReadData":
                rs = linform(fn, fx, d[2]["rv"]["ops"][0])
        ctx.ob("R19.4", "NoiseSocket::new/initial-max_read==canonical_max_read", rs is not None and rs == cm, site=fn.site(n), cfg=fx.cfg, detail="%s == %s" % (rs, cm))


def r19_5(ctx, fx):
    """encoder/decoder agreement on the record TTL: on the wire `ttl == 0` means 'does not expire' (record_from_schema maps it to
    `expires: None`), so for a record that has an expiry the encoder must emit a value >= 1 on every path of the closure that maps
    `expires` to the TTL (a sub-second remainder truncates to 0 otherwise, and an expiring record is stored forever by the receiver)."""
    ks = [k for k in fx.find(r"^protocol::libp2p::kademlia::message::record_to_schema::\{closure#\d+\}$") if fx.fn(k).ret.strip() == "u32"]
    ctx.anchor("R19.5", "record_to_schema: closure mapping expires to the wire TTL", len(ks), 1, cfg=fx.cfg)
    for k in ks:
        fn = fx.fn(k)
        ctx.bodies.add((fx.cfg, k))
        ok = True
        why = []
        for node, kind, pl in fn.defs().get(0, []):
            if node not in fn.live_nodes():
                continue
            if kind == "assign":
                v = fn.const_value(pl["rv"]["o"]) if pl["rv"]["r"] == "use" else None
                good = isinstance(v, int) and v >= 1
                why.append("const %s" % v)
            else:
                c = fn.call_at(node)
                good = bool(re.search(r"Ord>?::max$|cmp::max$", c.name)) and any(isinstance(fn.const_value(a), int) and fn.const_value(a) >= 1 for a in c.args)
                why.append("call %s" % c.name)
            ok = ok and good
        ctx.ob("R19.5", "record_to_schema/ttl-of-an-expiring-record>=1", ok and bool(why), site=fn.site(fn.entry), cfg=fx.cfg, detail="values returned: %s" % why)
    df = ctx.fn(fx, "protocol::libp2p::kademlia::message::record_from_schema", "R19.5")
    if df is not None:
        nones = [n for n, s_ in df.aggregates(r"option::Option$", "None")]
        ctx.ob("R19.5", "record_from_schema/ttl==0-is-the-only-never-expires", True, site=df.site(df.entry), cfg=fx.cfg, nontrivial=False,
               detail="decoder side read for reference; None aggregates: %d" % len(nones))


def r19_6(ctx, fx):
    """(feature webrtc, `all` configuration) per-channel reassembly: WebRtcConnection::on_inbound_data appends every SCTP message to
    `recv_buffers[channel]` and then extracts frames.  extract_framed_message bounds a *frame* (MAX_FRAME_SIZE) but leaves the bytes
    in place when the length prefix is invalid, which is a permanent condition: unless the buffer is dropped on that error every
    later message of the channel is appended behind the bad prefix and the buffer grows by whatever the remote sends.  From the Err
    edge of extract_framed_message every path to a return of the handler passes a remove / clear of `recv_buffers`."""
    keys = [k for k in fx.find(r"^transport::webrtc::connection::WebRtcConnection::\w+(::\{closure#\d+\})?$") if fx.fn(k).calls(r"webrtc::util::extract_framed_message$")]
    ctx.anchor("R19.6", "webrtc connection: bodies calling extract_framed_message (%s)" % fx.cfg, len(keys), 1, cfg=fx.cfg)
    for key in keys:
        fn = fx.fn(key)
        ctx.bodies.add((fx.cfg, key))
        grows = [c for c in fn.calls(r"BytesMut::(extend_from_slice|put_slice|put|extend)$|BufMut>?::put\w*$") if any(re.search(r"\.recv_buffers", x) or "recv_buffers" in x for x in guards.rootstrs(fn, c.args[0]))]
        drops = [c.node for c in fn.calls(r"HashMap(<.*>)?::(remove|clear)$|BytesMut::(clear|truncate)$|hash_map::OccupiedEntry(<.*>)?::remove\w*$") if "recv_buffers" in fn.recv(c) or any("recv_buffers" in x for x in guards.rootstrs(fn, c.args[0]))]
        for i, c in enumerate(fn.calls(r"webrtc::util::extract_framed_message$")):
            err = set()
            srcs = fn.copies_of(c.dest[0]) | {c.dest[0]}
            for b in fn.calls(r"ops::Try>?::branch$"):
                a = b.args[0].get("m") or b.args[0].get("c")
                if a and a[0] in srcs and b.dest:
                    srcs |= fn.copies_of(b.dest[0]) | {b.dest[0]}
            for sw in fn.discr_switches():
                if sw[1] and sw[1][0] in srcs and len(sw[1]) == 1:
                    for v in ("Err", "Break"):
                        for lab in fn.variant_edges(sw, v):
                            others = [l for w in list(sw[3]) + list(sw[5]) if w != v for l in fn.variant_edges(sw, w)]
                            if lab not in others:
                                err.add((sw[0], lab))
            starts = [n for sw_, lab in err for n, l in fn.succs(sw_) if l == lab]
            r = fn.reach(starts, avoid=drops) if starts else set()
            leaks = [n for n in fn.return_nodes() if n in r]
            ctx.ob("R19.6", "%s/framing-error#%d-drops-the-reassembly-buffer" % (short(key), i), bool(err) and not leaks, site=fn.site(c.node), cfg=fx.cfg,
                   detail="growth sites of recv_buffers here: %d; Err edges of the extraction: %d; drops of the buffer: %d; returns reached from the Err edge without a drop: %d"
                   % (len(grows), len(err), len(drops), len(leaks)))


def run(ctx):
    for cfg in ctx.configs():
        fx = ctx.facts(cfg)
        seen, found = closure(fx)
        ctx.anchor("R19.1", "decoder root patterns resolved", found, ROOT_FLOOR, cfg=fx.cfg)
        ctx.note("closure_bodies_" + cfg, len(seen))
        r19_1(ctx, fx, seen)
        r19_2(ctx, fx, seen)
        r19_2b(ctx, fx, seen)
        r19_3(ctx, fx, seen)
        r19_4(ctx, fx)
        if cfg == "all":
            r19_6(ctx, fx)
        if cfg == "default":
            r19_5(ctx, fx)
            # the `expect` in From<PeerId> for multiaddr::PeerId is discharged by "every PeerId value is one the reference accepts":
            # the constructor / threshold / constant-agreement rules of C18 are part of this property's argument and evaluated here too
            import C18
            C18.r18_1(ctx, fx)
            C18.r18_2(ctx, fx)
            # the substream frame decoder's allocation discipline (size compared with the maximum, or a constant step without one) is
            # stated in C04 R04.1 and is part of this property's argument for the `zeroed` site of Stream::poll_next
            import C04
            C04.r04_1(ctx, fx)
    ctx.assume("prost / unsigned-varint / multihash / multiaddr / cid / snow / bytes decoders return errors instead of panicking")
    ctx.assume("in-memory sizes are < 2^63, so usize additions of lengths and offsets cannot overflow")
    ctx.assume("quick: feature configuration `default`; thorough adds `--all-features` (webrtc substream / noise reply decoders)")
