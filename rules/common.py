"""helpers shared by rule modules"""
import re
from facts import norm
from paths import POLL_RX
from cfg import op_place

SKIP_DESC = re.compile(r"^(std|core|alloc)::(ops|convert|pin|future|task|option|result|clone|fmt|boxed|mem)::|tracing|IntoFuture|from_residual|Try::branch|Pin<|__private_api|log::")


def short(name):
    """last path segments of a def path, closures folded: a::b::Type::method::{closure#0} -> Type::method"""
    if not name:
        return "?"
    n = norm(name)
    n = re.sub(r"(::\{closure#\d+\})+$", "", n)
    parts = n.split("::")
    return "::".join(parts[-2:]) if len(parts) >= 2 else n


def last_local_call(fn, path):
    """short name of the last meaningful call on a witness path (for line-free keys)"""
    best = None
    for node in path:
        if fn.is_term(node) and fn.term(node[0])["k"] == "call":
            c = fn.call_at(node)
            if c is None or c.name is None:
                continue
            if c.from_macro and not c.res:
                continue
            nm = c.res or c.raw_def
            if c.f.get("res_local") or c.f.get("local"):
                best = short(nm)
    return best or "entry"


def exit_desc(fn, node, shapes, path):
    return "exit:%s<-%s" % ("|".join(sorted(shapes)), last_local_call(fn, path))


def find_one(ctx, fx, rule, rx, floor=1, what=None):
    ks = sorted(fx.find(rx))
    ctx.anchor(rule, what or rx, len(ks), floor, cfg=fx.cfg)
    return ks


def trait_impl_bodies(fx, trait_rx, method):
    """bodies implementing `method` of the crate-local trait matching trait_rx"""
    out = []
    for imp in fx.impls_of(trait_rx):
        for name, d in imp["items"]:
            if name == method and fx.has(d):
                out.append(fx.fn(d))
    return out


def may_return_err(fx, bodies):
    """does any of the bodies have an exit whose shape is not Ok-headed"""
    for b in bodies:
        for node, shapes in b.exits():
            for s in shapes:
                if not (s.startswith("Ok") or s.startswith("const") ):
                    return True, "%s exit %s at %s" % (b.key, s, b.site(node))
    return False, ""


def field_calls(fn, rx, field):
    """calls matching rx whose receiver designates a place containing `.field`"""
    return [c for c in fn.calls(rx) if ("." + field) in fn.recv(c)]


def derives_from_field(fn, o, field, depth=0):
    """does operand o designate (through borrows and Entry/Option adaptor calls) a place inside `.field`"""
    if depth > 6:
        return False
    org = fn.origin(o)
    if ("." + field) in org:
        return True
    pr = fn.producer(o)
    if pr is None or not pr.args:
        return False
    if pr.matches(r"Entry.*::(or_default|or_insert|or_insert_with)$|HashMap::(entry|get_mut|get)$|Option::(unwrap|expect|unwrap_or_default)$|Deref(Mut)?>?::deref(_mut)?$|VacantEntry.*::insert$|OccupiedEntry.*::(get_mut|into_mut)$"):
        return derives_from_field(fn, pr.args[0], field, depth + 1)
    return False


def park_nodes(fn, field):
    """nodes that store a value into the map `.field`: HashMap::insert on it, or a Vec::push / VecDeque::push_back /
    HashSet::insert into an element obtained from it (entry(..).or_default().push(..))"""
    out = [c for c in field_calls(fn, r"HashMap::insert$", field)]
    for c in fn.calls(r"(Vec|VecDeque)::(push|push_back)$|HashSet::insert$"):
        if c.args and ("." + field) not in fn.recv(c) and derives_from_field(fn, c.args[0], field):
            out.append(c)
    return out


def loop_discharge_pushes(fn, discharge_nodes):
    """Vec::push into a *local* vector that is later consumed by a loop whose every iteration passes a discharge:
    a deferred discharge.  -> set of push nodes"""
    from paths import refine_cuts, region_uncovered
    out = set()
    for it in fn.calls(r"IntoIterator>?::into_iter$"):
        if not it.args:
            continue
        src = fn.origin(it.args[0])
        m = re.match(r"^&?_(\d+)$", src)
        if not m:
            continue
        loc = int(m.group(1))
        # the iterator's next() call
        nxt = None
        for c in fn.calls(r"Iterator>?::next$"):
            pr = c.args and fn.origin(c.args[0])
            if pr and re.match(r"^&?_%d\b" % it.dest[0], pr):
                nxt = c
        if nxt is None:
            continue
        cuts = refine_cuts(fn, nxt, ["Some", "?"])
        if region_uncovered(fn, nxt.node, discharge_nodes, cuts=cuts) is not None:
            continue
        for p in fn.calls(r"Vec::push$"):
            if re.match(r"^&_%d$" % loc, fn.recv(p)):
                out.add(p.node)
    return out


def removal_discharged(fn, rm, chain, discharge_nodes, allowed_exits=()):
    """K1 for an obligation taken out of a container: every path from the `chain` edge of the removal call to an exit
    passes a discharge; if the removed value is a collection that is iterated, every iteration must discharge and
    the loop must be on every path.  -> list of (exit_node, witness_path) violations"""
    from paths import refine_cuts, region_uncovered
    cuts = refine_cuts(fn, rm, chain)
    dis = set(discharge_nodes) | loop_discharge_pushes(fn, discharge_nodes)
    exits = dict(fn.exits())
    r = fn.reach([rm.node], avoid=dis, cut=cuts, after=True)
    bad = [n for n in exits if n in r and n not in allowed_exits]
    if not bad:
        return []
    # loop form: iteration over the removed collection
    for nx in fn.calls(r"Iterator>?::next$"):
        if nx.node not in fn.reach([rm.node], cut=cuts, after=True):
            continue
        r2 = fn.reach([rm.node], avoid=dis | {nx.node}, cut=cuts, after=True)
        if any(n in r2 for n in bad):
            continue
        c2 = refine_cuts(fn, nx, ["Some", "?"])
        if region_uncovered(fn, nx.node, dis, cuts=c2) is None:
            return []
    return [(n, fn.witness_path([rm.node], [n], avoid=dis, cut=cuts, after=True)) for n in bad]


# ---------------------------------------------------------------------------------------
# value helpers shared by the guard / closure rules

def proj_roots(fn, o):
    """projection strings of the parameter roots of operand o"""
    return {r[2] for r in fn.roots(o) if r[0] == "param"}


def from_field(fn, o, field):
    return any(("." + field) in p for p in proj_roots(fn, o))


def slice_locals(fn, o, depth=0, strict=False):
    """locals reachable backwards from operand o through plain copies/moves.
    strict: follow only once-assigned temporaries (a variable assigned more than once - an accumulator, a loop
    variable - ends the slice), so the result names values, not storage"""
    p = o.get("c") or o.get("m")
    if p is None:
        return set()
    out = {p[0]}
    work = [p[0]]
    while work:
        l = work.pop()
        if strict and fn.single_def(l) is None:
            continue
        for node, kind, pl in fn.defs().get(l, []):
            if kind == "assign" and pl["rv"]["r"] == "use":
                q = pl["rv"]["o"].get("c") or pl["rv"]["o"].get("m")
                if q is not None and len(q) > 1:
                    # a field of a value built by aggregates (the tuple / Result a helper returned): continue with the operand stored
                    res = fn.resolve_fields(q)
                    if res:
                        for o2 in res:
                            r2 = o2.get("c") or o2.get("m")
                            if r2 is not None and r2[0] not in out:
                                out.add(r2[0])
                                work.append(r2[0])
                        continue
                if q is not None and q[0] not in out:
                    out.add(q[0])
                    work.append(q[0])
    return out


def polarity(fn, o, depth=0):
    """(sign, Call) : operand o holds (sign=+1) or the negation of (sign=-1) the boolean result of Call"""
    p = o.get("c") or o.get("m")
    if p is None or len(p) != 1 or depth > 8:
        return None
    d = fn.single_def(p[0])
    if d is None:
        return None
    node, kind, pl = d
    if kind == "call":
        from cfg import Call
        return (1, Call(fn, node, pl))
    if kind == "assign":
        rv = pl["rv"]
        if rv["r"] == "use":
            return polarity(fn, rv["o"], depth + 1)
        if rv["r"] == "un" and rv["op"] == "Not":
            r = polarity(fn, rv["o"], depth + 1)
            return None if r is None else (-r[0], r[1])
    return None


def closure_returns(fn):
    """polarity of the value returned by a small closure body: [(sign, Call)] over all writes of _0"""
    out = []
    for node, kind, pl in fn.defs().get(0, []):
        if node not in fn.live_nodes():
            continue
        if kind == "call":
            from cfg import Call
            out.append((1, Call(fn, node, pl)))
        elif kind == "assign":
            rv = pl["rv"]
            if rv["r"] == "use":
                out.append(polarity(fn, rv["o"]))
            elif rv["r"] == "un" and rv["op"] == "Not":
                r = polarity(fn, rv["o"])
                out.append(None if r is None else (-r[0], r[1]))
            else:
                out.append(None)
    return out


def closure_arg(fn, call, suffix):
    for a in call.args[1:]:
        p = a.get("c") or a.get("m")
        if p is None:
            continue
        for node, kind, pl in fn.defs().get(p[0], []):
            if kind == "assign" and pl["rv"]["r"] == "agg" and suffix in (pl["rv"].get("closure") or ""):
                return True
    return False


def ref_local(fn, o, depth=0):
    """local L such that operand o is `&L` / `&mut L` (through reborrows of once-assigned temporaries), else None"""
    p = o.get("m") or o.get("c")
    if p is None or depth > 6:
        return None
    if len(p) == 1 and not fn.locals[p[0]].startswith("&"):
        return p[0]
    d = fn.single_def(p[0])
    if d is None or d[1] != "assign":
        return None
    rv = d[2]["rv"]
    if rv["r"] == "ref":
        q = rv["p"]
        if len(q) == 1:
            return q[0] if not fn.locals[q[0]].startswith("&") else ref_local(fn, {"c": [q[0]]}, depth + 1)
        if len(q) == 2 and q[1] == "*":
            return ref_local(fn, {"c": [q[0]]}, depth + 1)
        return None
    if rv["r"] in ("use", "cast"):
        return ref_local(fn, rv["o"], depth + 1)
    return None


def matches_tests(fn, sw, variant):
    """bool tests produced by `matches!(x, Variant)` lowering: a bool local assigned `true` only over the `variant` edges of
    discriminant switch `sw` and `false` only over the other edges.  -> [(switch_node, true_label, false_label)]"""
    from cfg import op_place
    vedges = set(fn.variant_edges(sw, variant))
    if not vedges:
        return []
    other = set(l for n, l in fn.succs(sw[0])) - vedges
    r_var = fn.reach([n for n, l in fn.succs(sw[0]) if l in vedges])
    r_oth = fn.reach([n for n, l in fn.succs(sw[0]) if l in other])
    out = []
    for local, ds in fn.defs().items():
        if "bool" != fn.locals[local]:
            continue
        consts = [(node, fn.const_value(pl["rv"]["o"])) for node, kind, pl in ds if kind == "assign" and pl["rv"]["r"] == "use" and pl["rv"]["o"].get("k") is not None]
        if len(consts) != len(ds) or len(consts) < 2:
            continue
        t_nodes = [n for n, v in consts if v == 1]
        f_nodes = [n for n, v in consts if v == 0]
        if not t_nodes or not f_nodes:
            continue
        if all(n in r_var and not fn.only_via(n, sw[0], list(other)) and fn.only_via(n, sw[0], list(vedges)) for n in t_nodes) and \
           all(fn.only_via(n, sw[0], list(other)) for n in f_nodes):
            out += fn.bool_tests(local)
    return out


def linform(fn, fx, o, depth=0):
    """linear form of a usize expression over the function's parameters: {'': const, '<param name>': coeff} or None.
    Follows once-assigned locals through use/copy, `(Add|Sub|Mul)(WithOverflow)` and the `.0` of the checked pair; named constants are
    looked up in the crate's constant table."""
    if depth > 30:
        return None
    k = o.get("k")
    if k is not None:
        if "cdef" in k:
            v = fx.const(k["cdef"])
            return {"": v} if isinstance(v, int) else None
        return {"": k["v"]} if isinstance(k.get("v"), int) else None
    p = op_place(o)
    if p is None:
        return None
    if len(p) == 2 and p[1] == ".0":
        p = [p[0]]
    if len(p) != 1:
        return None
    if 1 <= p[0] <= fn.argc and len(fn.defs().get(p[0], [])) == 0:
        return {fn.names.get(p[0], "_%d" % p[0]): 1}
    d = fn.single_def(p[0])
    if d is not None and d[1] == "call":
        # a clamp of a value (`x.max(1)`, `min(a, b)`) is an opaque symbol: the same clamp of the same arguments is the same value
        c = fn.call_at(d[0])
        m = re.search(r"(?:cmp::|Ord>?::)(max|min)$", c.name)
        if m:
            args = [linform(fn, fx, a, depth + 1) for a in c.args]
            if all(a is not None for a in args):
                return {"%s(%s)" % (m.group(1), ", ".join(sorted(str(sorted(a.items())) for a in args))): 1}
        return None
    if d is None or d[1] != "assign":
        return None
    rv = d[2]["rv"]
    if rv["r"] in ("use", "cast"):
        return linform(fn, fx, rv["o"], depth + 1)
    if rv["r"] == "bin":
        a = linform(fn, fx, rv["a"], depth + 1)
        b = linform(fn, fx, rv["b"], depth + 1)
        if a is None or b is None:
            return None
        op = rv["op"].replace("WithOverflow", "").replace("Unchecked", "")
        if op in ("Add", "Sub"):
            sg = 1 if op == "Add" else -1
            out = dict(a)
            for s_, c in b.items():
                out[s_] = out.get(s_, 0) + sg * c
            return {s_: c for s_, c in out.items() if c != 0 or s_ == ""}
        if op == "Mul":
            ca = a.get("", 0) if set(a) <= {""} else None
            cb = b.get("", 0) if set(b) <= {""} else None
            if ca is not None:
                return {s_: c * ca for s_, c in b.items()}
            if cb is not None:
                return {s_: c * cb for s_, c in a.items()}
        return None
    return None


def local_used(fn, l):
    """nodes that read local l (operand of an rvalue, call argument, switch operand); drops / storage markers do not count"""
    def mentions(x):
        if isinstance(x, dict):
            for k in ("m", "c", "p"):
                v = x.get(k)
                if isinstance(v, list) and v and v[0] == l:
                    return True
            return any(mentions(v) for v in x.values())
        if isinstance(x, list):
            return any(mentions(v) for v in x)
        return False
    out = []
    for node in fn.all_nodes():
        if fn.is_term(node):
            t = fn.term(node[0])
            if t["k"] == "call" and mentions(t.get("args", [])):
                out.append(node)
            elif t["k"] == "switch" and mentions(t.get("o")):
                out.append(node)
        else:
            st = fn.stmt(node)
            if "rv" in st and mentions(st["rv"]):
                out.append(node)
    return out


def for_loops(fn):
    """[(next_call, switch, none_labels, some_labels)] for every `for` loop (Iterator::next in a ForLoop desugaring)"""
    out = []
    for c in fn.calls(r"Iterator>?::next$|::next$"):
        # `for` desugaring, or any `while let Some(x) = it.next()` form: the call sits on a cycle of the CFG
        if not (c.ex and any(e == "d:ForLoop" for e in c.ex)) and c.node not in fn.reach([c.node], after=True):
            continue
        for sw in fn.discr_switches():
            if sw[1] and c.dest and sw[1][0] == c.dest[0] and len(sw[1]) == 1:
                out.append((c, sw, fn.variant_edges(sw, "None"), fn.variant_edges(sw, "Some")))
    return out


def loop_left_early(fn, loop):
    """a node of the code after the loop (a call, or a write of the return place) that the loop body reaches without asking the
    iterator again: `break` (or an equivalent jump) leaves the remaining items unprocessed.  None if there is no such node."""
    c, sw, none_l, some_l = loop
    after = fn.reach([n for n, l in fn.succs(sw[0]) if l in none_l])
    body = fn.reach([n for n, l in fn.succs(sw[0]) if l in some_l], avoid=[c.node])
    for n in sorted(after & body):
        if fn.is_term(n):
            t = fn.term(n[0])
            if t["k"] == "call" and not fn.call_at(n).from_macro:
                return n
        else:
            st = fn.stmt(n)
            if st.get("lhs") and st["lhs"][0] == 0:
                return n
    return None


def positive(fn, fx, o, depth=0):
    """is the usize operand o provably >= 1: a constant, NonZero::get, max(.., positive), min of positives, copies / casts of such"""
    if depth > 10:
        return False
    k = o.get("k")
    if k is not None:
        if "cdef" in k:
            v = fx.const(k["cdef"])
            return isinstance(v, int) and v >= 1
        return isinstance(k.get("v"), int) and k["v"] >= 1
    p = o.get("m") or o.get("c")
    if not p or len(p) != 1:
        return False
    ds = fn.defs().get(p[0], [])
    if not ds:
        return False
    for node, kind, pl in ds:
        if kind == "call":
            c = fn.call_at(node)
            if re.search(r"num::NonZero(<.*>)?::get$", c.name):
                continue
            if re.search(r"cmp::max$|Ord>?::max$", c.name) and any(positive(fn, fx, a, depth + 1) for a in c.args):
                continue
            if re.search(r"cmp::min$|Ord>?::min$", c.name) and all(positive(fn, fx, a, depth + 1) for a in c.args):
                continue
            return False
        if kind == "assign" and pl["rv"]["r"] in ("use", "cast") and positive(fn, fx, pl["rv"]["o"], depth + 1):
            continue
        return False
    return True


MAP_RX = r"(HashMap|BTreeMap|IndexMap)(<.*>)?"


def map_inserts(fn, field, bulk=False):
    """calls that store a new entry into the map `.field`: `map.insert(k, v)`, or - entry API - `VacantEntry::insert` /
    `Entry::or_insert*` on an entry obtained from `map.entry(k)`"""
    out = [c for c in fn.calls(MAP_RX + r"::insert$") if ("." + field) in fn.recv(c)]
    ent = [c for c in fn.calls(MAP_RX + r"::entry$") if ("." + field) in fn.recv(c)]
    if ent:
        names = {c.name for c in ent}
        for c in fn.calls(r"(VacantEntry|Entry)(<.*>)?::(insert|insert_entry|or_insert|or_insert_with|or_insert_with_key|or_default)$"):
            if c.args and any(("call", n) in fn.roots(c.args[0]) for n in names):
                out.append(c)
    if bulk:
        # `map.extend(iter)`: one insertion per item of the iterator
        out += [c for c in fn.calls(r"Extend(<.*>)?>?::extend$|" + MAP_RX + r"::extend$") if ("." + field) in fn.recv(c)]
    return out


def map_presence_edges(fn, field):
    """(present, absent): CFG edges on which the looked-up key is known to be in / not in the map `.field` - from `get` / `get_mut`
    (Some / None), `contains_key` (true / false) and the entry API (Occupied / Vacant)"""
    present, absent = set(), set()
    for c in fn.calls(MAP_RX + r"::(get|get_mut)$"):
        if ("." + field) not in fn.recv(c) or not c.dest:
            continue
        cp = fn.copies_of(c.dest[0]) | {c.dest[0]}
        for sw in fn.discr_switches():
            if sw[1] and sw[1][0] in cp and len(sw[1]) == 1:
                some, none = fn.variant_edges(sw, "Some"), fn.variant_edges(sw, "None")
                present |= {(sw[0], l) for l in some if l not in none}
                absent |= {(sw[0], l) for l in none if l not in some}
    for c in fn.calls(MAP_RX + r"::contains_key$"):
        if ("." + field) in fn.recv(c) and c.dest:
            for sw, t, f in fn.bool_tests(c.dest[0]):
                present.add((sw, t))
                absent.add((sw, f))
    for c in fn.calls(MAP_RX + r"::entry$"):
        if ("." + field) not in fn.recv(c) or not c.dest:
            continue
        cp = fn.copies_of(c.dest[0]) | {c.dest[0]}
        for sw in fn.discr_switches():
            if sw[1] and sw[1][0] in cp and len(sw[1]) == 1:
                occ, vac = fn.variant_edges(sw, "Occupied"), fn.variant_edges(sw, "Vacant")
                present |= {(sw[0], l) for l in occ if l not in vac}
                absent |= {(sw[0], l) for l in vac if l not in occ}
    return present, absent


def nested_closures(fx, fn):
    """bodies of the closures written inside `fn` - including those of new helpers that were inlined into it (their closures are
    keyed under the helper's path, engine/inline.py)"""
    prefixes = [fn.key] + [k for k in (fn.rec.get("inlined") or []) if not k.startswith("combinator:")]
    out, seen = [], set()
    for pfx in prefixes:
        for k in sorted(fx._raw):
            if k.startswith(pfx + "::{closure#") and k not in seen and k != fn.key and k not in prefixes:
                seen.add(k)
                f = fx.fn(k)
                if f is not None:
                    out.append(f)
    return out


def enum_tests(fn, adt_rx, variant):
    """tests of `x is <variant>` for a field-less enum matching adt_rx, in every spelling: `x == E::V` (PartialEq::eq against the
    constant), `x != E::V`, `matches!(x, E::V)` / `match x { E::V => .. }` (discriminant switch).
    -> [(switch_node, label when x is the variant, label when it is not)]"""
    adt_rx = re.compile(adt_rx) if isinstance(adt_rx, str) else adt_rx
    out = []
    for c in fn.calls(r"::(eq|ne)$"):
        if not any(adt_rx.search(a) for a in c.f.get("args", []) if isinstance(a, str)) and not any(adt_rx.search(fn.locals[(a.get("m") or a.get("c") or [0])[0]]) for a in c.args if (a.get("m") or a.get("c"))):
            continue
        const_v = any((fn.roots(a) and all(r[0] == "const" and r[1].endswith("::" + variant) for r in fn.roots(a))) or
                      {x.lstrip("&") for x in fn.shape(a)} == {variant} for a in c.args)
        if not const_v or not c.dest:
            continue
        for sw, t, f in fn.bool_tests(c.dest[0]):
            out.append((sw, t, f) if c.name.endswith("eq") else (sw, f, t))
    for sw in fn.discr_switches():
        if not (sw[2] and adt_rx.search(sw[2])):
            continue
        ve = fn.variant_edges(sw, variant)
        others = [l for w in list(sw[3]) + list(sw[5]) if w != variant for l in fn.variant_edges(sw, w)]
        ve = [l for l in ve if l not in others]
        if ve and others:
            out.append((sw[0], ve[0], others[0]))
    return out


FUTURE_CTORS = r"mpsc::(bounded::)?Sender(<.*>)?::(send|reserve|reserve_owned|send_timeout|closed)$|oneshot::Sender(<.*>)?::closed$"


def dropped_futures(fn, rx=FUTURE_CTORS):
    """calls that only *create* a future (an `async fn` / a channel `send`) whose result is never used: not awaited, not stored, not
    handed on.  A lazily evaluated future that is dropped does nothing - the message is never sent.  (`let _ = tx.send(x);` without
    `.await` compiles without a warning.)"""
    out = []
    for c in fn.calls(rx):
        if c.from_macro or not c.dest or len(c.dest) != 1:
            continue
        if not local_used(fn, c.dest[0]):
            out.append(c)
    return out


def check_no_dropped_futures(ctx, fx, rule, key_rx, label, floor):
    """obligation `<label>/every-send-future-is-awaited` over the coroutine bodies whose key matches key_rx (see dropped_futures)"""
    n, bad = 0, []
    for key in sorted(fx.find(key_rx)):
        fn = fx.fn(key)
        if fn is None or not fn.is_coroutine:
            continue
        cs = [c for c in fn.calls(FUTURE_CTORS) if not c.from_macro]
        if not cs:
            continue
        n += len(cs)
        ctx.bodies.add((fx.cfg, key))
        for c in dropped_futures(fn):
            bad.append((short(key), fn.site(c.node)))
    ctx.anchor(rule, "channel send futures built in %s" % label, n, floor, cfg=fx.cfg)
    ctx.ob(rule, "%s/every-send-future-is-awaited" % label, not bad, cfg=fx.cfg, site=bad[0][1] if bad else "",
           detail="a future built by a channel send that is dropped without being polled sends nothing: %s" % bad)



def closure_operand(fx, fn, o):
    """Fn of the closure that operand `o` holds (a `{closure}` aggregate assigned once, or the constant of a capture-less closure)"""
    p = o.get("m") or o.get("c")
    key = None
    if p is not None and len(p) == 1:
        for node, kind, pl in fn.defs().get(p[0], []):
            if kind == "assign" and pl["rv"]["r"] == "agg" and pl["rv"].get("closure"):
                key = pl["rv"]["closure"]
    else:
        for r in fn.roots(o):
            if r[0] == "const" and str(r[1]).startswith("fn:") and "{closure#" in str(r[1]):
                key = str(r[1])[3:]
    if key is None:
        return None
    key = fx._alias.get(key, key)
    return fx.fn(key) if fx.has(key) else None


def keeps_iff(cl, call_rx, sign):
    """The closure `cl` is a keep-predicate that keeps an item exactly when `sign` * (the bool call matching call_rx, applied to the
    item) holds - whether it is handed to `filter` / `retain` (returns that bool) or to `filter_map` (returns `cond.then_some(item)` /
    `cond.then(..)`, or `Some(..)` on the edge where the call has that outcome and `None` otherwise).  sign: +1 keep if true, -1 keep
    if false."""
    if cl.ret == "bool":
        rets = closure_returns(cl)
        return bool(rets) and all(r is not None and r[0] == sign and r[1].matches(call_rx) for r in rets)
    if not cl.ret.startswith("std::option::Option"):
        return False
    sites = cl.ret_sites()
    if not sites:
        return False
    ok_any = False
    tests = [(c, sw, t, f) for c in cl.calls(call_rx) if c.dest for sw, t, f in cl.bool_tests(c.dest[0])]
    for node, sh in sites:
        if all(x.startswith("call:") and re.search(r"bool::(<impl bool>::)?(then_some|then)$", x) for x in sh):
            c = cl.call_at(node)
            r = polarity(cl, c.args[0]) if c.args else None
            if r is None or r[0] != sign or not r[1].matches(call_rx):
                return False
            ok_any = True
        elif all(x.startswith("Some") for x in sh):
            if not any(cl.only_via(node, sw, [t if sign == 1 else f]) for c, sw, t, f in tests):
                return False
            ok_any = True
        elif all(x == "None" for x in sh):
            if tests and not any(cl.only_via(node, sw, [f if sign == 1 else t]) for c, sw, t, f in tests):
                return False
        else:
            return False
    return ok_any
