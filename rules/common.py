"""helpers shared by rule modules"""
import re
from facts import norm
from paths import POLL_RX

SKIP_DESC = re.compile(r"^(std|core|alloc)::(ops|convert|pin|future|task|option|result|clone|fmt|boxed|mem)::|tracing|IntoFuture|from_residual|Try::branch|Pin<|__private_api|log::")


def short(name):
    """last path segments of a def path, closures folded: a::b::Type::method::{closure#0} -> Type::method"""
    if not name:
        return "?"
    n = norm(name)
    n = re.sub(r"(::\{closure#\d+\})+$", "", n)
    parts = n.split("::")
    return "::".join(parts[-2:]) if len(parts) >= 2 else n


def last_local_call(fn, path):
    """short name of the last meaningful call on a witness path (for line-free keys)"""
    best = None
    for node in path:
        if fn.is_term(node) and fn.term(node[0])["k"] == "call":
            c = fn.call_at(node)
            if c is None or c.name is None:
                continue
            if c.from_macro and not c.res:
                continue
            nm = c.res or c.raw_def
            if c.f.get("res_local") or c.f.get("local"):
                best = short(nm)
    return best or "entry"


def exit_desc(fn, node, shapes, path):
    return "exit:%s<-%s" % ("|".join(sorted(shapes)), last_local_call(fn, path))


def find_one(ctx, fx, rule, rx, floor=1, what=None):
    ks = sorted(fx.find(rx))
    ctx.anchor(rule, what or rx, len(ks), floor, cfg=fx.cfg)
    return ks


def trait_impl_bodies(fx, trait_rx, method):
    """bodies implementing `method` of the crate-local trait matching trait_rx"""
    out = []
    for imp in fx.impls_of(trait_rx):
        for name, d in imp["items"]:
            if name == method and fx.has(d):
                out.append(fx.fn(d))
    return out


def may_return_err(fx, bodies):
    """does any of the bodies have an exit whose shape is not Ok-headed"""
    for b in bodies:
        for node, shapes in b.exits():
            for s in shapes:
                if not (s.startswith("Ok") or s.startswith("const") ):
                    return True, "%s exit %s at %s" % (b.key, s, b.site(node))
    return False, ""


def field_calls(fn, rx, field):
    """calls matching rx whose receiver designates a place containing `.field`"""
    return [c for c in fn.calls(rx) if ("." + field) in fn.recv(c)]
