#!/usr/bin/env python3
"""audit_prompt.py <Cxx> <worktree> [focus-hint] : prompt text for a defect-hunting sub-agent (reads the UNMODIFIED code and
tries to show that the property is violated today). Used to cross-check the static rules: a confirmed defect that no rule reports is
a gap in the rules (see DESIGN.md section 6)."""
import json, sys
pid, wt = sys.argv[1], sys.argv[2]
hint = sys.argv[3] if len(sys.argv) > 3 else ""
p = [json.loads(l) for l in open('/verif/properties.jsonl') if json.loads(l)['id'] == pid][0]
print(f"""You are auditing the Rust crate paritytech/litep2p (a libp2p-compatible networking library) for EXISTING defects.
Your job: find out whether the CURRENT, unmodified code violates the semantic property below, and if it does, prove it with a
test that fails on the current code for exactly that reason.

Your private scratch copy of the repository is the git worktree at {wt} (already checked out, with a warm
`target/` directory). Work ONLY inside {wt}. Never touch /repo or /verif, and do not read anything under /verif.
The sandbox has no network: always pass `--offline` to cargo (e.g. `cargo test --offline --lib <filter>`).
Do NOT change non-test code under src/ except to add `#[cfg(test)]` tests.

PROPERTY {p['id']}: {p['title']}
{p['statement']}
Quantified over: {p['quantifier']['text']}
Code the property is anchored in: {', '.join(p['anchors']['files'])}

How to work:
 1. Read the anchored code carefully, clause by clause of the property. Look for: state not rolled back on an error path,
    counters that drift, events emitted twice or never, off-by-one in limits, an early return / `?` / `break` that skips
    a required step, a check done after the action it guards, bookkeeping that differs between sibling code paths
    (tcp vs websocket vs quic, inbound vs outbound, first vs second connection), stale entries left in maps, timers that
    are never re-armed, unusual-but-legal inputs (empty lists, exact boundary sizes, duplicate ids, zero limits).
 2. When you have a concrete suspicion, write a focused test that drives the REAL code (unit test in the module's
    `#[cfg(test)]` tests, or an integration test under tests/) and FAILS on the current code because the property is violated.
    A test that merely asserts an internal detail you dislike does not count: the assertion must be a consequence of the property text.
 3. Be honest. Behaviour that the existing tests deliberately assert, documented limitations, and clauses that hold are NOT
    findings. If after a serious effort (several distinct suspicions examined) you find nothing, say so.
 {hint}

Deliverables (write them into {wt}/_audit/):
  - finding.md : for each confirmed defect: the clause violated, the exact scenario (inputs / interleaving / fault), file and
                 function of the faulty code and why it is wrong, the test name and the exact command, and the observed failure
                 message. Also list the suspicions you examined and rejected, with one line of reason each.
  - demo.diff  : `git diff` of the failing test(s) only (must apply with `git apply` on a clean checkout).
  - (optional) fix.diff : a minimal repair that makes your test pass and keeps `cargo test --offline --lib` green.
In your final answer, summarise in 5-12 lines: defect found or not, where, how it manifests, test name and command.
Do not ask questions; make your own decisions.""")
