#!/usr/bin/env python3
"""mut.py <prop[,prop..]> <file-relative-to-repo> <old> <new> [--tier thorough] [--nth N]
   mut.py --patch <file.diff> <prop[,prop..]> [--tier ..]

Checker self-test helper: applies ONE textual edit (exact substring `old`, which must occur exactly once unless --nth is given)
or a patch to a scratch worktree of /repo HEAD (under /tmp/wt/mutbase, reused and reset), runs the checks against it
(LPV_REPO) and prints the violation keys that appear with the edit.  Exit 0 = caught (new violation), 1 = missed,
2 = analysis error (does not compile)."""
import os
import re
import subprocess
import sys

VERIF = os.path.dirname(os.path.dirname(os.path.abspath(__file__)))
WT = os.environ.get("MUT_WT", "/tmp/wt/mutbase")


def sh(*a, **k):
    return subprocess.run(a, stdout=subprocess.PIPE, stderr=subprocess.STDOUT, text=True, **k)


def ensure_wt():
    os.makedirs(os.path.dirname(WT), exist_ok=True)
    if not os.path.isdir(os.path.join(WT, "src")):
        r = sh("git", "-C", "/repo", "worktree", "add", "--detach", WT, "HEAD")
        if r.returncode != 0:
            print(r.stdout)
            sys.exit(2)
    sh("git", "-C", WT, "checkout", "-q", "--detach", sh("git", "-C", "/repo", "rev-parse", "HEAD").stdout.strip())
    sh("git", "-C", WT, "checkout", "-q", "--", ".")


def run_checks(props, tier):
    out = {}
    for p in props:
        env = dict(os.environ, LPV_REPO=WT, VERIF_TIER=tier, LPV_EVIDENCE_DIR="/tmp/wt/mut-evidence")
        r = sh(os.path.join(VERIF, "check"), p, "--tier", tier, env=env, cwd=VERIF)
        keys = set(re.findall(r"key=(\S.*?) site=", r.stdout))
        out[p] = (keys, r.returncode, r.stdout)
    return out


def main():
    a = sys.argv[1:]
    tier = "quick"
    nth = None
    if "--tier" in a:
        i = a.index("--tier")
        tier = a[i + 1]
        del a[i:i + 2]
    if "--nth" in a:
        i = a.index("--nth")
        nth = int(a[i + 1])
        del a[i:i + 2]
    ensure_wt()
    if a[0] == "--patch":
        patch, props = a[1], a[2].split(",")
        r = sh("git", "-C", WT, "apply", os.path.abspath(patch))
        if r.returncode != 0:
            print("PATCH DOES NOT APPLY", r.stdout)
            return 2
    else:
        props, rel, old, new = a[0].split(","), a[1], a[2], a[3]
        path = os.path.join(WT, rel)
        s = open(path).read()
        n = s.count(old)
        if n == 0 or (n > 1 and nth is None):
            print("old text occurs %d times in %s" % (n, rel))
            return 2
        if nth is None:
            s = s.replace(old, new)
        else:
            parts = s.split(old)
            s = old.join(parts[:nth + 1]) + new + old.join(parts[nth + 1:])
        open(path, "w").write(s)
    try:
        res = run_checks(props, tier)
        caught = False
        for p, (keys, rc, out) in res.items():
            if "ANALYSIS-ERROR" in out:
                print("%s: ANALYSIS-ERROR\n%s" % (p, out[-800:]))
                return 2
            print("%s: exit=%d violations=%d" % (p, rc, len(keys)))
            for k in sorted(keys):
                print("   ", k)
            if rc == 1:
                caught = True
        print("CAUGHT" if caught else "MISSED")
        return 0 if caught else 1
    finally:
        sh("git", "-C", WT, "checkout", "-q", "--", ".")


if __name__ == "__main__":
    sys.exit(main())
