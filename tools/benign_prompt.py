#!/usr/bin/env python3
"""benign_prompt.py <Cxx> <worktree> [hint] : prompt text for a sub-agent that writes BEHAVIOUR-PRESERVING refactorings of the code a
property is anchored in. Used to test the checks for false alarms (DESIGN.md section 8.1): every check must stay silent on each of them."""
import json, sys
pid, wt = sys.argv[1], sys.argv[2]
hint = sys.argv[3] if len(sys.argv) > 3 else ""
p = [json.loads(l) for l in open('/verif/properties.jsonl') if json.loads(l)['id'] == pid][0]
print(f"""You are a maintainer of the Rust crate paritytech/litep2p (a libp2p-compatible networking library) doing routine clean-up work.
Your job: write SIX independent, BEHAVIOUR-PRESERVING refactorings of the code named below, of the kind that shows up in ordinary
pull requests. They are used to test a verification tool for false alarms, so the one thing that matters is that each of them leaves
the observable behaviour of the crate exactly as it is - in particular with respect to the property quoted below, which must keep
holding for the same reasons.

Your private scratch copy of the repository is the git worktree at {wt} (already checked out, with a warm `target/` directory).
Work ONLY inside {wt}. Never touch /repo or /verif, and do not read anything under /verif.
The sandbox has no network: always pass `--offline` to cargo.

PROPERTY {p['id']}: {p['title']}
{p['statement']}
Code the property is anchored in: {', '.join(p['anchors']['files'])}

What to produce: six refactorings, EACH touching the functions that implement the property (not comments, not unrelated code), each of
a DIFFERENT kind, chosen from:
  a. extract a block of a long function into a private helper function / method (or inline a small helper into its only caller);
  b. change control-flow form without changing semantics: `match` <-> `if let` / `let else`, nested `if` <-> early return / guard
     clauses, `for` <-> `while let` / iterator adaptors (`filter_map`, `for_each`, `retain`, ...), `?` <-> explicit `match`;
  c. reorder statements or match arms that are independent of each other; bind a sub-expression to a local first (or the reverse);
  d. rewrite a condition into an equivalent one (`a >= b` <-> `!(a < b)` <-> `b <= a`, De Morgan, `is_some()` <-> `matches!`,
     `x.len() == 0` <-> `x.is_empty()`, merge or split `&&` conditions into nested ifs);
  e. rename locals / parameters / private fields / private functions; move a private item to another place in the same module;
  f. replace a library call by an equivalent one (`entry().or_default()` <-> `get_mut` + `insert`, `mem::replace` <-> `mem::take`
     where the default is what was written, `push` + index <-> `extend`, `unwrap_or_else` <-> `match`, `map_or` <-> `match`);
  g. change a private type in a behaviour-neutral way (tuple <-> small struct, `Option<bool>` <-> enum, split a struct field group).
Each refactoring should be substantial enough to be a real commit (typically 10-60 changed lines), and must NOT: change any value,
bound, ordering of externally visible effects, error handling, logging of errors into something else, public API, or tests.
{hint}

For each refactoring N = 1..6:
  1. start from a clean checkout (`git checkout -- . && git clean -fdq -e _benign -e target`), make the change;
  2. `cargo check --offline --lib --tests` must succeed without new warnings that are errors, and the unit tests of the touched
     modules must pass (`cargo test --offline --lib <module path filter>`);
  3. save it: `git diff > _benign/N.diff`, and add to `_benign/README.md` one paragraph: which kind (a-g), which functions, and WHY it
     is behaviour preserving (argue it, in particular for every path relevant to the property).
Finally reset the checkout to clean (keep `_benign/`). Be strict with yourself: if you are not sure a change preserves behaviour on every path,
do not include it - replace it by another one. In your final answer list the six refactorings, one line each.
Do not ask questions; make your own decisions.""")
