#!/bin/bash
# seedcheck_all.sh : re-run every kept seed against the current rules (scratch worktrees under /tmp/wt); prints one line per seed.
cd "$(dirname "$0")/.."
mkdir -p /tmp/wt
fail=0
for d in seeded/*/; do
  id=$(basename "$d")
  props=$(python3 -c "import json,sys; m=json.load(open('$d/meta.json')); print(' '.join(m.get('check_props', [m['property']])))")
  out=$(python3 tools/seedcheck.py "$id" $props 2>&1)
  res=$(echo "$out" | tail -1)
  echo "$res $id $(echo "$out" | grep -c '   NEW') new keys"
  [ "$res" = "CAUGHT" ] || fail=1
done
exit $fail
