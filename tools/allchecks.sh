#!/bin/bash
# allchecks.sh [quick|thorough|both] : run every check; prints only the checks that are not clean. Run after every fix: commit in /repo
# and before every /verif commit (lesson of the C08 false alarm, DESIGN.md section 6).
cd "$(dirname "$0")/.."
tiers=${1:-both}; [ "$tiers" = both ] && tiers="thorough quick"
bad=0
for t in $tiers; do
  for i in $(seq -w 1 20); do
    out=$(./check C$i --tier $t 2>&1); rc=$?
    if [ $rc -ne 0 ] || echo "$out" | grep -q "^VIOLATION"; then echo "C$i $t: exit=$rc"; echo "$out" | grep "key=" | head -5; bad=1; fi
  done
done
[ $bad -eq 0 ] && echo "all checks clean ($tiers)"
exit $bad
