#!/bin/bash
# keep_seed.sh <worktree-name> <seed-id> <property> "<demo cargo args>" "<what it needs to manifest>"
WT="/tmp/wt/$1"; ID="$2"; PROP="$3"; DEMO="$4"; NEEDS="$5"
D="/verif/seeded/$ID"
mkdir -p "$D"
cp "$WT/_mutation/patch.diff" "$D/patch.diff"
cp "$WT/_mutation/demo.diff" "$D/demo.diff"
cp "$WT/_mutation/notes.md" "$D/notes.md"
grep "^RESULT" "$WT/_mutation/verify.log" > "$D/verify_results.txt"
python3 - "$D" "$ID" "$PROP" "$DEMO" "$NEEDS" <<'PY'
import json, sys
d, sid, prop, demo, needs = sys.argv[1:6]
res = dict(l.strip().split()[1].split("=") for l in open(d + "/verify_results.txt"))
json.dump({
  "id": sid, "property": prop,
  "needs_to_manifest": needs,
  "demo_command": "cargo test --offline " + demo,
  "confirmed_by": "tools/verify_seed.sh in a scratch worktree of /repo (removed afterwards)",
  "what_was_run": ["git apply demo.diff; cargo test --offline %s  -> %s (original code)" % (demo, res.get("demo_on_original")),
                   "git apply patch.diff; cargo test --offline %s -> %s (with the change)" % (demo, res.get("demo_with_patch")),
                   "patch only: cargo nextest run --workspace --no-fail-fast --offline -> %s (existing suite)" % res.get("suite_with_patch")],
  "results": res,
  "origin": "independent sub-agent given only the property text and a scratch worktree",
}, open(d + "/meta.json", "w"), indent=1)
PY
cat "$D/verify_results.txt"
