#!/usr/bin/env python3
"""agent_prompt.py <Cxx> <worktree> [variant-hint] : prompt text for a mutation sub-agent"""
import json, sys
pid, wt = sys.argv[1], sys.argv[2]
hint = sys.argv[3] if len(sys.argv) > 3 else ""
p = [json.loads(l) for l in open('/verif/properties.jsonl') if json.loads(l)['id'] == pid][0]
print(f"""You are helping to evaluate a verification effort for the Rust crate paritytech/litep2p (a libp2p-compatible
networking library). Your job: produce ONE realistic, subtle code change to litep2p that BREAKS the semantic property
below, while the crate still compiles and its existing test suite still passes, plus a demonstration that fails with
your change and passes without it.

Your private scratch copy of the repository is the git worktree at {wt} (already checked out, with a warm
`target/` directory). Work ONLY inside {wt}. Never touch /repo or /verif, and do not read anything under /verif.
The sandbox has no network: always pass `--offline` to cargo (e.g. `cargo test --offline --lib <filter>`).

PROPERTY {p['id']}: {p['title']}
{p['statement']}
Quantified over: {p['quantifier']['text']}
Code the property is anchored in: {', '.join(p['anchors']['files'])}

Requirements for the change:
 1. It must break the property above (some clause of it) in the real code, not in a test or mock.
 2. It must still compile, and the existing test suite must still pass:
    `cd {wt} && cargo test --offline --lib` (about 400 unit tests, ~1-2 minutes) and, if you have time, also
    `cargo test --offline --tests`. If an existing test fails with your change, choose a different change.
 3. It must look like a plausible mistake or "refactor"/"optimisation" a maintainer could make (an off-by-one in a
    limit check, a dropped error branch, a state not rolled back, a reordered pair of operations, a cleanup skipped on one
    exit path, a wrong field/variable used, a check moved after the action it guards, ...). Not a blatant sabotage like
    `panic!()` or deleting a whole function.
 4. Prefer a change that needs something SPECIFIC to manifest: a particular interleaving, a fault or error at a particular
    point, a multi-step sequence of operations, an unusual input, or two cooperating sites that each look fine alone -
    not something ordinary use would expose at once (the existing tests must not notice).
 5. Keep it small: a few lines, in `src/` only (non-test code). {hint}

Demonstration: write a new test (preferably a `#[cfg(test)]` unit test added to the relevant module, or an integration
test file under tests/) that FAILS with your change applied and PASSES on the original code. Verify both directions
yourself (use `git stash` / `git diff` to switch). Keep the demonstration in a separate file or clearly separate hunk
from the breaking change.

Deliverables (write them into {wt}/_mutation/):
  - patch.diff : `git diff` of ONLY the breaking change to src/ (must apply with `git apply` on a clean checkout)
  - demo.diff  : `git diff` of ONLY the demonstration test (applies on a clean checkout, independently of patch.diff)
  - notes.md   : which clause is broken, what exactly is needed for it to manifest, the exact commands you ran and
                 their outcome (demo fails with patch, passes without; existing suite passes with patch).
Leave the worktree with both diffs applied. In your final answer, summarise the change in 5-10 lines (file, function,
what was changed, how it manifests, the test name and command). Do not ask questions; make your own decisions.""")
