#!/bin/bash
# keep_finding.sh <worktree-name> <finding-id> [suffix]   (suffix "2" for repro2/fix2)
WT="/tmp/wt/$1/_finding"; ID="$2"; SFX="$3"
D="/verif/findings/$ID"; mkdir -p "$D"
cp "$WT/repro$SFX.diff" "$D/repro.diff"; cp "$WT/fix$SFX.diff" "$D/fix.diff"; cp "$WT/notes.md" "$D/notes.md"
ls -la "$D"
