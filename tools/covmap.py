#!/usr/bin/env python3
"""covmap.py [Cxx ...] : blind-spot map.  For each property, run its check with LPV_DUMP_OBS and list the functions defined in the
property's anchor files (properties.jsonl anchors.files) with the number of obligations whose site lies inside the function's span.
Functions with many basic blocks and zero obligations are candidates for the next rule (or for a seeded change that is missed).
Purely a development aid - not part of any registered check."""
import json, os, subprocess, sys, re
V = os.path.dirname(os.path.dirname(os.path.abspath(__file__)))
sys.path.insert(0, os.path.join(V, "engine"))
import extract
from facts import Facts

props = {json.loads(l)["id"]: json.loads(l) for l in open(os.path.join(V, "properties.jsonl"))}
want = sys.argv[1:] or sorted(props)
fx = Facts(extract.facts_path("default"), "default")
for pid in want:
    dump = "/tmp/covmap-%s.json" % pid
    env = dict(os.environ, LPV_DUMP_OBS=dump, LPV_EVIDENCE_DIR="/tmp/covmap-ev")
    os.makedirs("/tmp/covmap-ev", exist_ok=True)
    subprocess.run([os.path.join(V, "check"), pid, "--tier", "quick"], env=env, stdout=subprocess.DEVNULL)
    obs = json.load(open(dump))
    bysite = {}
    for o in obs:
        m = re.match(r"(.+?):(\d+)", o["site"] or "")
        if m:
            bysite.setdefault(m.group(1), []).append(int(m.group(2)))
    files = props[pid]["anchors"].get("files", [])
    print("== %s  obligations=%d  anchor files=%d" % (pid, len(obs), len(files)))
    rows = []
    for key in fx.fn_keys():
        fn = fx.fn(key)
        f = getattr(fn, "file", None)
        if f not in files:
            continue
        lo, hi = fn.rec["lo"], fn.rec["hi"]
        n = len([l for l in bysite.get(f, []) if lo <= l <= hi])
        rows.append((f, lo, hi, key, len(fn.blocks), n))
    # nested closures: attribute to the outermost too - just print leaf counts
    for f, lo, hi, key, nb, n in sorted(rows):
        if n == 0 and nb >= int(os.environ.get("COV_MINBLOCKS", "25")):
            print("   BLIND %-50s %4d-%-4d blocks=%-4d %s" % (f, lo, hi, nb, key))
