#!/bin/sh
# rmwt.sh <name>: remove scratch worktree and its build output
git -C /repo worktree remove --force "/tmp/wt/$1" 2>/dev/null || rm -rf "/tmp/wt/$1"
git -C /repo worktree prune
