#!/bin/bash
# proc_seed.sh <wt-name> <seed-id> <prop> "<demo cargo args>" "<needs>"
cd "$(dirname "$0")/.."
bash tools/verify_seed.sh /tmp/wt/$1 $2 $4 > /tmp/wt/verify-$1.log 2>&1
bash tools/keep_seed.sh $1 $2 $3 "$4" "$5" >> /tmp/wt/verify-$1.log 2>&1
python3 tools/seedcheck.py $2 >> /tmp/wt/verify-$1.log 2>&1
tail -12 /tmp/wt/verify-$1.log
