#!/usr/bin/env python3
"""selftest.py [--only Cxx] : checker self-validation.

(a) every mutant of selftest/mutants.json (a behaviour-breaking one-line edit that still compiles) must make the named check fail
    with a violation key containing `expect`;
(b) every benign variant selftest/benign/<prop>-*.diff (behaviour-preserving refactor) must leave the check silent.
Uses a scratch worktree of /repo (tools/mut.py), never /repo itself. ~25 s per case."""
import json, os, subprocess, sys, glob
V = os.path.dirname(os.path.dirname(os.path.abspath(__file__)))
only = sys.argv[sys.argv.index("--only") + 1] if "--only" in sys.argv else None
bad = 0
n = 0
for m in json.load(open(os.path.join(V, "selftest", "mutants.json"))):
    if only and m["prop"] != only:
        continue
    n += 1
    r = subprocess.run([sys.executable, os.path.join(V, "tools", "mut.py"), m["prop"], m["file"], m["old"], m["new"]], stdout=subprocess.PIPE, stderr=subprocess.STDOUT, text=True)
    ok = r.returncode == 0 and m["expect"] in r.stdout
    bad += 0 if ok else 1
    print("%s mutant %s %-60s expect %s" % ("ok  " if ok else "FAIL", m["prop"], m["old"].strip()[:60].replace("\n", " "), m["expect"]))
    if not ok:
        print(r.stdout[-600:])
for f in sorted(glob.glob(os.path.join(V, "selftest", "benign", "*.diff"))):
    prop = os.path.basename(f).split("-")[0]
    if only and prop != only:
        continue
    n += 1
    r = subprocess.run([sys.executable, os.path.join(V, "tools", "mut.py"), "--patch", f, prop], stdout=subprocess.PIPE, stderr=subprocess.STDOUT, text=True)
    ok = r.returncode == 1 and "MISSED" in r.stdout
    bad += 0 if ok else 1
    print("%s benign %s %s" % ("ok  " if ok else "FAIL", prop, os.path.basename(f)))
    if not ok:
        print(r.stdout[-600:])
print("selftest: %d cases, %d failed" % (n, bad))
sys.exit(1 if bad else 0)
