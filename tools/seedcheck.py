#!/usr/bin/env python3
"""seedcheck.py <seed-dir-name> [prop ...] : run checks against a scratch worktree of /repo with the seeded change applied.

The patch is applied on /repo's HEAD when it applies there, otherwise on the original snapshot commit (the seeds were written
against it; later `fix:` commits may touch the same lines).  Reports the violation keys that appear only with the patch."""
import json, os, subprocess, sys, tempfile, shutil, re
VERIF = os.path.dirname(os.path.dirname(os.path.abspath(__file__)))
BASE = "9101728"

def sh(*a, **k):
    return subprocess.run(a, stdout=subprocess.PIPE, stderr=subprocess.STDOUT, text=True, **k)

def run_checks(wt, props, tier):
    keys = {}
    for p in props:
        env = dict(os.environ, LPV_REPO=wt, VERIF_TIER=tier, LPV_EVIDENCE_DIR="/tmp/wt/mut-evidence")
        r = sh(os.path.join(VERIF, "check"), p, "--tier", tier, env=env, cwd=VERIF)
        ks = set(re.findall(r"key=(\S+)", r.stdout))
        known = set(re.findall(r"KNOWN-FINDING: property=\S+ (\S+)", r.stdout))
        keys[p] = (ks, known, r.returncode, r.stdout)
    return keys

def main():
    seed = sys.argv[1]
    tier = os.environ.get("SEED_TIER", "quick")
    d = os.path.join(VERIF, "seeded", seed)
    meta = json.load(open(os.path.join(d, "meta.json")))
    props = sys.argv[2:] or [meta["property"]]
    patch = os.path.join(d, "patch.diff")
    # a seed whose original patch no longer applies to the repaired tree may carry the same change ported to HEAD
    ported = os.path.join(d, "patch-head.diff")
    wt = tempfile.mkdtemp(prefix="seedcheck-", dir="/tmp/wt")
    os.rmdir(wt)
    try:
        rev = "HEAD"
        sh("git", "-C", "/repo", "worktree", "add", "--detach", wt, rev)
        if sh("git", "-C", wt, "apply", "--check", patch).returncode != 0 and os.path.exists(ported) and sh("git", "-C", wt, "apply", "--check", ported).returncode == 0:
            patch = ported
        if sh("git", "-C", wt, "apply", "--check", patch).returncode != 0:
            sh("git", "-C", "/repo", "worktree", "remove", "--force", wt)
            rev = BASE
            sh("git", "-C", "/repo", "worktree", "add", "--detach", wt, rev)
        before = run_checks(wt, props, tier)
        a = sh("git", "-C", wt, "apply", patch)
        if a.returncode != 0:
            print("PATCH DOES NOT APPLY", a.stdout)
            return 2
        after = run_checks(wt, props, tier)
        caught = False
        for p in props:
            new = (after[p][0] | after[p][1]) - (before[p][0] | before[p][1])
            gone = (before[p][0] | before[p][1]) - (after[p][0] | after[p][1])
            print("seed=%s rev=%s prop=%s tier=%s exit_before=%d exit_after=%d new_violations=%d" % (seed, rev, p, tier, before[p][2], after[p][2], len(new)))
            for k in sorted(new):
                print("   NEW", k)
            for k in sorted(gone):
                print("   GONE", k)
            if "ANALYSIS-ERROR" in after[p][3]:
                print(after[p][3][-600:])
            caught = caught or bool(new)
        print("CAUGHT" if caught else "MISSED")
        return 0 if caught else 1
    finally:
        sh("git", "-C", "/repo", "worktree", "remove", "--force", wt)
        shutil.rmtree(wt, ignore_errors=True)
        sh("git", "-C", "/repo", "worktree", "prune")

if __name__ == "__main__":
    sys.exit(main())
