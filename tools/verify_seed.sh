#!/bin/bash
# verify_seed.sh <worktree> <seed-id> <cargo test args for the demo...>
# Confirms in the scratch worktree: (1) demo passes on the original code, (2) demo fails with the patch,
# (3) the existing suite (lib + integration tests) passes with the patch alone. Writes <wt>/_mutation/verify.log
WT="$1"; ID="$2"; shift 2
cd "$WT" || exit 2
M="$WT/_mutation"
LOG="$M/verify.log"
: > "$LOG"
git reset -q --hard ; git clean -fdq -e _mutation -e target
git apply "$M/demo.diff" || { echo "demo.diff does not apply" >> "$LOG"; exit 2; }
echo "== demo on original: cargo test --offline $*" >> "$LOG"
if timeout 1500 cargo test --offline "$@" >> "$LOG" 2>&1; then echo "RESULT demo_on_original=PASS" >> "$LOG"; else echo "RESULT demo_on_original=FAIL" >> "$LOG"; fi
git apply "$M/patch.diff" || { echo "patch.diff does not apply on top of demo" >> "$LOG"; exit 2; }
echo "== demo with patch" >> "$LOG"
if timeout 1500 cargo test --offline "$@" >> "$LOG" 2>&1; then echo "RESULT demo_with_patch=PASS" >> "$LOG"; else echo "RESULT demo_with_patch=FAIL" >> "$LOG"; fi
git reset -q --hard ; git clean -fdq -e _mutation -e target
git apply "$M/patch.diff"
echo "== suite with patch only" >> "$LOG"
if timeout 3000 cargo nextest run --workspace --no-fail-fast --test-threads 8 --offline >> "$LOG" 2>&1; then echo "RESULT suite_with_patch=PASS" >> "$LOG"; else echo "RESULT suite_with_patch=FAIL" >> "$LOG"; fi
git reset -q --hard ; git clean -fdq -e _mutation -e target
grep "^RESULT" "$LOG"
