#!/bin/sh
# mkwt.sh <name>: scratch git worktree of /repo under /tmp/wt/<name> with a warm target dir
set -e
N="$1"
git -C /repo worktree add --detach "/tmp/wt/$N" HEAD >/dev/null 2>&1
cp -r /repo/target "/tmp/wt/$N/target"
echo "/tmp/wt/$N"
