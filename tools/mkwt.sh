#!/bin/sh
# mkwt.sh <name>: scratch git worktree of /repo under /tmp/wt/<name> with a warm target dir (without incremental/examples)
set -e
N="$1"
mkdir -p /tmp/wt
git -C /repo worktree add --detach "/tmp/wt/$N" HEAD >/dev/null 2>&1
mkdir -p "/tmp/wt/$N/target"
rsync -a --exclude incremental --exclude examples /repo/target/ "/tmp/wt/$N/target/" 2>/dev/null || true
echo "/tmp/wt/$N"
