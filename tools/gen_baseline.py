#!/usr/bin/env python3
"""gen_baseline.py : (re)write rules/baseline/<cfg>.json from the tree at LPV_REPO (default /repo): the names and signatures the rules were
confirmed against.  Run it after every commit of our own in /repo (fix: commits) - tools/allchecks.sh refuses to run when the baseline does
not describe /repo HEAD's tree exactly (on the unchanged tree the normalisation must be the identity)."""
import json, os, sys
V = os.path.dirname(os.path.dirname(os.path.abspath(__file__)))
sys.path[:0] = [os.path.join(V, "engine")]
import extract, facts as F, normalise

os.makedirs(normalise.BASE_DIR, exist_ok=True)
for cfg in ("default", "all"):
    fx = F.Facts(extract.facts_path(cfg), cfg)
    snap = normalise.snapshot(fx)
    with open(os.path.join(normalise.BASE_DIR, cfg + ".json"), "w") as f:
        json.dump(snap, f, sort_keys=True, separators=(",", ":"))
    print(cfg, len(snap["fns"]), "functions", len(snap["adts"]), "adts")
