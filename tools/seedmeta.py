#!/usr/bin/env python3
"""seedmeta.py <seed-id> <first_result> <caught_by> : record how the checks answered when the seed arrived (before any rule change)
and which rule catches it now."""
import json, sys, os
V = os.path.dirname(os.path.dirname(os.path.abspath(__file__)))
p = os.path.join(V, "seeded", sys.argv[1], "meta.json")
m = json.load(open(p))
m["first_result"] = sys.argv[2]
m["caught_by"] = sys.argv[3]
json.dump(m, open(p, "w"), indent=1)
print("ok", sys.argv[1])
