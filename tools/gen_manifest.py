#!/usr/bin/env python3
"""gen_manifest.py : (re)write /verif/MANIFEST.json from the table below.

A property is *claimed* iff rules/<id>.py exists and the id is in CLAIMS; everything else goes to not_applicable with the
reason given in NA (or a 'not built' reason).  Validates against /root/.vp/MANIFEST.schema.json when jsonschema is importable."""
import json
import os
import sys

VERIF = os.path.dirname(os.path.dirname(os.path.abspath(__file__)))

TRUST = ("Trusted base: rustc nightly front end + MIR construction (mir_built, unwind edges removed), Instance::try_resolve, the "
         "API semantics of std/tokio/futures/snow/prost named by each rule; cfg(test) code is not analysed; feature sets "
         "`default` (quick) and `--all-features` (thorough). Decides the structural necessary conditions listed, not the "
         "value/history-level behaviour (see DESIGN.md section 4 for the clauses not decided).")

CLAIMS = {
    "C01": ("guarded-by + provenance rules on MIR (custom rustc driver)",
            "For every CFG path of the Noise handshake code: no Ok of the identity check without the true edge of the signature "
            "verification; signed message = domain prefix + this session's remote static key; the reported PeerId is derived from the key "
            "that verified; dialed id compared on the Some edge. All paths, all callers - tests sample a few handshakes.", "4/C01"),
    "C02": ("constant-table agreement + return-shape/guard rules on MIR",
            "Frame-length constants agree with the u16 prefix and snow's limits (read from the pinned snow source); plaintext reaches the caller's "
            "buffer only from decrypted data and a decryption error is returned on every path; write accounting and flush ordering hold on all paths.", "4/C02"),
    "C03": ("guarded-by + return-shape rules on MIR",
            "Necessary conditions of agreement/transparency only: the dialer completes only for a confirmation equal to its proposal, the "
            "listener confirms only a requested-and-supported protocol and completes only after flushing it, the WebRTC dialer accepts only "
            "proposed names, and the negotiated stream forwards reads/writes unchanged. First-common-name choice, termination, fragmentation "
            "independence and interop are NOT decided.", "4/C03"),
    "C04": ("bounded-growth guards + sibling agreement on MIR",
            "Receiver allocations sized by a decoded length sit behind the codec's maximum; every transport arm of the senders refuses oversized "
            "payloads before writing; flush completeness return-shape rule.", "4/C04"),
    "C05": ("must-pass-through / exactly-one-of pairing rules on MIR",
            "Commit-or-rollback after the peer record says 'dialing', exactly one accept/reject per negotiated connection, un-tracking a dial "
            "implies a PeerState transition, failure events only over the consuming transition - on every CFG path of TransportManager.", "4/C05"),
    "C06": ("who-may + guarded-by + comparison-strictness rules on MIR",
            "Counted sets grow at one guarded site per direction, shrink on every close path, limit comparisons refuse exactly at len >= max; "
            "two-connections-per-peer shape rules.", "4/C06"),
    "C07": ("interprocedural must-pass-through with exit-shape summaries on MIR",
            "Every exit of every transport's connection loop passes the close report; the manager notification is on every path of "
            "report_connection_closed after the protocol fan-out; fan-out loops have no early exit.", "4/C07"),
    "C08": ("pairing + provenance rules on MIR",
            "Connection events coincide with map insert/remove in TransportService; substream ids come from one shared counter; failure reports carry "
            "the id of the originating command.", "4/C08"),
    "C09": ("call-site constant table + guard/provenance rules + pending-has-waker on MIR",
            "Keep-alive flag per built-in protocol equals the property's table; activity tracking/upgrade/lifetime permit only over the Yes edge; "
            "weak-sender creation confined; tracker never returns Pending without a waker (thorough).", "4/C09"),
    "C10": ("guarded-by + who-may + bounded-growth rules on MIR",
            "Address insertion gate (supported transport, not local, matching /p2p), single bounded growth site of the per-peer store, capacity "
            "constant, failure re-scoring provenance.", "4/C10"),
    "C11": ("typestate (poison-restore) + pairing rules on MIR",
            "Every take of the per-peer notification state is restored or the entry removed on every non-diverging path; opened/closed/open-failure "
            "reports are paired with the corresponding state assignments; connection task reports close on every exit.", "4/C11"),
    "C12": ("guarded-by + effect (who-may-call) + provenance rules on MIR",
            "NotificationReceived only behind a reserved slot; the sync send path contains no awaiting send; the notification codec limit is rooted in "
            "the configured maximum.", "4/C12"),
    "C13": ("obligation-container must-pass-through rules on MIR",
            "Each request context removed from a pending container is turned into a user event or moved on every path; no silent overwrite under "
            "non-fresh keys; inbound bound guards the growth site.", "4/C13"),
    "C14": ("who-may + bounded-growth + guarded-by rules on MIR",
            "K-bucket growth only behind len < 20 at one site; local node never indexes a bucket; eviction only of not-connected entries.", "4/C14"),
    "C15": ("dispatch-table totality + guard rules on MIR/HIR",
            "Terminal query actions only together with removal of the query; dispatchers over query kinds are total and forward to the same-named "
            "method; candidate filters reject queried/pending/self.", "4/C15"),
    "C16": ("error-discipline must-pass-through + sibling agreement on MIR",
            "Failed contact attempts are registered with the query engine on every path; removal of pending actions implies settlement; terminal "
            "actions map one-to-one onto user events; success needs the quorum comparison.", "4/C16"),
    "C17": ("bounded-growth + guarded-by rules on MIR",
            "Each growth site of the record/provider maps sits behind its configured bound; expired entries are not returned; replacement guarded by "
            "the freshness comparison; maps written only in the listed methods.", "4/C17"),
    "C18": ("who-may + guard + constant-agreement rules on MIR, compile-fail witnesses",
            "PeerId literals only in three constructors, each guarded to a canonical multihash; constants equal the libp2p-identity reference; "
            "parsers contain no undischarged panic site.", "4/C18"),
    "C19": ("panic-site inventory + discharge (zone guards) over the decoder call-graph closure on MIR",
            "Every panic-capable construct and every remote-sized allocation reachable from the decoder roots inside litep2p is discharged by a "
            "separating guard or type-range argument.", "4/C19"),
    "C20": ("provenance + who-may + guard rules on MIR",
            "The CID of a delivered block is rooted in a digest computed locally over the received data; Block responses are built only there; "
            "outgoing batches are size-guarded prefixes.", "4/C20"),
}

NA = {
}

KNOWN = {
    "C03": " Known finding reported by this check: F48 (the message-based dialer drops bytes that follow the confirmation in the same message).",
    "C05": " Known findings reported by this check (exit 0, KNOWN-FINDING lines): F15, F18 (dial outcomes the manager concludes itself are not reported).",
    "C11": " Known finding reported by this check: F12 (dead pending_open after an outbound open failure in Validating).",
    "C13": " Known findings reported by this check: F15, F18 (via R05.9).",
    "C16": " Known findings reported by this check: F15, F18 (via R05.9), F19 (quorum over the known peers only).",
}


def main():
    checks = []
    na = []
    for i in range(1, 21):
        pid = "C%02d" % i
        if pid in CLAIMS and os.path.exists(os.path.join(VERIF, "rules", pid + ".py")) and pid not in sys.argv[1:]:
            tech, text, ref = CLAIMS[pid]
            checks.append({
                "property_id": pid,
                "quick_cmd": "./check %s --tier quick" % pid,
                "thorough_cmd": "./check %s --tier thorough" % pid,
                "evidence_file": "/verif/evidence/%s.json" % pid,
                "replay_cmd_template": "./check %s --replay {path}" % pid,
                "engine": "lpv",
                "level_claimed": {
                    "category": "other",
                    "text": "static analysis, all CFG paths of the named bodies of /repo's current tree: " + text,
                    "design_ref": "DESIGN.md section " + ref,
                },
                "level_note": TRUST + KNOWN.get(pid, ""),
                "technique": "static analysis: " + tech,
            })
        else:
            na.append({"property_id": pid,
                       "reason": NA.get(pid, "static rules for this property are not built yet (DESIGN.md section 4 describes the planned rules); not claimed")})
    m = {
        "version": 1,
        "setup_cmd": "./setup.sh",
        "hooks": {
            "guard": "litep2p_verif",
            "enable": "none needed: the analysis reads the unmodified crate through a rustc_private driver injected with RUSTC_WORKSPACE_WRAPPER",
            "baseline_off_cmd": "cd /repo && cargo test --workspace --no-fail-fast --offline",
            "source_commits": [],
            "add_only": True,
        },
        "engines": [{
            "name": "lpv",
            "path": "/verif/engine",
            "serves_properties": [c["property_id"] for c in checks],
            "kind_free_text": "rustc_private MIR fact extractor (driver/) + python rule engine (engine/, rules/): CFG reachability with edge cuts, "
                              "interprocedural must-pass-through summaries, provenance slices, comparison guards, who-may/construct tables",
        }],
        "checks": checks,
        "not_applicable": na,
        "notes": "Technique family: static analysis only. Known findings: /verif/known_findings.json (exact keys). Seeded changes: /verif/seeded/.",
    }
    with open(os.path.join(VERIF, "MANIFEST.json"), "w") as f:
        json.dump(m, f, indent=1)
    try:
        import jsonschema
        jsonschema.validate(m, json.load(open("/root/.vp/MANIFEST.schema.json")))
        print("MANIFEST valid; claimed:", [c["property_id"] for c in checks])
    except ImportError:
        print("MANIFEST written (jsonschema not importable here); claimed:", [c["property_id"] for c in checks])


if __name__ == "__main__":
    main()
