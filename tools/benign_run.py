#!/usr/bin/env python3
"""benign_run.py <worktree-name | directory of *.diff | file.diff> ... [--own-thorough] [only=C01,C02]
For every /tmp/wt/<name>/_benign/N.diff (behaviour-preserving refactorings written by a sub-agent, tools/benign_prompt.py): apply it to a
scratch worktree of /repo HEAD and run ALL twenty checks (quick tier; with --own-thorough the property named in <name> also at the thorough
tier).  Prints `SILENT <name>/N` or `ALARM <name>/N <prop>: <key>` per diff.  A check that reports on a benign variant is a false alarm
of the check (or the variant is not benign - read it)."""
import os, re, subprocess, sys, json, shutil

V = os.path.dirname(os.path.dirname(os.path.abspath(__file__)))
WT = os.environ.get("BNRUN_WT", "/tmp/wt/bnrun")
EV = WT + "-evidence"


def sh(*a, **kw):
    return subprocess.run(a, stdout=subprocess.PIPE, stderr=subprocess.STDOUT, text=True, **kw)


def ensure_wt():
    head = sh("git", "-C", "/repo", "rev-parse", "HEAD").stdout.strip()
    if not os.path.isdir(WT):
        sh("git", "-C", "/repo", "worktree", "add", "--detach", WT, head)
    sh("git", "-C", WT, "checkout", "-q", "--", ".")
    sh("git", "-C", WT, "clean", "-fdq", "-e", "target")
    sh("git", "-C", WT, "checkout", "-q", "--detach", head)


def run_checks(props, tier):
    env = dict(os.environ, LPV_REPO=WT, LPV_EVIDENCE_DIR=EV)
    out = {}
    for p in props:
        r = sh(os.path.join(V, "check"), p, "--tier", tier, env=env, cwd=V)
        keys = re.findall(r"key=(\S+)", r.stdout)
        crash = r.returncode not in (0, 1)
        if keys or crash or r.returncode != 0:
            out[p] = keys or ["exit=%d %s" % (r.returncode, r.stdout.strip()[-200:])]
    return out


def main():
    a = sys.argv[1:]
    own = "--own-thorough" in a
    a = [x for x in a if not x.startswith("--")]
    props = ["C%02d" % i for i in range(1, 21)]
    only = None
    for x in list(a):
        if x.startswith("only="):
            only = x[5:].split(",")
            a.remove(x)
    for name in a:
        if os.path.isfile(name):
            name = os.path.abspath(name)
            d, diffs = os.path.dirname(name), [os.path.basename(name)]
            name = os.path.basename(d)
        else:
            d = os.path.abspath(name) if os.path.isdir(name) else "/tmp/wt/%s/_benign" % name
            name = os.path.basename(d.rstrip("/")) if os.path.isdir(name) else name
            diffs = sorted(f for f in os.listdir(d) if f.endswith(".diff")) if os.path.isdir(d) else []
        if only:
            props = only
        m = re.search(r"(C\d\d)", name)
        for f in diffs:
            ensure_wt()
            r = sh("git", "-C", WT, "apply", os.path.join(d, f))
            tag = "%s/%s" % (name, f[:-5])
            if r.returncode != 0:
                print("NOAPPLY %s %s" % (tag, r.stdout.strip()[:200]), flush=True)
                continue
            res = run_checks(props, "quick")
            if own and m:
                for p, ks in run_checks([m.group(1)], "thorough").items():
                    res.setdefault(p, [])
                    res[p] += [k for k in ks if k not in res[p]]
            if not res:
                print("SILENT %s" % tag, flush=True)
            for p, ks in sorted(res.items()):
                for k in ks:
                    print("ALARM %s %s: %s" % (tag, p, k), flush=True)
    ensure_wt()
    shutil.rmtree(EV, ignore_errors=True)


if __name__ == "__main__":
    main()
