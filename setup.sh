#!/bin/sh
# Offline setup: build the rustc_private driver and warm the dependency build of /repo for
# both analysed feature configurations (the first fact extraction).
set -e
DIR="$(cd "$(dirname "$0")" && pwd)"
cd "$DIR"
export CARGO_NET_OFFLINE=true
cargo +nightly build --release --offline --manifest-path driver/Cargo.toml
python3 -m compileall -q engine rules >/dev/null 2>&1 || true
python3 engine/extract.py default all
